#!/bin/bash
# usage: tools/seed_test.sh <seed-dir-name> [tier]   -- apply seeded/<name>/patch.diff to /repo, run the check of the
# property it breaks (meta.json: "property"), undo the patch; prints the check's exit code (1 = detected).
set -u
cd "$(dirname "$(readlink -f "$0")")/.."
name=$1; tier=${2:-quick}
d=seeded/$name
prop=$(python3 -c "import json;print(json.load(open('$d/meta.json'))['property'])")
git -C /repo apply --check "$PWD/$d/patch.diff" || { echo "patch does not apply"; exit 3; }
git -C /repo apply "$PWD/$d/patch.diff"
# the check rewrites evidence/<id>.json: keep the evidence of the unchanged tree
ev="evidence/$prop.json"; [ -f "$ev" ] && cp "$ev" "out/.evidence-$prop.keep"
trap 'git -C /repo apply -R "'"$PWD/$d/patch.diff"'"; [ -f "out/.evidence-'"$prop"'.keep" ] && mv "out/.evidence-'"$prop"'.keep" "evidence/'"$prop"'.json"' EXIT
./check "$prop" --tier "$tier" > "out/seed-$name.log" 2>&1
rc=$?
grep -E "^VIOLATION|^INCONCLUSIVE|^KNOWN-FINDING|OK tier" "out/seed-$name.log" | head -8
echo "seed=$name property=$prop tier=$tier rc=$rc"
exit $rc
