#!/usr/bin/env python3
"""Run every thorough-tier (`_t_`) harness of the given harness crates once with a per-harness time cap and
print one line per harness: verdict, time.  Used to decide which harnesses stay in the thorough tier
(those without a verdict within the cap are renamed `_x_` and stated as such).
usage: tools/sweep_thorough.py <cap-seconds> <jobs> <crate>..."""
import os, sys, json, re
sys.path.insert(0, os.path.join(os.path.dirname(os.path.abspath(__file__)), "..", "lib"))
import driver
if any(a.startswith("--only=") for a in sys.argv):
    # excluded (`_x_`) harnesses are not discovered by the checks; this tool may look at them
    driver.HARN_RE = re.compile(driver.HARN_RE.pattern.replace("[qtvk]", "[qtvkx]"))
    driver.MACRO_RE = re.compile(driver.MACRO_RE.pattern.replace("[qtvk]", "[qtvkx]"))

cap, jobs = int(sys.argv[1]), int(sys.argv[2])
out = {}
only = None
args = sys.argv[3:]
if args and args[0].startswith("--only="):
    only = set(open(args[0][7:]).read().split())
    args = args[1:]
for crate in args:
    ms = driver.discover(crate)
    names = sorted(n for n in ms if re.match(r"c\d\d[a-z]?_[tx]_", n) and (only is None or n in only) and (only is not None or "_t_" in n))
    if not names:
        continue
    full = {n: (ms[n]["module"] + "::" if ms[n]["module"] else "") + n for n in names}
    fulls = [full[n] for n in names]
    logp = os.path.join(driver.OUT, f"sweep-{crate}.log")
    import time
    t0 = time.time()
    text, res = driver.run_kani_batched(crate, fulls, cap, jobs, 20, logp)
    wall = time.time() - t0
    for n in names:
        r = res.get(full[n], {"verdict": "NONE", "time_s": None, "failed_checks": []})
        out[n] = (crate, r["verdict"], r.get("time_s"), r.get("failed_checks"))
        print(f"{crate} {n} {r['verdict']} {r.get('time_s')} {r.get('failed_checks') if r['verdict']=='FAILED' else ''}", flush=True)
    print(f"# {crate}: {len(names)} harnesses, wall {wall:.0f}s", flush=True)
json.dump(out, open(os.path.join(driver.OUT, "sweep-result.json"), "w"), indent=1)
