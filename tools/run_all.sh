#!/bin/bash
# usage: tools/run_all.sh <tier> [ids...]   -- run the check of every claimed property (or the given ones) at <tier>,
# one after the other; one summary line per property in out/run_all-<tier>.log
cd "$(dirname "$(readlink -f "$0")")/.."
tier=${1:-quick}; shift
ids=${*:-$(python3 -c "import json;print(' '.join(c['property_id'] for c in json.load(open('MANIFEST.json'))['checks']))" 2>/dev/null)}
log=out/run_all-$tier.log
: > "$log"
for id in $ids; do
  t0=$(date +%s)
  ./check "$id" --tier "$tier" > "out/run_all-$tier-$id.log" 2>&1
  rc=$?
  echo "$id rc=$rc $(( $(date +%s) - t0 ))s $(grep -E 'OK tier|^VIOLATION|^INCONCLUSIVE' "out/run_all-$tier-$id.log" | head -3 | tr '\n' ' ' | cut -c1-300)" >> "$log"
done
echo done >> "$log"
