#!/bin/bash
# usage: tools/seed_verify.sh <worktree> <crate> <seed-name> <property>
# Confirms in the scratch worktree: with the change the crate's existing tests pass and the demo fails;
# without it the demo passes. Then copies patch.diff, the demo and SEEDED.md to seeded/<seed-name>/.
set -u
wt=$1; crate=$2; name=$3; prop=$4
V="$(dirname "$(readlink -f "$0")")/.."
cd "$wt" || exit 3
export CARGO_NET_OFFLINE=true
git apply -R --check patch.diff 2>/dev/null || { echo "patch not applied in worktree?"; }
echo "== with change: existing tests of $crate + demo"
timeout 3000 cargo test --offline -j 6 -p "$crate" > /tmp/seedv.$$.log 2>&1
grep -E "^test result|Running|FAILED" /tmp/seedv.$$.log | head -40
with_fail=$(grep -A200 "Running tests/seeded_demo.rs" /tmp/seedv.$$.log | grep -m1 "^test result" )
echo "demo with change: $with_fail"
git apply -R patch.diff || exit 3
echo "== without change: demo"
timeout 3000 cargo test --offline -j 6 -p "$crate" --test seeded_demo 2>&1 | grep -E "^test result" | head -3
git apply patch.diff
d="$V/seeded/$name"; mkdir -p "$d"
cp patch.diff SEEDED.md "$d/" 2>/dev/null
cp "$crate/tests/seeded_demo.rs" "$d/seeded_demo.rs"
echo "copied to $d"
rm -f /tmp/seedv.$$.log
