#!/usr/bin/env python3
"""read out/sweep.log (tools/sweep_thorough.py) and rename every thorough harness without a verdict within the cap
(`cNN_t_*` -> `cNN_x_*`) in the harness sources; prints what it did.  FAILED harnesses are only listed."""
import os, re, sys, glob
V = os.path.join(os.path.dirname(os.path.abspath(__file__)), "..")
cap = sys.argv[1] if len(sys.argv) > 1 else "480"
ren, failed = {}, []
for ln in open(os.path.join(V, "out", "sweep.log")):
    p = ln.split()
    if len(p) < 3 or not p[0].startswith("k_"):
        continue
    crate, name, verdict = p[0], p[1], p[2]
    if verdict in ("TIMEOUT", "ERROR", "NONE"):
        ren.setdefault(crate, {})[name] = verdict
    elif verdict == "FAILED":
        failed.append(ln.strip())
for crate, names in ren.items():
    for path in glob.glob(os.path.join(V, "kani", crate, "src", "*.rs")):
        s = open(path).read()
        o = s
        for n, v in names.items():
            x = re.sub(r"^(c\d\d[a-z]?)_t_", r"\1_x_", n)
            s = re.sub(r"\b" + re.escape(n) + r"\b", x, s)
        if s != o:
            open(path, "w").write(s)
    print(crate, len(names), "renamed to _x_ (no verdict within", cap, "s):", " ".join(sorted(names)))
print("FAILED:")
for f in failed:
    print("  ", f)
