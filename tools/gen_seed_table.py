#!/usr/bin/env python3
"""print the DESIGN.md section-6 table from seeded/*/meta.json"""
import json, os
V = os.path.join(os.path.dirname(os.path.abspath(__file__)), "..")
print("| seeded change | property | needs, to manifest | caught by |\n|---|---|---|---|")
for n in sorted(os.listdir(os.path.join(V, "seeded"))):
    j = json.load(open(os.path.join(V, "seeded", n, "meta.json")))
    print(f"| `{n}` | {j['property']} | {j.get('needs','').replace('|','/')} | {j['caught_by'].replace('|','/')} |")
