#!/usr/bin/env python3
"""Generate MANIFEST.json from lib/props.py (claimed checks) and lib/na.py (not applicable)."""
import json, os, sys, subprocess
V = os.path.dirname(os.path.dirname(os.path.abspath(__file__)))
sys.path.insert(0, os.path.join(V, "lib"))
from props import PROPS
from na import NOT_APPLICABLE, HOOK_COMMITS

ids = [json.loads(l)["id"] for l in open(os.path.join(V, "properties.jsonl"))]
checks = []
for pid in ids:
    if pid not in PROPS:
        continue
    c = PROPS[pid]
    engines = []
    if c.get("k"):
        engines.append("K")
    if c.get("m"):
        engines.append("M")
    checks.append({
        "property_id": pid,
        "quick_cmd": f"./check {pid} --tier quick",
        "thorough_cmd": f"./check {pid} --tier thorough",
        "evidence_file": f"/verif/evidence/{pid}.json",
        "replay_cmd_template": "./check --replay {path}",
        "engine": "+".join(engines),
        "level_claimed": {"category": c.get("level", "model_checking"), "text": c["text"], "design_ref": c.get("design_ref", f"DESIGN.md section 3, {pid}")},
        "level_note": c["note"],
        "technique": c.get("technique", "bounded model checking of the compiled Rust code (Kani 0.68 -> CBMC 6.11 -> CaDiCaL) over kani::any() inputs, unwinding assertions on"),
    })
na = [{"property_id": p, "reason": NOT_APPLICABLE[p]} for p in ids if p not in PROPS]
missing = [p for p in ids if p not in PROPS and p not in NOT_APPLICABLE]
assert not missing, missing
man = {
    "version": 1,
    "setup_cmd": "./setup.sh",
    "hooks": {
        "guard": "cfg(any(kani, pallas_verif))",
        "enable": "cargo kani passes --cfg kani to every crate of the build, so the add-only `verif_hooks` wrappers in /repo are compiled for the harness crates; native replay uses `cargo kani playback`, which sets the same cfg",
        "baseline_off_cmd": "cd /repo && (cargo nextest run --workspace --no-fail-fast --tool-config-file pb:/w/lib/nextest.toml --profile pb --test-threads 8 --offline || cargo test --workspace --no-fail-fast --offline)",
        "source_commits": HOOK_COMMITS,
        "add_only": True,
    },
    "engines": [
        {"name": "K", "path": "/verif/kani", "serves_properties": [p for p in ids if p in PROPS and PROPS[p].get("k")],
         "kind_free_text": "Kani 0.68 / CBMC 6.11 / CaDiCaL harness crates with path dependencies on /repo (recompiled from the working tree on every run); symbolic inputs via kani::any(), bounds via #[kani::unwind], unwinding assertions always on, kani::cover! vacuity witnesses, counterexamples replayed natively with `cargo kani playback`"},
        {"name": "M", "path": "/verif/mirsym", "serves_properties": [p for p in ids if p in PROPS and PROPS[p].get("m")],
         "kind_free_text": "mirsym: symbolic execution of rustc MIR (nightly -Zunpretty=mir of /repo's current tree, regenerated on every run) into SMT-LIB2, decided by z3 and cross-checked by cvc5; callees uninterpreted except an audited table"},
    ],
    "checks": checks,
    "not_applicable": na,
    "notes": "All checks are decided by a SAT/SMT verdict over symbolic inputs within the bounds stated per harness in the evidence files; nothing is sampled. Exit 2 = inconclusive (timeout/OOM/vacuous/non-replaying counterexample), never reported as success. See DESIGN.md.",
}
json.dump(man, open(os.path.join(V, "MANIFEST.json"), "w"), indent=1)
print("claimed", len(checks), "n/a", len(na))
