PROPS = {
    "C09": {
        "k": [("k_addr", ["c09_"]), ("k_net", ["c09_"]), ("k_net2", ["c09_"])],
        "timeout": {"quick": 420, "thorough": 2400},
        "text": "Bounded model checking of decode-only entry points on arbitrary bytes with Kani's panic, bounds and arithmetic-overflow checks on: Address::from_bytes / ByronAddress::from_bytes (buffer sizes in the evidence file; the long type-4/5/8 buffers gave no verdict within 480 s and are c09_x_*) and, for both network stacks, the message types that reach a verdict (keepalive Message, Point, Tip) on buffers of symbolic length 0..=3 (thorough 0..=5): the result is a value or an error, never a panic.",
        "note": "Small part of the property. Outside: MultiEraBlock/MultiEraTx/MultiEraHeader::decode (minicbor's tokenizer on symbolic bytes: no verdict in 150-400 s), the list-carrying mini-protocol message types (harnesses exist as c09_x_* but time out), handshake (HashMap), localtxsubmission reject reasons, longer buffers, structure-aware mutations of fixtures (sampling, not a solver question).",
    },
}
