PROPS = {
    "C01": {
        "k": [("k_codec", ["c01_"])],
        "text": "Bounded model checking of the real flat Encoder/Decoder: for each primitive (bool, u8, word and integer over the full 64-bit range, every char, byte strings, utf8, lists, bit groups) and each start alignment (K symbolic leading bools, K concrete per harness; quick: a subset of alignments, thorough: all 0..7) the solver shows encode -> decode returns the same value, the following byte decodes, and the decoder ends exactly at the end of the buffer.",
        "note": "One value (plus K prefix bools and a trailing byte) per solver query; longer sequences follow by composition because the encoder only appends and the decoder only reads at its cursor -- that composition argument is not machine-checked. Byte strings: symbolic length 0..=3 and concrete lengths 255/256/511 (thorough). big_integer (feature num-bigint) is outside.",
    },
    "C02": {
        "k": [("k_codec", ["c02_"])],
        "text": "Bounded model checking of every public flat Decoder entry point and of flat::decode::<T> on an arbitrary buffer of symbolic length (0..=12 bytes for the fixed-size primitives, 0..=3 quick / 0..=5 thorough where the filler/block loops dominate), entered after 0..=7 skipped bits: Kani's built-in panic, bounds and arithmetic-overflow checks must all hold, i.e. the result is Ok or Err.",
        "note": "Buffers above the stated sizes are outside (the property says 64 bytes). Decoder::utf8/String: std's UTF-8 validator is trusted total (no verdict within 15 min on symbolic bytes); its Vec<u8> leg is covered. Three genuine panics found here were repaired by fix: commits (see known_findings.json).",
    },
    "C03": {
        "k": [("k_codec", ["c03_"])],
        "text": "placeholder",
        "note": "placeholder",
        "timeout": {"quick": 420, "thorough": 2400},
    },
    "C04": {
        "k": [("k_codec", ["c04_"])],
        "text": "placeholder",
        "note": "placeholder",
        "timeout": {"quick": 420, "thorough": 2400},
    },
}
