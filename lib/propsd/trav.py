PROPS = {
    "C32": {
        "k": [("k_trav", ["c32_"])],
        "text": "Bounded model checking of the real GenesisValues::{absolute_slot_to_relative, relative_slot_to_absolute, slot_to_wallclock} on the four built-in genesis records (mainnet, testnet, preview, preprod; network concrete per harness, slot symbolic). Decided for every slot < 2^40: Byron epoch number = floor(slot / 21600), Byron inverse function on the correct (epoch, sub-slot) pair, first Byron epoch round trip, Shelley sub-slot < epoch length, wall clock strictly increasing with step = slot length inside each era, epoch continuity at the Shelley boundary. Shelley round trip slot -> (epoch, sub) -> slot decided for every slot < 2^32 (quick) / 2^34 (thorough).",
        "note": "Findings on the unchanged tree (harnesses kept as stated, they fail): c32_q_{mainnet,testnet,preprod}_byron_rel (Byron sub-slot is slot % 432000 instead of slot % 21600, so sub-slot >= epoch length and the round trip breaks from slot 21600 on) and c32_q_testnet_boundary_wc_{step,mono} (testnet byron_known_time is 10800 s ahead of shelley_known_time - 20 * shelley_known_slot: the wall clock jumps back 3 h at the testnet Shelley boundary). The other harnesses assume those cases away (assume: lines). The Shelley round trip needs uniqueness of Euclidean division across two independent CBMC divider circuits; SAT cost grows ~4x per 2 bits of slot range (2^36: no verdict in 800 s), hence 2^32 / 2^34 instead of the 2^40 of the design; thorough adds the closed form and the successor step for slots < 2^30 and the inverse direction for epochs < 2^12. Trusted: that the genesis constants equal the real networks' (only their mutual consistency is checked). MultiEraBlock::{epoch,wallclock} (header field projection) outside.",
        "timeout": {"quick": 300, "thorough": 1200},
    },
    "C30": {
        "k": [("k_trav", ["c30_"])],
        "text": "Bounded model checking of probe::block_era on every input of 0..=4 bytes against the block-wrapper tag table (array(2) head of width 1-3, tag 0..7 in 1- or 2-byte form -> EpochBoundary/Byron/../Conway, everything else Inconclusive), and of MultiEraBlock::{era, tx_count, is_empty, has_aux_data} plus the per-index tx assembly (see note) on blocks built in the harness.",
        "note": "block_era runs against a 40-line model of minicbor's Tokenizer (stub: line in c30.rs): the real tokenizer is not symbolically executable for two consecutive tokens (no verdict in 150 s even on a concrete 3-byte input); one harness anchors the model's Array(2)/U8 rows on the real tokenizer with concrete one-token inputs. Outside: decoding real blocks, aux-data maps with >= 2 entries.",
        "timeout": {"quick": 420, "thorough": 1200},
    },
}
