PROPS = {
    "C23": {
        "m": ["c23"],
        "level": "model_checking",
        "technique": "symbolic execution of the rustc MIR of the agents' guard functions into SMT (bit-vector discriminants), table-vs-MIR equivalence decided by z3 and cross-checked by cvc5",
        "text": "For the 9 mini-protocols of the original stack and both roles (17 agents), the MIR of has_agency, assert_agency_is_ours/theirs, assert_outbound_state and assert_inbound_state is regenerated from /repo's working tree and executed symbolically on an arbitrary (state, message) pair; the solver shows that `accepts to send` and `accepts to receive` coincide with the transition relation of the Ouroboros specification tables (spec/n2_protocols.json) for every pair -- guard tables only, complete over the finite discriminant space.",
        "note": "Not decided: the state *updates* performed inside the async send_*/recv_* methods (coroutine bodies behind tokio channels), so `ends in the prescribed state` is outside the claim; message payloads play no role in the guards. Trusted: the hand-transcribed specification tables, the MIR text of the nightly compiler as a faithful rendering of the code, the variant tables read from derived Debug impls, mirsym's interpreter (validated at setup against native runs).",
    },
}
