PROPS = {
    "C23": {
        "m": ["c23", "c23s"],
        "level": "model_checking",
        "technique": "symbolic execution of the rustc MIR of the agents' guard functions into SMT (bit-vector discriminants), table-vs-MIR equivalence decided by z3 and cross-checked by cvc5",
        "text": "For the 9 mini-protocols of the original stack and both roles (17 agents), the MIR of has_agency, assert_agency_is_ours/theirs, assert_outbound_state and assert_inbound_state is regenerated from /repo's working tree and executed symbolically on an arbitrary (state, message) pair; the solver shows that `accepts to send` and `accepts to receive` coincide with the transition relation of the Ouroboros specification tables (spec/n2_protocols.json) for every pair (guard tables, complete over the finite discriminant space). Second query set (state updates): the coroutine bodies (poll functions, MIR) of every async exchange method whose only awaits are send_message/recv_message are executed from an arbitrary agent state with those primitives replaced by their verified guard contract; on every finished path an Err leaves the agent state unchanged and an Ok has moved it along exactly the specification transitions of the messages exchanged on that path; send_message/recv_message themselves never change the state.",
        "note": "Outside: composite async methods that await other high-level methods (keepalive_roundtrip, handshake, chainsync request_or_await_next, localstate acquire/query, txmonitor query_*, blockfetch fetch_*; listed in the evidence file), payload-dependent parts of a next state (which cookie Server carries), loops beyond 3 unrollings. Assumed: the multiplexer channel functions do not touch the agent's protocol state (they receive &mut self.1 only). Trusted: the hand-transcribed specification tables, the MIR text of the nightly compiler as a faithful rendering of the code, the variant tables read from derived Debug impls, mirsym's interpreter (validated at setup against native runs).",
    },
    "C39": {
        "m": ["c39"],
        "level": "model_checking",
        "technique": "symbolic execution of the rustc MIR of validate_txs into SMT (opaque certificate state, uninterpreted validate_tx with havocked &mut argument, bounded loop unrolling), decided by z3 and cross-checked by cvc5",
        "text": "The MIR of pallas_validate::phase1::validate_txs (regenerated from /repo on every run) is executed symbolically with an opaque CertState and an uninterpreted validate_tx that may do anything to the delta state it is handed: on every path that returns Err the caller's certificate state is the entry value, on every path that returns Ok it is the delta state left by the last validate_tx call, and each call receives the delta state left by the previous one (initially a clone of the entry state). Bounded by the loop unrolling (quick: success after 0..3 / failure at 1..4 transactions; thorough: 0..6 / 1..7).",
        "note": "Outside: what validate_tx does to the state (any effect is allowed), panics inside callees. Trusted: Clone::clone returns an equal value; core's Try/FromResidual for Result; the MIR text; mirsym's interpreter.",
    },
    "C17": {
        "m": ["c17"],
        "level": "model_checking",
        "technique": "symbolic execution of the rustc MIR of the Decimal operators into SMT with dashu IBig mapped to unbounded SMT integers; exactness formulas decided by z3 and cross-checked by cvc5 (z3 5.x as tie-breaker when one gives up)",
        "text": "The MIR of Decimal::{floor, ceil, trunc, round, neg, abs, add, sub, mul, div (by value, by reference and the *Assign forms), partial_cmp, eq} and of scale/div/div_qr is regenerated from /repo and executed symbolically with the raw data as unbounded integers: floor/ceil/trunc/round return the multiple of 10^p their name prescribes (round within one half), add/sub/neg/abs are exact, mul is the floor of the exact product and div the truncation of the exact quotient at 34 digits, comparisons agree with the integers; for every value, at precisions p in {0,1,2,34} (thorough adds 3, 9, 18).",
        "note": "Unbounded in the values, bounded in the precision. Trusted: the IBig operator table (truncating division, sign(0)=Positive, exact product kept as one opaque term), validated natively against dashu at setup; the Decimal invariant multiplier = 10^precision on inputs. Outside: Display/from_str (printing), exp/ln/pow, mul/div at precisions other than 34.",
    },
    "C27": {
        "m": ["c27"],
        "level": "model_checking",
        "technique": "symbolic execution of the rustc MIR of PromotionBehavior's transition functions into SMT with HashSet<PeerId> mapped to bit-masks over a small peer universe; one inductive step from an arbitrary invariant-satisfying state, decided by z3 and cross-checked by cvc5",
        "text": "Set-consistency half of the property as one inductive step: from an arbitrary state of the four peer sets satisfying the invariant (pairwise disjoint, sizes within arbitrary configured limits) over a universe of 3 peers (thorough 4), one call of on_peer_discovered, categorize_peer (housekeeping / inbound-message visitor), ban_peer or demote_peer with an arbitrary peer and an arbitrary InitiatorState re-establishes the invariant, keeps banned peers banned and out of cold/warm/hot, and never underflows a `max - len` subtraction. Because the pre-state is arbitrary, this covers event histories of any length over that universe.",
        "note": "Not decided: the `never again asks to connect to a banned peer` half (Connect emission lives in InitiatorBehavior: HashMap + FuturesUnordered, not encodable). Trusted: HashSet as a mathematical set (bit-mask plug-in); tracing/metrics calls are uninterpreted (no mutable access to the sets). Assumed: demote_peer is applied to a tracked peer (the initiator never calls it; on an untracked peer it would add a cold peer beyond max_peers).",
    },
}
