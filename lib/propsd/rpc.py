PROPS = {
    "C44": {
        "k": [("k_rpc", ["c44_"])],
        "text": "Bounded model checking of the numeric conversions of the UTxO RPC mapper, both schema versions (v1alpha, v1beta): Mapper::map_plutus_bigint for every Plutus Int of the CBOR range -2^64..=2^64-1 (symbolic i128) and for BigUInt/BigNInt with payloads of 0..=3 arbitrary bytes (length concrete per harness): the result denotes the same integer (Int(v)=v, BigUInt(b)=be(b), BigNInt(b)=-1-be(b)) and big integers keep sign and length; u64_to_bigint for every u64 (integer form iff <= i64::MAX, 8-byte big-endian form otherwise) and i64_to_bigint for every i64.",
        "note": "Finding on the unchanged tree (harness kept as stated, it fails, both versions): c44_q_{a,b}_int_full -- map_plutus_bigint does `i128::from(x) as i64`, so every Int outside the i64 range (still a plain CBOR integer up to +-2^64) is truncated; c44_q_{a,b}_int_i64 decides the i64 range under that assumption. Outside: map_tx/map_block/map_tx_output/map_plutus_datum on nested data (ledger context is a HashMap, real decoding), payloads > 3 bytes (copied, no arithmetic). u64_to_bigint/i64_to_bigint are private and reached through cfg-guarded verif_hooks in v1alpha/mod.rs and v1beta/mod.rs.",
        "timeout": {"quick": 300, "thorough": 600},
    },
}
