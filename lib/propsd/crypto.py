PROPS = {
    "C10": {
        "k": [("k_crypto", ["c10_"])],
        "text": "Bounded model checking of the real Hash<N>/Hasher/nonce code. Hash<N> CBOR (N = 28, 32): on a buffer 58 L payload[36] with the length byte L symbolic, and on 36 arbitrary bytes (thorough), decode succeeds iff the item is a definite byte string of exactly N bytes and then returns its content; encode -> decode is the identity. Hex (N = 2 instance of the generic code): FromStr on four symbolic hex digits of either case yields the denoted bytes, lengths 2 and 6 are rejected; Display -> FromStr round trip (thorough). Byte streams handed to Blake2b (probe stubs for cryptoxide Blake2b::new / Digest::input / Digest::result: the digest exposes stream length and the bytes at two symbolic positions, so digest equality for all positions is stream equality, one nesting level deep): hash_tagged(b,t) = hash(t||b) for every tag and 8 symbolic bytes (256 and 224 bit), input(a);input(b) = input(a||b) for every split point, hash_cbor / hash_tagged_cbor = hash of the (tagged) CBOR bytes, generate_epoch_nonce = H(nc||nh) resp. H(H(nc||nh)||extra), generate_rolling_nonce = H(prev||H(vrf)) for 32- and 64-byte VRF outputs, and a VRF output of any other length up to 70 hits the documented length assertion.",
        "note": "Outside and trusted: that cryptoxide's Blake2b computes RFC 7693 (a one-block symbolic compression exhausts goto-instrument); the stream properties are about what the wrappers feed to it. The should_panic harness shows the length assertion is reached and nothing else fails for lengths other than 32/64. serde impls are outside.",
        "timeout": {"quick": 420, "thorough": 2400},
    },
    "C11": {
        "k": [("k_crypto", ["c11_"])],
        "text": "Bounded model checking of the real pallas_crypto::key::ed25519 wrappers. For all 2^512 inputs SecretKeyExtended::from_bytes / try_from accept exactly the keys with (b0 & 7) = 0, bit 254 set, bit 255 clear, and an accepted key holds the given bytes; PublicKey / Signature::try_from(&[u8]) accept exactly 32 / 64 bytes and copy them. Plumbing under contract stubs of cryptoxide::ed25519::{keypair, signature, signature_extended, extended_to_public, verify} (a deterministic toy scheme in which verify(m, pk(sk), sig(m, sk)) holds and everything else is rejected): for standard and extended keys, symbolic key bytes and messages of 0..=4 bytes, sign-then-verify succeeds and any single flipped bit of the message, the signature or the public key makes verify fail -- which catches swapped arguments, a key scrubbed before use, or the wrong key half being passed on.",
        "note": "Outside: agreement of cryptoxide's Ed25519 with RFC 8032 (needs symbolic scalar multiplication and SHA-512); this is the larger part of the property as stated. The toy scheme is part of the trusted base of the plumbing harnesses only; the clamping and length harnesses use no stub beyond fmt::format.",
        "timeout": {"quick": 420, "thorough": 2400},
    },
    "C12": {
        "k": [("k_crypto", ["c12_"])],
        "text": "Byte-layout part of the property only, decided by bounded model checking of the real Sum{1..7}Kes / Sum{1..7}KesSig code: every byte string of exactly 64 + 64*d bytes is accepted by SumdKesSig::from_bytes and to_bytes returns it unchanged (compared at a symbolic index), other lengths (d-1's size, one short, one long, empty) are rejected with InvalidSignatureSize; SumdKes::from_bytes accepts exactly 32 + 96*d + 4 bytes, get_period is the trailing big-endian word for every word value, and update() on a key whose period is 2^d - 1 returns KeyCannotBeUpdatedMore and leaves period and every buffer byte unchanged (arbitrary other key bytes).",
        "note": "Outside (most of the property): signatures verify at exactly their period, public-key stability across updates, successful updates, keygen, and the whole compact-sum variant -- all of them run ed25519-dalek and Blake2b on symbolic seeds; dalek's types have private fields and cannot be stubbed. Period words >= 2^d are outside (from_bytes does not validate them; update() on 0xffffffff overflows period + 1).",
        "timeout": {"quick": 420, "thorough": 2400},
    },
    "C14": {
        "k": [("k_crypto", ["c14_"])],
        "text": "Bounded model checking of the real memeq/memcmp: for every pair of byte arrays and every compared length 1..=8 (thorough 1..=16) the solver shows memeq <=> equality and memcmp == lexicographic order; a two-byte harness drives the branchless accumulator step through every (accumulator, difference) pair; len==0 panics as documented. Complete within the length bound, which is all the property needs because the loop body does not depend on the length.",
        "note": "Trusted: Kani/CBMC's model of ptr::read_volatile and i32 arithmetic (dev profile). Lengths > 16 are outside the formula. Constant-time-ness itself (timing) is not the property and is not checked.",
    },
}
