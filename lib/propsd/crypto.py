PROPS = {
    "C14": {
        "k": [("k_crypto", ["c14_"])],
        "text": "Bounded model checking of the real memeq/memcmp: for every pair of byte arrays and every compared length 1..=8 (thorough 1..=16) the solver shows memeq <=> equality and memcmp == lexicographic order; a two-byte harness drives the branchless accumulator step through every (accumulator, difference) pair; len==0 panics as documented. Complete within the length bound, which is all the property needs because the loop body does not depend on the length.",
        "note": "Trusted: Kani/CBMC's model of ptr::read_volatile and i32 arithmetic (dev profile). Lengths > 16 are outside the formula. Constant-time-ness itself (timing) is not the property and is not checked.",
    },
}
