PROPS = {
    "C24": {
        "k": [("k_net2", ["c24_"])],
        "text": "Bounded model checking of the real `State::apply` of the network2 mini-protocols keepalive, chainsync<HeaderContent>, blockfetch, peersharing, txsubmission, leios-notify and leios-fetch against the transition tables of the Ouroboros network specification (DESIGN.md appendix A; leios: module documentation), written as a small `match` in the harness. Per protocol one query with the state kind and the message variant both symbolic (all scalars symbolic, vectors empty or one element) decides `apply(..).is_ok() <=> the specification allows the message in that state` and the class of the next state; one query per allowed transition additionally decides that the received data is carried into the next state. Handshake: the Accept/Refuse messages in Propose, Confirm (empty proposed table) and Done.",
        "note": "`apply` is a pure function of (state, message), so one step from an arbitrary state stands for sequences of any length (composition not machine-checked). The spec tables are hand-transcribed and trusted. Every (state, message) pair on which the tree is known to deviate is excluded from the table query by an explicit assumption and decided by its own harness, so the rest of the table stays decided: keepalive Done in Client, peersharing Done in Idle, five txsubmission pairs. Outside: payload vectors longer than one element, handshake Propose/QueryReply (HashMap version tables cannot be built under CBMC), leios one-entry bitmap selectors in the quick tier.",
        "timeout": {"quick": 420, "thorough": 1500},
    },
    "C26": {
        "k": [("k_net", ["c26_"])],
        "text": "Bounded model checking of the real chainsync RollbackBuffer against a fixed-array list model: every buffer reachable by 0..=3 roll_forward calls over a 3-point alphabet (symbolic choices, duplicates and misses included), followed by one roll_back(p), pop_with_depth(d <= 4), position(p) or roll_forward: Handled/OutOfScope, kept prefix, popped points and their order, and all observers (size, peek order, oldest, latest) agree with the model.",
        "note": "Histories longer than 3 forwards + 1 operation are outside (the property says 200): each operation is decided from every buffer content of <= 3 points, longer histories follow only if the buffer's behaviour depends on nothing but its content (VecDeque wrap-around and regrowth are not exercised). With duplicate points roll_back may cut after any occurrence.",
    },
    "C22": {
        "k": [("k_net2", ["c22_"]), ("k_net", ["c22_"])],
        "text": "Bounded model checking of the hand-written message codecs of both stacks for keepalive, blockfetch, chainsync<HeaderContent>, txsubmission and peersharing (plus Point and PeerAddress): one query per message variant (variant concrete, every scalar symbolic over its full range, vectors of 0, 1, 2 elements, byte payloads of 0..3 bytes): the value is encoded by the real encoder into a fixed buffer, a strict iterative CBOR well-formedness walker written in the harness crate (every declared container length must be met, breaks only inside indefinite containers, reserved heads rejected) must consume exactly the bytes written, and the real decoder must return a field-wise equal value and stop at the same offset.",
        "note": "The walker (kani/k_net*/src/cborwf.rs) is the trusted oracle. Outside: variants owning HashMap version tables (handshake Propose/QueryReply) and the other handshake, leios and node-to-client messages; longer vectors / payloads; HeaderContent values the wire format cannot represent (variant 0 without byron prefix, later eras with one).",
        "timeout": {"quick": 420, "thorough": 1500},
    },
    "C21": {
        "k": [("k_net2", ["c21_"]), ("k_net", ["c21_"])],
        "text": "Bounded model checking of the incremental decode step of both stacks (`try_decode_msg` behind AnyMessage::from_payload in network2, `try_decode_message` behind ChannelBuffer::recv_full_msg in network), reached through add-only hook wrappers and instantiated per protocol message type: bytes = enc(m) || enc(m') for two messages with symbolic scalars, a symbolic cut c over every position 0..=len: on bytes[..c] exactly the messages wholly inside the prefix are returned (equal values), a partial message returns 'incomplete' (None / Ok(None), never Err) and leaves the buffer byte-for-byte untouched; after appending bytes[c..] the remaining messages come out and the buffer is empty.",
        "note": "This prefix => incomplete => retry lemma is what any segmentation (incl. 1-byte segments) reduces to by induction on the number of segments; the induction, the async recv loops, the HashMap of per-channel partial buffers and the channel -> type dispatch are outside. Message pairs are concrete variant pairs per harness; payloads <= 3 bytes.",
        "timeout": {"quick": 420, "thorough": 1500},
    },
}
