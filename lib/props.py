"""Per-property configuration, merged from lib/propsd/*.py (one file per harness-crate group).
Each entry: {"k": [(crate, [harness-name prefixes])], "m": [mirsym query sets], "text": level text,
"note": level note, optional "timeout": {"quick": s, "thorough": s}, "mem_gb", "jobs", "technique"}.
Harness metadata (functions encoded, bounds, stubs, what is outside the claim) lives in doc comments
next to each harness."""
import glob, importlib.util, os

PROPS = {}
for _f in sorted(glob.glob(os.path.join(os.path.dirname(os.path.abspath(__file__)), "propsd", "*.py"))):
    _spec = importlib.util.spec_from_file_location("propsd_" + os.path.basename(_f)[:-3], _f)
    _m = importlib.util.module_from_spec(_spec)
    _spec.loader.exec_module(_m)
    for _k, _v in _m.PROPS.items():
        assert _k not in PROPS, _k
        PROPS[_k] = _v
