"""Per-property configuration: which harness crates/prefixes (engine K) and which mirsym
query sets (engine M) decide each property.  Harness metadata (functions encoded, bounds,
stubs, what is outside the claim) lives in doc comments next to each harness."""

PROPS = {
    "C14": {"k": [("k_crypto", ["c14_"])]},
}
