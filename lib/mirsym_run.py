"""glue: run a mirsym query set (needs the tooling venv's z3 API) and return its JSON result"""
import json, os, subprocess

VERIF = os.path.dirname(os.path.dirname(os.path.abspath(__file__)))


def run(pid, qset, tier, seed, outdir):
    os.makedirs(outdir, exist_ok=True)
    logp = os.path.join(outdir, f"mirsym-{qset}-{tier}.log")
    env = dict(os.environ, VERIF_SEED=str(seed))
    with open(logp, "w") as lf:
        r = subprocess.run(["python3-vt", os.path.join(VERIF, "mirsym", "run.py"), pid, qset, tier, outdir],
                           stdout=subprocess.PIPE, stderr=lf, text=True, env=env)
    out = r.stdout.strip().split("\n")[-1] if r.stdout.strip() else ""
    try:
        res = json.loads(out)
    except Exception:
        res = {"queries": 0, "nontrivial": 0, "solver_s": 0.0, "samples": [], "functions": [], "bounds": [],
               "violations": [], "inconclusive": [f"mirsym {qset}: no result (see {logp})"]}
    for s in res.get("samples", []):
        s["engine"] = "mirsym"
    return res
