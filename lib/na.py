"""Properties not claimed, with the reason (mirrors DESIGN.md section 4), and hook commits in /repo."""
HOOK_COMMITS = ["6937c537", "4828233e", "e51e51dd", "3f92df22", "1ecdf4ae", "276d635d", "2d50d2e9"]
_NYI = "not claimed yet: the check for this property has not been built (see DESIGN.md build order)"
NOT_APPLICABLE = {
    "C13": "quantifies over the content of key buffers produced by Blake2b and Ed25519 key derivation across evolution histories: symbolic seeds put hash compressions and scalar multiplications in the formula (out of reach for CBMC/SMT here), concrete seeds would be testing",
    "C15": "up to 1000 iterations of 113-bit multiply/divide on heap big integers (dashu); non-linear queries do not terminate and dashu is not executable under Kani (measured: 489 ERROR checks)",
    "C16": "same kernel as C15 (bounded Taylor loop over dashu big integers); the oracle would be a re-implementation and the non-linear queries do not terminate",
    "C20": "quantifies over schedules of concurrent tokio tasks over sockets; Kani does not model concurrency and tokio channels gave no verdict in 400 s for a single try_send/try_recv",
    "C21": "the reassembly step (try_decode_message / try_decode_msg) was harnessed under Kani in two ways (encoder-built pairs with a symbolic cut; hand-laid two-message keep-alive stream with every cut position concrete, cookies symbolic: kani/k_net*/src/c21*.rs) and neither reached a verdict within 400 s per harness (minicbor decoding out of a heap Vec plus drain); under mirsym the decoder is the callee and would be uninterpreted, which removes exactly what the property is about. Nothing is claimed",
    "C25": "the version-selection loop lives inside an async fn between channel awaits (v1) or iterates two HashMap version tables pushed to FuturesUnordered (v2); HashMap is not executable under Kani and call abstraction would havoc exactly the iteration that carries the property",
    "C28": "histories over InitiatorBehavior: HashMap<PeerId,_>, FuturesUnordered<Pin<Box<dyn Future>>>, chrono, rand, opentelemetry globals; not encodable, and a per-visitor abstraction drops the delayed-confirmation interleavings the property is about",
    "C29": "same state as C28 (HashMap + FuturesUnordered behaviours); event histories cannot be encoded",
    "C34": "values are folded through HashMap<PolicyId,HashMap<..>> and the UTxO HashMap; the only encodable path (ada-only addition) cannot show the wrap-around/sign cases the property is about",
    "C40": "StagingTransaction keeps mint, assets, scripts, datums and redeemers in HashMaps and build_conway_raw calls unwrap_or_default() on them; HashMap::default() is not executable under Kani (getrandom/futex syscalls)",
    "C41": "signatures is a HashMap every operation writes, and each operation decodes and re-encodes a whole conway::Tx (concrete 266-byte tx decode: 21 GB, no verdict)",
}
for _p in ["C%02d" % i for i in range(1, 45)]:
    NOT_APPLICABLE.setdefault(_p, _NYI)
