#!/bin/bash
# Build the framework offline from files on disk: compile the harness workspace's
# dependencies once with Kani's toolchain so that checks only rebuild what changed.
set -e
cd "$(dirname "$(readlink -f "$0")")"
export CARGO_NET_OFFLINE=true
mkdir -p out evidence
[ -f kani/Cargo.lock ] || cp /repo/Cargo.lock kani/Cargo.lock
python3 lib/gen_manifest.py >/dev/null
(cd kani && cargo kani --workspace --only-codegen -Z unstable-options -Z stubbing >out-setup.log 2>&1 || { tail -50 out-setup.log; exit 1; })
rm -f kani/out-setup.log
echo setup ok
