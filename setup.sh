#!/bin/bash
# Build the framework offline from files on disk:
#  * harness workspace (Kani toolchain): dependencies of every harness crate are compiled once,
#  * native replay crate (/verif/replay, --cfg pallas_verif) incl. the validation of mirsym's trusted
#    model tables against the real crates (dashu IBig model),
#  * MANIFEST.json regenerated from lib/propsd.
set -e
cd "$(dirname "$(readlink -f "$0")")"
export CARGO_NET_OFFLINE=true
mkdir -p out evidence mirsym/cache
[ -f kani/Cargo.lock ] || cp /repo/Cargo.lock kani/Cargo.lock
[ -f replay/Cargo.lock ] || cp /repo/Cargo.lock replay/Cargo.lock
python3 lib/gen_manifest.py >/dev/null
python3-vt -c "import z3" || { echo "z3 python API missing in python3-vt"; exit 1; }
# 1. harness crates: one cheap harness per crate pulls the whole dependency graph through kani-compiler
for c in kani/k_*/; do
  c=$(basename "$c")
  h=$(grep -rhoE "fn (c[0-9]{2}_v_[A-Za-z0-9_]+)" "kani/$c/src" | head -1 | awk '{print $2}')
  [ -z "$h" ] && continue
  (cd kani && cargo kani -p "$c" --only-codegen -Z unstable-options -Z stubbing --harness "$h" >"../out/setup-$c.log" 2>&1) \
     || { echo "setup: kani build of $c failed"; tail -30 "out/setup-$c.log"; exit 1; }
done
# 2. native replay crate + validation of the trusted model tables
(cd replay && CARGO_TARGET_DIR=$PWD/target RUSTFLAGS="--cfg pallas_verif" cargo test --offline --no-run >../out/setup-replay.log 2>&1) \
   || { echo "setup: replay crate failed to build"; tail -30 out/setup-replay.log; exit 1; }
(cd replay && CARGO_TARGET_DIR=$PWD/target RUSTFLAGS="--cfg pallas_verif" cargo test --offline --test dashu_model >>../out/setup-replay.log 2>&1) \
   || { echo "setup: mirsym's IBig model table disagrees with dashu"; tail -30 out/setup-replay.log; exit 1; }
echo setup ok
