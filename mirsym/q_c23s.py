"""C23, state-update half: the async exchange methods of the original-stack agents.
For every agent (9 protocols x client/server) the poll function (coroutine body, MIR) of each async method whose only
awaits are send_message / recv_message is executed symbolically from an arbitrary agent state.  The awaited primitives are
modelled by their verified contract (c23 guard tables): send_message(msg) completes Ok only if the agent accepts to send msg
in its current state, recv_message() yields Ok(m) only for an m it accepts to receive, both may also fail or stay pending,
and neither changes the agent state (checked as a lemma on their own poll functions).  Decided per finished path:
  Err  => the agent state is the entry state (rejects with an error rather than a state change);
  Ok   => the state moved along exactly the specification transitions of the messages exchanged on that path."""
import copy, json, os, re, z3
import mir, sym, smt, models, native
from q_c23 import SPEC, find_fn

BOUNDS = ["all paths of each coroutine body with loops unrolled 3 times; agent state and received messages symbolic (discriminants); payloads opaque"]
OUTSIDE = ["async methods that await other high-level methods (compositions of the primitives decided here), e.g. keepalive_roundtrip, chainsync request_or_await_next",
           "payload-dependent next states are compared on the state class only (e.g. which cookie the keepalive Server state carries)"]
ASSUMPTIONS = ["the multiplexer channel (ChannelBuffer::send_msg_chunks / recv_full_msg) does not touch the agent's protocol state (it receives &mut self.1 only)"]


class VFuture(sym.V):
    def __init__(self, kind, self_ref, msg_ref, uid):
        self.kind, self.self_ref, self.msg_ref, self.uid = kind, self_ref, msg_ref, uid

    def __repr__(self):
        return f"Future({self.kind})"


def state_of(ex, path, self_ref):
    a = ex.read_loc(path, self_ref.obj, self_ref.proj)
    a = ex.as_adt(a, None, False)
    st = a.fields.get((None, "0"))
    if st is None:
        raise sym.Stop("agent state field missing")
    return st


class Agent:
    def __init__(self, funcs, proto, sp, role, ctx):
        self.funcs, self.proto, self.sp, self.role, self.ctx = funcs, proto, sp, role, ctx
        self.mod = sp["module"]
        self.st_names = mir.variant_names(funcs, f"{self.mod}::protocol::State")
        self.mg_names = mir.variant_names(funcs, f"{self.mod}::protocol::Message")
        self.st_idx = {v: k for k, v in self.st_names.items()}
        self.mg_idx = {v: k for k, v in self.mg_names.items()}
        self.guards = {n: find_fn(funcs, self.mod, role, n) for n in ("assert_agency_is_ours", "assert_agency_is_theirs", "assert_outbound_state", "assert_inbound_state")}
        self.nrecv = 0

    def guard(self, names, st_val, msg_val):
        """Or of the path conditions under which all the named guard functions return Ok on (state, msg)"""
        out = []
        for n in names:
            ex = sym.Executor(self.funcs, inline=lambda c, f: f.name.endswith("::has_agency") or f.name.endswith("::state"),
                              variant_index=self.ctx.variant_index(self.funcs))
            st = copy.deepcopy(st_val)
            objs = {"H:gself": sym.VAdt("Agent", None, {(None, "0"): st, (None, "state"): st}, uid="gself"), "H:gmsg": copy.deepcopy(msg_val)}
            args = [sym.VRef("H:gself")] + ([sym.VRef("H:gmsg")] if n.endswith("_state") else [])
            oks = []
            for p in ex.run(self.guards[n], args, objs=objs):
                if p.outcome[0] == "return" and isinstance(p.ret, sym.VAdt) and p.ret.discr is not None:
                    oks.append(z3.And((z3.And(p.cond) if p.cond else z3.BoolVal(True)), p.ret.discr == 0))
            self.ctx.encoded |= ex.encoded
            out.append(z3.Or(oks) if oks else z3.BoolVal(False))
        return z3.And(out)

    def models(self):
        ag = self

        def mk_future(ex, path, frame, callee, argv, argty, dest_ty):
            kind = "send" if callee.endswith("send_message") else "recv"
            if not isinstance(argv[0], sym.VRef):
                return None
            return [(path, VFuture(kind, argv[0], argv[1] if len(argv) > 1 else None, ex.fresh_uid(path, "fut")))]

        def ident(ex, path, frame, callee, argv, argty, dest_ty):
            return [(path, argv[0])]

        def poll(ex, path, frame, callee, argv, argty, dest_ty):
            f = argv[0]
            k = 0
            while isinstance(f, sym.VRef) and k < 3:
                f = ex.read_loc(path, f.obj, f.proj)
                k += 1
            if not isinstance(f, VFuture):
                return None
            out = []
            # Pending
            p0 = path.clone()
            out.append((p0, sym.VAdt("Poll", z3.BitVecVal(1, 64), {}, uid=ex.fresh_uid(p0, "pend"))))
            # Ready(Err(e))
            p1 = path.clone()
            err = sym.VAdt("Result", z3.BitVecVal(1, 64), {("Err", "0"): sym.VUnknown(ex.fresh_uid(p1, "ioerr"))}, uid=ex.fresh_uid(p1, "rerr"))
            out.append((p1, sym.VAdt("Poll", z3.BitVecVal(0, 64), {("Ready", "0"): err}, uid=ex.fresh_uid(p1, "rdy"))))
            # Ready(Ok(..)) under the guard contract
            p2 = path
            st = state_of(ex, p2, f.self_ref)
            st = ex.as_adt(st, None, True)
            if f.kind == "send":
                msg = ex.read_loc(p2, f.msg_ref.obj, f.msg_ref.proj)
                msg = ex.as_adt(msg, None, True)
                g = ag.guard(["assert_agency_is_ours", "assert_outbound_state"], st, msg)
                val = sym.VUnit()
            else:
                ag.nrecv += 1
                uid = ex.fresh_uid(p2, "rmsg")
                msg = sym.VAdt("Message", z3.BitVec(uid + ".#d", 64), {}, uid=uid)
                g = z3.And(ag.guard(["assert_agency_is_theirs", "assert_inbound_state"], st, msg), z3.ULT(msg.discr, len(ag.mg_names)))
                val = msg
            g = z3.simplify(g)
            if not z3.is_false(g) and ex.feasible(p2, g):
                if not z3.is_true(g):
                    p2.cond.append(g)
                p2.events.append(("exchange", f.kind, st.discr, msg.discr))
                ok = sym.VAdt("Result", z3.BitVecVal(0, 64), {("Ok", "0"): copy.deepcopy(val)}, uid=ex.fresh_uid(p2, "rok"))
                out.append((p2, sym.VAdt("Poll", z3.BitVecVal(0, 64), {("Ready", "0"): ok}, uid=ex.fresh_uid(p2, "rdy"))))
            return out

        return [
            (r"::(send_message|recv_message)$", mk_future),
            (r"as IntoFuture>::into_future$", ident),
            (r"^Pin::<.*>::new_unchecked$", ident),
            (r"as Future>::poll$", poll),
        ] + models.STANDARD

    def next_ok(self, s_e, m_e, after_e):
        """after_e is a specification successor of state s_e under message m_e"""
        alts = []
        for (s, m, n) in self.sp["transitions"]:
            if s in self.st_idx and m in self.mg_idx:
                nx = [self.st_idx[x] for x in n.split("|") if x in self.st_idx]
                alts.append(z3.And(s_e == self.st_idx[s], m_e == self.mg_idx[m], z3.Or([after_e == x for x in nx])))
        return z3.Or(alts) if alts else z3.BoolVal(False)


def methods(funcs, mod, role):
    pre = f"{mod}::{role}::<impl at "
    out = []
    for n, f in funcs.items():
        if not n.endswith("::{closure#0}") or not (n.startswith(pre) or ("::" + pre) in n):
            continue
        if not f.args or "async fn body" not in f.args[0][1]:
            continue
        name = n.split("::")[-2]
        out.append((name, f))
    return out


def awaits_only_primitives(f):
    """every Future::poll in the body polls a send_message / recv_message future"""
    polls = []
    for stmts, term, _ in f.blocks.values():
        m = re.search(r"<\{async fn body of ([^}]*)\} as Future>::poll", term)
        if m:
            polls.append(m.group(1))
        elif "as Future>::poll" in term:
            polls.append(term[:80])
    return polls, all(p.endswith("send_message()") or p.endswith("recv_message()") for p in polls)


def run(ctx):
    funcs = ctx.mir("pallas-network")
    spec = json.load(open(SPEC))
    queries, problems, skipped, done = [], [], [], []
    for proto, sp in spec.items():
        if proto.startswith("_"):
            continue
        for role in ("client", "server"):
            ag = Agent(funcs, proto, sp, role, ctx)
            if not ag.st_names or any(v is None for v in ag.guards.values()):
                if not (proto == "txmonitor" and role == "server"):
                    problems.append(f"{proto}/{role}: agent not found")
                continue
            for name, f in methods(funcs, ag.mod, role):
                polls, prim = awaits_only_primitives(f)
                if name in ("send_message", "recv_message"):
                    kind = "lemma"
                elif not polls or not prim:
                    skipped.append(f"{proto}/{role}::{name}")
                    continue
                else:
                    kind = "method"
                sd = z3.BitVec("sd", 64)
                dom = [z3.ULT(sd, len(ag.st_names))]
                ex = sym.Executor(funcs, models=(ag.models() if kind == "method" else models.STANDARD), inline=lambda c, fn: fn.name.endswith("::state") or fn.name.endswith("::has_agency"),
                                  max_visits=3, max_paths=3000, variant_index=ctx.variant_index(funcs))
                st = sym.VAdt("State", sd, {}, uid="st0")
                objs = {"H:self": sym.VAdt("Agent", None, {(None, "0"): st}, uid="self"),
                        "H:co": sym.VAdt("Coroutine", z3.BitVecVal(0, 64), {(None, "0"): sym.VRef("H:self")}, uid="co")}
                pin = sym.VAdt("Pin", None, {(None, "0"): sym.VRef("H:co")}, uid="pin")
                try:
                    paths = ex.run(f, [pin, sym.VUnknown("cx")], objs=objs)
                except sym.Stop as e:
                    problems.append(f"{proto}/{role}::{name}: {e}")
                    continue
                ctx.encoded |= ex.encoded
                nq = 0
                aborted = [p for p in paths if p.outcome[0] == "abort"]
                if aborted:
                    skipped.append(f"{proto}/{role}::{name} (construct not encodable: {aborted[0].outcome[1][:60]})")
                    continue
                for i, p in enumerate(paths):
                    if p.outcome[0] in ("panic", "limit"):
                        continue
                    r = p.ret
                    if not isinstance(r, sym.VAdt) or r.discr is None:
                        problems.append(f"{proto}/{role}::{name}: path {i} returns {r!r}")
                        continue
                    if z3.is_true(z3.simplify(r.discr == 1)):
                        continue  # Pending
                    res = r.fields.get(("Ready", "0"))
                    if isinstance(res, sym.VUnknown):
                        res = ex.as_adt(res, None, True)
                    try:
                        after = ex.as_adt(state_of(ex, p, sym.VRef("H:self")), None, True).discr
                    except sym.Stop as e:
                        problems.append(f"{proto}/{role}::{name}: path {i}: {e}")
                        continue
                    cond = dom + list(p.cond)
                    meta = {"proto": proto, "role": role, "method": name, "sd": sd, "after": after, "st": ag.st_names, "mg": ag.mg_names}
                    exch = [e for e in p.events if e[0] == "exchange"]
                    if kind == "lemma":
                        queries.append(smt.Query(f"c23s_{proto}_{role}_{name}_path{i}_keeps_state", cond + [after != sd], meta=dict(meta, kind="lemma")))
                        nq += 1
                        continue
                    if not isinstance(res, sym.VAdt) or res.discr is None:
                        problems.append(f"{proto}/{role}::{name}: path {i}: result {res!r}")
                        continue
                    is_err = res.discr == 1
                    # Err => unchanged (unless the last exchange is a specification transition that the API reports as an error)
                    rep = [z3.And(e[2] == ag.st_idx[s], e[3] == ag.mg_idx[m], ag.next_ok(e[2], e[3], after))
                           for e in exch[-1:] for (s, m) in sp.get("error_reporting_transitions", []) if s in ag.st_idx and m in ag.mg_idx]
                    queries.append(smt.Query(f"c23s_{proto}_{role}_{name}_path{i}_err_keeps_state", cond + [is_err, after != sd, z3.Not(z3.Or(rep)) if rep else z3.BoolVal(True)], meta=dict(meta, kind="err", exch=[(e[2], e[3]) for e in exch])))
                    # Ok => chain of specification transitions
                    chain = []
                    cur_ok = []
                    for j, e in enumerate(exch):
                        nxt_state = exch[j + 1][2] if j + 1 < len(exch) else after
                        cur_ok.append(ag.next_ok(e[2], e[3], nxt_state))
                    if exch:
                        cur_ok.append(exch[0][2] == sd)
                    else:
                        cur_ok.append(after == sd)
                    queries.append(smt.Query(f"c23s_{proto}_{role}_{name}_path{i}_ok_follows_spec", cond + [z3.Not(is_err), z3.Not(z3.And(cur_ok))], meta=dict(meta, kind="ok", exch=[(e[2], e[3]) for e in exch])))
                    nq += 2
                if nq:
                    done.append(f"{proto}/{role}::{name}")
                    queries.append(smt.Query(f"c23s_{proto}_{role}_{name}_reachable_witness", dom, expect="sat", meta={"witness": True}))
                else:
                    skipped.append(f"{proto}/{role}::{name} (no finished Ready path)")
    OUTSIDE[:] = OUTSIDE[:3] + ["methods not decided on this run: " + ", ".join(sorted(skipped))]
    run.done = done
    if len(done) < 20:
        problems.append(f"only {len(done)} async methods could be encoded")
    return queries, problems, {"methods": len(done), "skipped": len(skipped)}


def explain(q):
    m, meta = q.model, q.meta
    ev = lambda e: m.eval(e, model_completion=True).as_long()
    s0, s1 = meta["st"].get(ev(meta["sd"]), "?"), meta["st"].get(ev(meta["after"]), "?")
    ex = [(meta["st"].get(ev(a), "?"), meta["mg"].get(ev(b), "?")) for a, b in meta.get("exch", [])]
    if meta["kind"] == "err":
        what = f"{meta['proto']} {meta['role']}::{meta['method']} returns an error but leaves the agent in state {s1} instead of {s0}"
    elif meta["kind"] == "lemma":
        what = f"{meta['proto']} {meta['role']}::{meta['method']} changes the agent state from {s0} to {s1}"
    else:
        what = f"{meta['proto']} {meta['role']}::{meta['method']} succeeds from state {s0} after exchanging {ex} but ends in state {s1}, which the specification does not prescribe"
    return {"what": what, "protocol": meta["proto"], "role": meta["role"], "method": meta["method"], "from": s0, "to": s1, "exchanged": ex, "kind": meta["kind"]}


def replay(ctx, q, ex):
    """native replay through the add-only hooks verif_with_state / AgentChannel::verif_with_inbound (real async method, real state)"""
    case = json.dumps({k: ex[k] for k in ("protocol", "role", "method", "from", "to", "exchanged", "kind")})
    ok, path = native.run_test("c23s", None, ctx.outdir, {"C23S_CASE": case})
    return bool(ok), path
