"""C17: fixed-point arithmetic and rounding of pallas_math::math_dashu::Decimal are exact.
MIR of the Decimal operators with dashu IBig as SMT integers (models_ibig); values are unbounded,
precision p is concrete per query family."""
import os, z3
import mir, sym, smt, models, models_ibig, native
from models_ibig import VBig, tdiv

PRECS = {"quick": [0, 1, 2, 34], "thorough": [0, 1, 2, 3, 9, 18, 34]}
BOUNDS = []
OUTSIDE = ["Display / from_str (string formatting and regex parsing are not encoded)", "exp, ln, pow, exp_cmp (C15/C16)",
           "mul/div at precisions other than 34 (the implementation scales by the fixed 10^34 constant; the property states 34 digits)"]
ASSUMPTIONS = ["dashu IBig operators behave as mathematical integers with truncating division (validated natively by replay/tests/dashu_model.rs)",
               "Decimal invariant on inputs: precision_multiplier == 10^precision"]


def dec(p, data):
    return sym.VAdt("Decimal", None, {(None, "0"): sym.VInt(z3.BitVecVal(p, 64)), (None, "1"): VBig(z3.IntVal(10 ** p)), (None, "2"): VBig(data)}, uid="dec")


def find(funcs, pred):
    return [f for n, f in funcs.items() if pred(n, f)]


def by_impl(funcs, trait_method, self_ty, nargs=None, arg_tys=None):
    """functions named `math_dashu::<impl at ..>::<method>` whose first argument type is self_ty"""
    out = []
    for n, f in funcs.items():
        if not (n.startswith("math_dashu::<impl at ") and n.endswith("::" + trait_method)):
            continue
        tys = [t for _, t in f.args]
        if not tys or tys[0] != self_ty:
            continue
        if arg_tys is not None and tys != arg_tys:
            continue
        out.append(f)
    return out


def result_data(ex, path, v):
    if isinstance(v, sym.VAdt):
        d = v.fields.get((None, "2"))
        if isinstance(d, VBig):
            return d.e, v
        if isinstance(d, sym.VUnknown):
            return z3.Int("big:" + d.uid), v
    raise sym.Stop(f"result is not a Decimal: {v!r}")


def run(ctx):
    funcs = ctx.mir("pallas-math")
    precs = PRECS[ctx.tier]
    BOUNDS[:] = [f"values: unbounded mathematical integers (no bound); precision p in {precs} (rounding, add/sub/neg/abs, comparison), p = 34 for mul/div"]
    allm = models_ibig.MODELS + models.STANDARD
    own = lambda callee, f: f.name.startswith("math_dashu::") or "::" not in f.name  # private free fns are printed without a path
    queries, problems = [], []
    x, y = z3.Int("x"), z3.Int("y")

    def execute(fn, args, objs):
        ex = sym.Executor(funcs, models=allm, inline=own, max_visits=3, variant_index=ctx.variant_index(funcs))
        paths = ex.run(fn, args, objs=objs)
        ctx.encoded |= ex.encoded
        bad = [u for u in ex.uninterpreted if "IBig" in u or "Decimal" in u or "LazyLock" in u]
        if bad:
            problems.append(f"{fn.name}: calls left uninterpreted: {sorted(bad)}")
        return ex, paths

    def per_path(name, fn, args, objs, prop, meta):
        ex, paths = execute(fn, args, objs)
        n = 0
        for i, p in enumerate(paths):
            if p.outcome[0] == "panic":
                queries.append(smt.Query(f"{name}_path{i}_no_panic", list(p.cond) + meta.get("pre", []), meta=dict(meta, kind="panic", what=p.outcome[1])))
                continue
            if p.outcome[0] != "return":
                problems.append(f"{name}: path {i}: {p.outcome}")
                continue
            try:
                formula = prop(ex, p)
            except sym.Stop as e:
                problems.append(f"{name}: path {i}: {e}")
                continue
            m2 = dict(meta)
            if "y" in meta:
                m2["model_constraints"] = [models_ibig.IMUL(meta["x"], meta["y"]) == meta["x"] * meta["y"]]
            queries.append(smt.Query(f"{name}_path{i}", list(p.cond) + meta.get("pre", []) + [z3.Not(formula)], meta=m2))
            n += 1
        if n == 0:
            problems.append(f"{name}: no returning path")

    def unary(method, prop_fn, ps):
        fs = by_impl(funcs, method, "&Decimal")
        if len(fs) != 1:
            problems.append(f"{method}: expected one impl on &Decimal, found {len(fs)}")
            return
        for p in ps:
            M = 10 ** p

            def prop(ex, path, M=M, p=p):
                r, v = result_data(ex, path, path.ret)
                mult = v.fields.get((None, "1"))
                prec = v.fields.get((None, "0"))
                ok_shape = z3.And(models_ibig.big(ex, path, mult) == M, prec.e == p)
                return z3.And(ok_shape, prop_fn(r, x, M))
            per_path(f"c17_{method}_p{p}", fs[0], [sym.VRef("H:a")], {"H:a": dec(p, x)}, prop, {"op": method, "p": p, "x": x})

    MOD = lambda r, M: (r % M == 0)
    unary("floor", lambda r, x, M: z3.And(MOD(r, M), r <= x, x < r + M), precs)
    unary("ceil", lambda r, x, M: z3.And(MOD(r, M), r - M < x, x <= r), precs)
    unary("trunc", lambda r, x, M: z3.And(MOD(r, M), z3.If(x >= 0, z3.And(0 <= r, r <= x, x - r < M), z3.And(x <= r, r <= 0, r - x < M))), precs)
    unary("round", lambda r, x, M: z3.And(MOD(r, M), 2 * (x - r) <= M, 2 * (r - x) <= M), precs)

    # neg / abs (by value and by reference), add / sub (value, reference, assign), all precisions
    for method, f1 in (("neg", lambda a: -a), ("abs", lambda a: z3.If(a >= 0, a, -a))):
        for self_ty in ("Decimal", "&Decimal"):
            fs = by_impl(funcs, method, self_ty)
            if len(fs) != 1:
                problems.append(f"{method} on {self_ty}: found {len(fs)}")
                continue
            for p in precs[:2] + [34]:
                def prop(ex, path, p=p, f1=f1):
                    r, v = result_data(ex, path, path.ret)
                    return z3.And(r == f1(x), models_ibig.big(ex, path, v.fields.get((None, "1"))) == 10 ** p)
                arg = dec(p, x) if self_ty == "Decimal" else sym.VRef("H:a")
                per_path(f"c17_{method}_{'ref' if self_ty[0] == '&' else 'val'}_p{p}", fs[0], [arg], {"H:a": dec(p, x)}, prop, {"op": method, "p": p, "x": x})

    def binary(method, expect, ps, pre=None, label=None):
        shapes = [("val", ["Decimal", "Decimal"]), ("ref", ["&Decimal", "&Decimal"])]
        for tag, tys in shapes:
            fs = by_impl(funcs, method, tys[0], arg_tys=tys)
            if len(fs) != 1:
                problems.append(f"{method} {tag}: found {len(fs)} impls with args {tys}")
                continue
            for p in ps:
                def prop(ex, path, p=p):
                    r, v = result_data(ex, path, path.ret)
                    return z3.And(expect(r, x, y, 10 ** p), models_ibig.big(ex, path, v.fields.get((None, "1"))) == 10 ** p)
                if tag == "val":
                    args, objs = [dec(p, x), dec(p, y)], {}
                else:
                    args, objs = [sym.VRef("H:a"), sym.VRef("H:b")], {"H:a": dec(p, x), "H:b": dec(p, y)}
                per_path(f"c17_{label or method}_{tag}_p{p}", fs[0], args, objs, prop, {"op": method, "p": p, "x": x, "y": y, "pre": pre or []})
        # assign forms: fn(&mut Decimal, Decimal) and fn(&mut &mut Decimal, &Decimal)
        am = method + "_assign"
        for tag, tys in (("assign", ["&mut Decimal", "Decimal"]), ("assign_ref", ["&mut &mut Decimal", "&Decimal"])):
            fs = by_impl(funcs, am, tys[0], arg_tys=tys)
            if len(fs) != 1:
                problems.append(f"{am} {tag}: found {len(fs)} impls with args {tys}")
                continue
            for p in ps:
                def prop(ex, path, p=p):
                    v = path.objs["H:a"]
                    r, v = result_data(ex, path, v)
                    return expect(r, x, y, 10 ** p)
                if tag == "assign":
                    args, objs = [sym.VRef("H:a"), dec(p, y)], {"H:a": dec(p, x)}
                else:
                    args, objs = [sym.VRef("H:pa"), sym.VRef("H:b")], {"H:a": dec(p, x), "H:b": dec(p, y), "H:pa": sym.VRef("H:a")}
                per_path(f"c17_{label or method}_{tag}_p{p}", fs[0], args, objs, prop, {"op": am, "p": p, "x": x, "y": y, "pre": pre or []})

    binary("add", lambda r, a, b, M: r == a + b, precs[:2] + [34])
    binary("sub", lambda r, a, b, M: r == a - b, precs[:2] + [34])
    # multiplication: floor of the exact product at 34 digits (x*y appears only as an atom)
    binary("mul", lambda r, a, b, M: z3.And(r * M <= models_ibig.IMUL(a, b), models_ibig.IMUL(a, b) < (r + 1) * M), [34])
    # division: truncation of the exact quotient at 34 digits, divisor != 0; decided per sign class of (x, y)
    # (stated in multiplication form: r = trunc(x*M/y)  <=>  |r|*|y| <= |x|*M < (|r|+1)*|y| with the sign of x/y)
    ab = lambda v: z3.If(v >= 0, v, -v)

    def div_prop(same):
        def f(r, a, b, M):
            rr = r if same else -r
            return z3.And(rr >= 0, rr * ab(b) <= ab(a) * M, ab(a) * M < (rr + 1) * ab(b))
        return f
    for sx, cx in (("xpos", x >= 0), ("xneg", x < 0)):
        for sy, cy in (("ypos", y > 0), ("yneg", y < 0)):
            binary("div", div_prop((sx == "xpos") == (sy == "ypos")), [34], pre=[cx, cy], label=f"div_{sx}_{sy}")

    # comparisons
    for method in ("partial_cmp", "eq"):
        fs = by_impl(funcs, method, "&Decimal")
        if len(fs) != 1:
            problems.append(f"{method}: found {len(fs)}")
            continue
        for p in precs[:2] + [34]:
            def prop(ex, path, method=method):
                r = path.ret
                if method == "eq":
                    return ex.as_bool(r).e == (x == y)
                o = r.fields[("Some", "0")]
                want = z3.If(x < y, z3.BitVecVal(-1, 64), z3.If(x == y, z3.BitVecVal(0, 64), z3.BitVecVal(1, 64)))
                return z3.And(r.discr == 1, o.discr == want)
            per_path(f"c17_{method}_p{p}", fs[0], [sym.VRef("H:a"), sym.VRef("H:b")], {"H:a": dec(p, x), "H:b": dec(p, y)}, prop, {"op": method, "p": p, "x": x, "y": y})
    return queries, problems, {}


def explain(q):
    m, meta = q.model, q.meta
    xv = m.eval(meta["x"], model_completion=True).as_long()
    yv = m.eval(meta["y"], model_completion=True).as_long() if "y" in meta else 0
    what = f"Decimal::{meta['op']} at precision {meta['p']} is not exact for data x={xv}" + (f", y={yv}" if "y" in meta else "")
    if meta.get("kind") == "panic":
        what = f"Decimal::{meta['op']} at precision {meta['p']} panics ({meta.get('what')}) for x={xv}, y={yv}"
    return {"what": what, "op": meta["op"], "p": meta["p"], "x": str(xv), "y": str(yv)}


def replay(ctx, q, ex):
    case = f"{ex['op']};{ex['p']};{ex['x']};{ex['y']}"
    ok, path = native.run_test("c17", None, ctx.outdir, {"C17_CASE": case})
    return bool(ok), path
