"""C31, the phase-2 validity rule itself: MIR of MultiEraTx::produces and MultiEraTx::produces_at with the getters
(is_valid, outputs, output_at, collateral_return) as pure opaque functions of the transaction:
  produces_at(i): valid -> output_at(i); invalid -> collateral_return() if i == outputs().len(), else None;
  produces():     valid -> outputs() enumerated from 0; invalid -> the collateral return (if any) at index outputs().len()."""
import copy, re, z3
import mir, sym, smt, models, native
from q_c30 import subrun, closure_fn, follow

BOUNDS = ["symbolic index, arbitrary transaction (getters opaque); loop-free bodies"]
OUTSIDE = ["what the getters themselves return (outputs / output_at / collateral_return / is_valid / inputs / collateral per era: Kani harnesses c31_* for part of them)",
           "inputs_sorted_set; HashSet itself (insert returns true exactly at the first occurrence: trusted)"]
ASSUMPTIONS = ["is_valid, outputs, output_at, collateral_return are pure functions of &self (they read the transaction only)",
               "Vec::into_iter().enumerate().collect() yields (0, v[0]), (1, v[1]), ..; Option::into_iter().map(f).collect() yields [f(x)] for Some(x) and [] for None"]
U = z3.DeclareSort("Val")


def t(v):
    if isinstance(v, sym.VUnknown):
        return z3.Const("v:" + v.uid, U)
    if isinstance(v, sym.VAdt) and v.uid and not v.fields:
        return z3.Const("v:" + v.uid, U)
    return z3.Const("v:!" + repr(v)[:60], U)


def m_pure(ex, path, frame, callee, argv, argty, dest_ty):
    name = callee.split("::")[-1]
    if name == "is_valid":
        return [(path, sym.VBool(z3.Bool("pure:is_valid")))]
    if name == "collateral_return":
        return [(path, sym.VAdt("Option", z3.BitVec("pure:collateral_return.#d", 64), {("Some", "0"): sym.VUnknown("pure:collateral_return.payload")}, uid="pure:collateral_return"))]
    if name == "output_at":
        i = z3.simplify(ex.as_int(argv[1], "usize").e)
        return [(path, sym.VUnknown(f"pure:output_at({i})", dest_ty))]
    if name == "outputs":
        return [(path, sym.VUnknown("pure:outputs", dest_ty))]
    return None


def m_len(ex, path, frame, callee, argv, argty, dest_ty):
    _, v = follow(ex, path, argv[0], 2)
    if isinstance(v, sym.VUnknown):
        return [(path, sym.VInt(z3.BitVec(f"len({v.uid})", 64)))]
    return None


def wrap(tag):
    def f(ex, path, frame, callee, argv, argty, dest_ty):
        return [(path, sym.VAdt(tag, None, {(None, str(i)): a for i, a in enumerate(argv)}, uid=ex.fresh_uid(path, tag)))]
    return f


def m_collect(ex, path, frame, callee, argv, argty, dest_ty):
    x = argv[0]
    if not isinstance(x, sym.VAdt):
        return None
    if x.ty == "enumerate":
        it = x.fields[(None, "0")]
        if isinstance(it, sym.VAdt) and it.ty == "vec_iter":
            return [(path, sym.VAdt("enumerated_vec", None, {(None, "0"): it.fields[(None, "0")]}, uid=ex.fresh_uid(path, "ev")))]
    if x.ty == "filter":
        return [(path, sym.VAdt("filtered_vec", None, {(None, "0"): x.fields[(None, "0")], (None, "1"): x.fields[(None, "1")]}, uid=ex.fresh_uid(path, "fv")))]
    if x.ty == "map":
        it, cl = x.fields[(None, "0")], x.fields[(None, "1")]
        if isinstance(it, sym.VAdt) and it.ty == "opt_iter":
            o = it.fields[(None, "0")]
            f = closure_fn(ex, str(cl.ty), frame) if isinstance(cl, sym.VAdt) else None
            if f is None or not isinstance(o, sym.VAdt):
                return None
            out = []
            for d in (0, 1):
                c = z3.simplify(o.discr == d)
                if z3.is_false(c) or not ex.feasible(path, c):
                    continue
                p2 = path.clone()
                if not z3.is_true(c):
                    p2.cond.append(c)
                if d == 0:
                    out.append((p2, sym.VAdt("vec0", None, {}, uid=ex.fresh_uid(p2, "v0"))))
                else:
                    p2.objs["H:cl"] = cl
                    for p3, rv in subrun(ex, p2, f, [sym.VRef("H:cl"), copy.deepcopy(o.fields[("Some", "0")])]):
                        out.append((p3, sym.VAdt("vec1", None, {(None, "0"): rv}, uid=ex.fresh_uid(p3, "v1"))))
            return out
    return None


def m_pure2(ex, path, frame, callee, argv, argty, dest_ty):
    name = callee.split("::")[-1]
    return [(path, sym.VUnknown("pure:" + name, dest_ty))]


def m_set_new(ex, path, frame, callee, argv, argty, dest_ty):
    return [(path, sym.VAdt("empty_hashset", None, {}, uid=ex.fresh_uid(path, "set")))]


def m_set_insert(ex, path, frame, callee, argv, argty, dest_ty):
    _, st = follow(ex, path, argv[0], 3)
    path.events.append(("set_insert", st.uid if isinstance(st, sym.VAdt) else repr(st), argv[1].uid if isinstance(argv[1], sym.VUnknown) else repr(argv[1])))
    return [(path, sym.VBool(z3.Bool("first_occurrence")))]


def m_output_ref(ex, path, frame, callee, argv, argty, dest_ty):
    _, x = follow(ex, path, argv[0], 2)
    return [(path, sym.VUnknown("output_ref(" + (x.uid if isinstance(x, sym.VUnknown) else "?") + ")", dest_ty))]


MODELS = [
    (r"^tx::<impl MultiEraTx<'_>>::(inputs|collateral)$", m_pure2),
    (r"^HashSet::<.*>::new$", m_set_new),
    (r"^HashSet::<.*>::insert$", m_set_insert),
    (r"^input::<impl MultiEraInput<'_>>::output_ref$", m_output_ref),
    (r"as Iterator>::filter::<.*>$", wrap("filter")),
    (r"^tx::<impl MultiEraTx<'_>>::(is_valid|outputs|output_at|collateral_return)$", m_pure),
    (r"^Vec::<.*>::len$", m_len),
    (r"^<Vec<.*> as IntoIterator>::into_iter$", wrap("vec_iter")),
    (r"^<(std::option::)?Option<.*> as IntoIterator>::into_iter$", wrap("opt_iter")),
    (r"as Iterator>::enumerate$", wrap("enumerate")),
    (r"as Iterator>::map::<.*>$", wrap("map")),
    (r"as Iterator>::collect::<Vec<.*>>$", m_collect),
] + models.STANDARD


def run(ctx):
    funcs = ctx.mir("pallas-traverse")
    queries, problems = [], []
    valid = z3.Bool("pure:is_valid")
    cr_d = z3.BitVec("pure:collateral_return.#d", 64)
    nout = z3.BitVec("len(pure:outputs)", 64)
    idx = z3.BitVec("idx", 64)

    def fn(name):
        c = [f for n, f in funcs.items() if n.startswith("tx::<impl at ") and n.endswith("::" + name)]
        return c[0] if len(c) == 1 else None

    # ---- produces_at
    f = fn("produces_at")
    if f is None:
        problems.append("produces_at not found")
    else:
        ex = sym.Executor(funcs, models=MODELS, inline=lambda c, g: False, max_visits=2, variant_index=ctx.variant_index(funcs))
        paths = ex.run(f, [sym.VRef("H:tx"), sym.VInt(idx)], objs={"H:tx": sym.VUnknown("tx")})
        ctx.encoded |= ex.encoded
        if [u for u in ex.uninterpreted if "drop" not in u]:
            problems.append(f"produces_at: uninterpreted {sorted(ex.uninterpreted)}")
        n = 0
        for i, p in enumerate(paths):
            if p.outcome[0] != "return":
                continue
            r, cond = p.ret, list(p.cond)
            n += 1
            # expected value per case
            exp_valid = z3.Const(f"v:pure:output_at({z3.simplify(idx)})", U)
            def as_term(r):
                if isinstance(r, sym.VAdt) and r.discr is not None and z3.is_bv_value(z3.simplify(r.discr)) and z3.simplify(r.discr).as_long() == 0 and not r.fields:
                    return z3.Const("v:None", U)
                if isinstance(r, sym.VAdt) and r.uid == "pure:collateral_return":
                    return z3.Const("v:pure:collateral_return", U)
                return t(r)
            rt = as_term(r)
            meta = {"fn": "produces_at", "idx": idx, "valid": valid, "nout": nout}
            queries.append(smt.Query(f"c31_produces_at_path{i}_valid_is_output_at", cond + [valid, rt != exp_valid], meta=dict(meta, what="valid transaction: produces_at(i) is not output_at(i)")))
            queries.append(smt.Query(f"c31_produces_at_path{i}_invalid_at_n_is_collateral_return", cond + [z3.Not(valid), idx == nout, rt != z3.Const("v:pure:collateral_return", U)], meta=dict(meta, what="invalid transaction: produces_at(outputs.len()) is not the collateral return")))
            queries.append(smt.Query(f"c31_produces_at_path{i}_invalid_elsewhere_is_none", cond + [z3.Not(valid), idx != nout, rt != z3.Const("v:None", U)], meta=dict(meta, what="invalid transaction: produces_at(i) for i != outputs.len() is not None")))
        if n < 3:
            problems.append(f"produces_at: only {n} returning paths")
    # ---- produces
    f = fn("produces")
    if f is None:
        problems.append("produces not found")
    else:
        ex = sym.Executor(funcs, models=MODELS, inline=lambda c, g: False, max_visits=2, variant_index=ctx.variant_index(funcs))
        paths = ex.run(f, [sym.VRef("H:tx")], objs={"H:tx": sym.VUnknown("tx")})
        ctx.encoded |= ex.encoded
        if [u for u in ex.uninterpreted if "drop" not in u]:
            problems.append(f"produces: uninterpreted {sorted(ex.uninterpreted)}")
        n = 0
        for i, p in enumerate(paths):
            if p.outcome[0] != "return":
                continue
            r, cond = p.ret, list(p.cond)
            n += 1
            meta = {"fn": "produces", "idx": idx, "valid": valid, "nout": nout}
            kind = r.ty if isinstance(r, sym.VAdt) else "?"
            is_enum = z3.BoolVal(kind == "enumerated_vec" and isinstance(r.fields.get((None, "0")), sym.VUnknown) and r.fields[(None, "0")].uid == "pure:outputs")
            queries.append(smt.Query(f"c31_produces_path{i}_valid_is_outputs_enumerated", cond + [valid, z3.Not(is_enum)], meta=dict(meta, what="valid transaction: produces() is not outputs() enumerated from 0")))
            if kind == "vec1":
                el = r.fields[(None, "0")]
                i0, o0 = el.fields.get((None, "0")), el.fields.get((None, "1"))
                good = z3.And(cr_d == 1, ex.as_int(i0, "usize").e == nout, t(o0) == z3.Const("v:pure:collateral_return.payload", U))
            elif kind == "vec0":
                good = cr_d == 0
            else:
                good = z3.BoolVal(False)
            queries.append(smt.Query(f"c31_produces_path{i}_invalid_is_collateral_return_at_n", cond + [z3.Not(valid), z3.Not(good)], meta=dict(meta, what="invalid transaction: produces() is not exactly the collateral return (if any) at index outputs.len()")))
        if n < 3:
            problems.append(f"produces: only {n} returning paths")
    # ---- consumes: inputs (valid) / collateral (invalid), each output reference kept at its first occurrence only
    f = fn("consumes")
    if f is None:
        problems.append("consumes not found")
    else:
        ex = sym.Executor(funcs, models=MODELS, inline=lambda c, g: False, max_visits=2, variant_index=ctx.variant_index(funcs))
        paths = ex.run(f, [sym.VRef("H:tx")], objs={"H:tx": sym.VUnknown("tx")})
        ctx.encoded |= ex.encoded
        if [u for u in ex.uninterpreted if "drop" not in u]:
            problems.append(f"consumes: uninterpreted {sorted(ex.uninterpreted)}")
        n = 0
        for i, p in enumerate(paths):
            if p.outcome[0] != "return":
                continue
            n += 1
            r, cond = p.ret, list(p.cond)
            meta = {"fn": "consumes", "idx": idx, "valid": valid, "nout": nout}
            shape = isinstance(r, sym.VAdt) and r.ty == "filtered_vec"
            src = cl = None
            if shape:
                it = r.fields[(None, "0")]
                src = it.fields.get((None, "0")) if isinstance(it, sym.VAdt) and it.ty == "vec_iter" else None
                cl = r.fields[(None, "1")]
            src_uid = src.uid if isinstance(src, sym.VUnknown) else "?"
            queries.append(smt.Query(f"c31_consumes_path{i}_valid_filters_inputs", cond + [valid, z3.BoolVal(not (shape and src_uid == "pure:inputs"))], meta=dict(meta, what="valid transaction: consumes() is not a filter over inputs()")))
            queries.append(smt.Query(f"c31_consumes_path{i}_invalid_filters_collateral", cond + [z3.Not(valid), z3.BoolVal(not (shape and src_uid == "pure:collateral"))], meta=dict(meta, what="invalid transaction: consumes() is not a filter over collateral()")))
            # the filter predicate: first occurrence of the element's output reference in a set that starts empty
            okp = False
            if shape and isinstance(cl, sym.VAdt):
                envset = cl.fields.get((None, "0"))
                _, st = follow(ex, p, envset, 3) if isinstance(envset, sym.VRef) else (None, envset)
                cf = closure_fn(ex, str(cl.ty), {"func": f})
                if cf is not None and isinstance(st, sym.VAdt) and st.ty == "empty_hashset":
                    p.objs["H:cl"] = cl
                    p.objs["H:x"] = sym.VUnknown("elem")
                    res = subrun(ex, p, cf, [sym.VRef("H:cl"), sym.VRef("H:x")])
                    okp = len(res) == 1 and isinstance(res[0][1], sym.VBool) and str(res[0][1].e) == "first_occurrence" and \
                        any(e[0] == "set_insert" and e[1] == st.uid and e[2] == "output_ref(elem)" for e in res[0][0].events)
            queries.append(smt.Query(f"c31_consumes_path{i}_keeps_first_occurrence_of_each_output_ref", cond + [z3.BoolVal(not okp)], meta=dict(meta, what="consumes(): the filter is not `first occurrence of the element's output reference` over a fresh set")))
        if n < 2:
            problems.append(f"consumes: only {n} returning paths")
    queries.append(smt.Query("c31_reachable_witness", [z3.Not(valid), idx == nout], expect="sat", meta={"witness": True}))
    return queries, problems, {}


def explain(q):
    m = q.meta
    mo = q.model
    return {"what": f"MultiEraTx::{m['fn']}: {m['what']}", "fn": m["fn"], "valid": z3.is_true(mo.eval(m["valid"], model_completion=True)),
            "index": mo.eval(m["idx"], model_completion=True).as_long(), "outputs_len": mo.eval(m["nout"], model_completion=True).as_long()}


def replay(ctx, q, ex):
    """every Alonzo/Babbage/Conway transaction of test_data under both validity flags, through the public API"""
    ok, path = native.run_test("c31", None, ctx.outdir)
    return bool(ok), path
