"""C12 (period routing of the summed KES tree): symbolic execution of the MIR of every depth's
Sum{d}KesSig::verify, Sum{d}CompactKesSig::recompute, Sum{d}Kes::update_slice, Sum{d}CompactKes::update_slice and
Sum{d}CompactKes::sign_from_slice (d = 1..7; pallas-crypto built with the `kes` feature) with the period a full-range
u32 and the calls into the depth d-1 layer uninterpreted.  On every path:
  * the period handed to the lower layer is `period` when period < 2^(d-1) and `period - 2^(d-1)` otherwise
    (update_slice: the comparison is on period + 1, so the left branch is period + 1 < 2^(d-1));
  * verify hands the lower layer the left public key in the left half and the right one in the right half;
  * recompute hashes (recomputed, carried key) in the left half and (carried key, recomputed) in the right half;
  * the subtraction never underflows."""
import re, z3
import mir, sym, smt, models, native

BOUNDS = ["depths 1..7 (all that the crate instantiates)", "period: full u32 range", "one layer per query: the depth d-1 functions are uninterpreted (composition over layers is by induction on d, by reading)"]
OUTSIDE = ["Ed25519 and Blake2b themselves (uninterpreted)", "keygen, the seed handling, zeroisation of old keys", "which 32-byte slice of the key buffer each layer reads (slice index arithmetic)"]
ASSUMPTIONS = ["u32::pow(2, k) = 2^k for the concrete k of each layer", "<u32 as Sub<&u32>>::sub(a, &b) = a - b (panics on underflow under overflow checks)"]


def pow_model(ex, path, frame, callee, argv, argty, dest_ty):
    a, b = argv[0], argv[1]
    if isinstance(a, sym.VInt) and isinstance(b, sym.VInt):
        av, bv = z3.simplify(a.e), z3.simplify(b.e)
        if z3.is_bv_value(av) and z3.is_bv_value(bv):
            return [(path, sym.VInt(z3.BitVecVal(av.as_long() ** bv.as_long(), 32)))]
    return None


def sub_ref_model(ex, path, frame, callee, argv, argty, dest_ty):
    a, b = argv[0], argv[1]
    k = 0
    while isinstance(b, sym.VRef) and k < 3:
        b = ex.read_loc(path, b.obj, b.proj)
        k += 1
    if not (isinstance(a, sym.VInt) and isinstance(b, sym.VInt)):
        return None
    out = []
    under = z3.ULT(a.e, b.e)
    if ex.feasible(path, under):
        p2 = path.clone()
        p2.cond.append(under)
        out.append((p2, ("panic", "attempt to subtract with overflow (<u32 as Sub<&u32>>::sub)")))
    ok = z3.Not(under)
    if ex.feasible(path, ok):
        p3 = path.clone()
        p3.cond.append(ok)
        out.append((p3, sym.VInt(a.e - b.e)))
    return out


def cmp_model(ex, path, frame, callee, argv, argty, dest_ty):
    vs = []
    for a in argv[:2]:
        k = 0
        while isinstance(a, sym.VRef) and k < 3:
            a = ex.read_loc(path, a.obj, a.proj)
            k += 1
        vs.append(a)
    if len(vs) == 2 and all(isinstance(v, sym.VInt) for v in vs):
        a, b = vs[0].e, vs[1].e
        d = z3.If(z3.ULT(a, b), z3.BitVecVal(2 ** 64 - 1, 64), z3.If(a == b, z3.BitVecVal(0, 64), z3.BitVecVal(1, 64)))
        return [(path, sym.VAdt("Ordering", d, {}, uid=ex.fresh_uid(path, "ord")))]
    return None


MODELS = [(r"core::num::<impl u32>::pow$", pow_model), (r"<u32 as Sub<&u32>>::sub$", sub_ref_model),
          (r"<u32 as Ord>::cmp$|<u32 as std::cmp::Ord>::cmp$|Ord>::cmp$", cmp_model)] + models.STANDARD

# (function name, type name pattern, index of the period argument, index of the period argument of the inner call,
#  comparison is on period + 1)
TARGETS = [
    ("verify", "Sum{d}KesSig", 1, "verify", 1, False),
    ("recompute", "Sum{d}CompactKesSig", 1, "recompute", 1, False),
    ("sign_from_slice", None, 2, "sign_from_slice", 2, False),   # compact variant only (3 arguments)
    ("update_slice", None, 1, "update_slice", 1, True),
]


def by_name(funcs, fname):
    out = {}
    for n, f in funcs.items():
        if "summed_kes::" in n and "@" in n and n.split("@")[0].endswith("::" + fname):
            out.setdefault(id(f), (n, f))
    return list(out.values())


def run(ctx):
    funcs = ctx.mir("pallas-crypto", "kes")
    queries, problems = [], []
    period = z3.BitVec("period", 32)
    inline = lambda c, f: bool(re.search(r"Depth::(half|total)$", mir.strip_generics(c)))
    done = 0
    # all macro instances: the MIR dump lists them under one impl name, so walk the dump's functions directly
    allf = {}
    for n, f in funcs.items():
        allf.setdefault(id(f), f)
    inst = {}
    for f in funcs.all:
        inst.setdefault(f.name.split("::")[-1], []).append(f)
    for fname, _, pidx, iname, ipidx, plus1 in TARGETS:
        cands = [f for f in inst.get(fname, []) if "summed_kes::" in f.name and len(f.args) > pidx and f.args[pidx][1] == "u32"]
        if len(cands) < 6:
            problems.append(f"{fname}: only {len(cands)} depth instances with a u32 period found in the MIR dump")
        for f in cands:
            ex = sym.Executor(funcs, models=MODELS, inline=inline, max_visits=2, max_paths=4000, variant_index=ctx.variant_index(funcs))
            args = []
            objs = {}
            for i, (an, at) in enumerate(f.args):
                if i == pidx:
                    args.append(sym.VInt(period))
                elif at.startswith("&"):
                    objs[f"H:a{i}"] = sym.VUnknown(f"a{i}")
                    args.append(sym.VRef(f"H:a{i}"))
                else:
                    args.append(sym.VUnknown(f"a{i}"))
            try:
                paths = ex.run(f, args, objs=objs)
            except sym.Stop as e:
                problems.append(f"{f.name}: {e}")
                continue
            ctx.encoded |= ex.encoded
            tag = f"{fname}_{f.args[0][1].strip('&').replace(' ', '').replace('mut', '')[:24]}_{done}"
            done += 1
            # the layer's depth d: one more than the depth of the layer it calls into (Sum{d-1}...::<inner fn>)
            depths = set()
            for p in paths:
                for e in p.events:
                    if e[0] == "call" and e[1].endswith("::" + iname):
                        m = re.search(r"Sum(\d)(?:Compact)?Kes", e[1])
                        if m:
                            depths.add(int(m.group(1)) + 1)
            m0 = re.search(r"Sum(\d)(?:Compact)?Kes", f.args[0][1])
            if m0:
                depths.add(int(m0.group(1)))
            halves = {2 ** (d - 1) for d in depths}
            n_inner = 0
            for i, p in enumerate(paths):
                if p.outcome[0] == "panic":
                    if "overflow" in p.outcome[1] and "subtract" in p.outcome[1]:
                        queries.append(smt.Query(f"kes_{tag}_path{i}_no_period_underflow", list(p.cond), meta={"fn": f.name, "what": p.outcome[1], "period": period}))
                    continue
                if p.outcome[0] != "return":
                    continue
                for e in p.events:
                    if e[0] != "call" or not e[1].endswith("::" + iname) or len(e[2]) <= ipidx:
                        continue
                    a = e[2][ipidx]
                    if not isinstance(a, sym.VInt):
                        problems.append(f"{f.name}: inner period argument is not an integer: {a}")
                        continue
                    n_inner += 1
                    # half is determined by the depth: find it as the unique power of two h with (cond => a == route_h)
                    # stated directly: exists h in candidates such that the routing formula holds on this path
                    alts = []
                    for h in sorted(halves):
                        hv = z3.BitVecVal(h, 32)
                        key = period + 1 if plus1 else period
                        alts.append(a.e == z3.If(z3.ULT(key, hv), period, period - hv))
                    meta = {"fn": f.name, "period": period, "what": "the period handed to the lower layer is not period mod 2^(d-1) routing", "halves": sorted(halves)}
                    # all paths of one function must agree on one h: checked per h below
                    queries.append(smt.Query(f"kes_{tag}_path{i}_inner_period_routed", list(p.cond) + [z3.Not(z3.Or(alts)) if alts else z3.BoolVal(True)], meta=meta))
                    # key routing (verify): left half -> field 1 (lhs_pk), right half -> field 2 (rhs_pk)
                    if fname == "verify" and len(e[2]) > 2 and isinstance(e[2][2], sym.VRef):
                        fld = [pr[1] for pr in e[2][2].proj if pr[0] == "field"]
                        want_left = fld[-1:] == ["1"]
                        want_right = fld[-1:] == ["2"]
                        if not (want_left or want_right):
                            problems.append(f"{f.name}: verify hands over an unexpected key: {e[2][2]}")
                        else:
                            for h in sorted(halves):
                                pass
                            side = z3.Or([z3.ULT(period, z3.BitVecVal(h, 32)) for h in halves]) if want_left else z3.Or([z3.UGE(period, z3.BitVecVal(h, 32)) for h in halves])
                            queries.append(smt.Query(f"kes_{tag}_path{i}_key_matches_half", list(p.cond) + [z3.Not(side)], meta=dict(meta, what="verify hands the lower layer the public key of the other half")))
                    # hash order (recompute)
                if fname == "recompute":
                    for e in p.events:
                        if e[0] == "call" and e[1].endswith("PublicKey::hash_pair") and len(e[2]) == 2:
                            carried = [isinstance(x, sym.VRef) and str(x.obj).startswith("H:a0") for x in e[2]]
                            if carried == [False, True]:
                                side = z3.Or([z3.ULT(period, z3.BitVecVal(h, 32)) for h in halves])
                            elif carried == [True, False]:
                                side = z3.Or([z3.UGE(period, z3.BitVecVal(h, 32)) for h in halves])
                            else:
                                problems.append(f"{f.name}: hash_pair arguments not recognised: {e[2]}")
                                continue
                            queries.append(smt.Query(f"kes_{tag}_path{i}_hash_order_matches_half", list(p.cond) + [z3.Not(side)], meta={"fn": f.name, "period": period, "what": "recompute hashes the pair in the other half's order", "halves": sorted(halves)}))
            if len(halves) != 1:
                problems.append(f"{f.name}: the layer's depth could not be read off the callee / receiver types: {sorted(depths)}")
            if n_inner == 0:
                problems.append(f"{f.name}: no call into the lower layer found")
    queries.append(smt.Query("kes_reachable_witness", [z3.ULT(period, 128)], expect="sat", meta={"witness": True}))
    return queries, problems, {}


def explain(q):
    m, mo = q.meta, q.model
    per = mo.eval(m["period"], model_completion=True).as_long()
    return {"what": f"{m['fn']}: {m['what']} (period={per})", "fn": m["fn"], "period": per}


def replay(ctx, q, ex):
    ok, path = native.run_test("kes", None, ctx.outdir, {"KES_PERIOD": str(ex["period"])})
    return bool(ok), path
