"""Audited table of modelled calls (everything else is uninterpreted or inlined).
Each model: fn(ex, path, frame, callee, argv, argty, dest_ty) -> [(path, value)] or None."""
import copy, z3
import sym


def clone_model(ex, path, frame, callee, argv, argty, dest_ty):
    # <T as Clone>::clone(&x) -> a value equal to x
    a = argv[0]
    if isinstance(a, sym.VRef):
        v = ex.read_loc(path, a.obj, a.proj)
        return [(path, copy.deepcopy(v))]
    return None


def try_branch(ex, path, frame, callee, argv, argty, dest_ty):
    # <Result<T,E> as Try>::branch(r): Ok(v) -> Continue(v); Err(e) -> Break(Err(e))
    r = argv[0]
    if isinstance(r, sym.VUnknown):
        r = ex.as_adt(r, None, True)
    if not isinstance(r, sym.VAdt) or r.discr is None:
        return None
    out = []
    for d, name in ((0, "Ok"), (1, "Err")):
        c = z3.simplify(r.discr == d)
        if z3.is_false(c) or not ex.feasible(path, c):
            continue
        p2 = path.clone()
        if not z3.is_true(c):
            p2.cond.append(c)
        if d == 0:
            inner = r.fields.get(("Ok", "0"), sym.VUnknown((r.uid or "r") + ".Ok.0"))
            v = sym.VAdt("ControlFlow", z3.BitVecVal(0, 64), {("Continue", "0"): copy.deepcopy(inner)}, uid=ex.fresh_uid(p2, "cf"))
        else:
            inner = r.fields.get(("Err", "0"), sym.VUnknown((r.uid or "r") + ".Err.0"))
            res = sym.VAdt("Result", z3.BitVecVal(1, 64), {("Err", "0"): copy.deepcopy(inner)}, uid=ex.fresh_uid(p2, "resid"))
            v = sym.VAdt("ControlFlow", z3.BitVecVal(1, 64), {("Break", "0"): res}, uid=ex.fresh_uid(p2, "cf"))
        out.append((p2, v))
    return out


def from_residual(ex, path, frame, callee, argv, argty, dest_ty):
    # <Result<T,F> as FromResidual<Result<Infallible,E>>>::from_residual(Err(e)) -> Err(From::from(e)); e kept as is
    r = argv[0]
    if isinstance(r, sym.VUnknown):
        r = ex.as_adt(r, None, True)
    inner = r.fields.get(("Err", "0"), sym.VUnknown((r.uid or "resid") + ".Err.0")) if isinstance(r, sym.VAdt) else sym.VUnknown(ex.fresh_uid(path, "e"))
    return [(path, sym.VAdt("Result", z3.BitVecVal(1, 64), {("Err", "0"): copy.deepcopy(inner)}, uid=ex.fresh_uid(path, "fromres")))]


def enum_eq(neg):
    """<E as PartialEq>::eq / ne when one side is a unit variant (no payload): equality of discriminants.
    (If the discriminants are equal both sides are that payload-free variant, hence equal.)"""
    def f(ex, path, frame, callee, argv, argty, dest_ty):
        vs = []
        for a in argv[:2]:
            k = 0
            while isinstance(a, sym.VRef) and k < 4:
                a = ex.read_loc(path, a.obj, a.proj)
                k += 1
            vs.append(a)
        if len(vs) != 2:
            return None
        unit = [v for v in vs if isinstance(v, sym.VAdt) and v.discr is not None and not v.fields and z3.is_bv_value(z3.simplify(v.discr))]
        if not unit:
            return None
        other = vs[1] if vs[0] is unit[0] else vs[0]
        if isinstance(other, sym.VUnknown):
            other = ex.as_adt(other, None, True)
        if not isinstance(other, sym.VAdt) or other.discr is None:
            return None
        e = other.discr == unit[0].discr
        return [(path, sym.VBool(z3.Not(e) if neg else e))]
    return f


def mem_replace(ex, path, frame, callee, argv, argty, dest_ty):
    # core::mem::replace(dest: &mut T, src: T) -> T
    d = argv[0]
    if not isinstance(d, sym.VRef):
        return None
    old = copy.deepcopy(ex.read_loc(path, d.obj, d.proj))
    ex.write_loc(path, d.obj, d.proj, argv[1])
    return [(path, old)]


def mem_swap(ex, path, frame, callee, argv, argty, dest_ty):
    a, b = argv[0], argv[1]
    if not (isinstance(a, sym.VRef) and isinstance(b, sym.VRef)):
        return None
    va, vb = copy.deepcopy(ex.read_loc(path, a.obj, a.proj)), copy.deepcopy(ex.read_loc(path, b.obj, b.proj))
    ex.write_loc(path, a.obj, a.proj, vb)
    ex.write_loc(path, b.obj, b.proj, va)
    return [(path, sym.VUnit())]


def panic_model(ex, path, frame, callee, argv, argty, dest_ty):
    return [(path, ("panic", mirname(callee)))]


def mirname(c):
    return c.split("(")[0][-60:]


STANDARD = [
    (r"^(std|core)::mem::replace::<.*>$", mem_replace),
    (r"^(std|core)::mem::swap::<.*>$", mem_swap),
    (r"^<.* as PartialEq>::eq$", enum_eq(False)),
    (r"^<.* as PartialEq>::ne$", enum_eq(True)),
    (r"^<.* as Clone>::clone$", clone_model),
    (r"^<.* as Try>::branch$", try_branch),
    (r"^<.* as FromResidual<.*>>::from_residual$", from_residual),
    (r"core::panicking::|std::rt::begin_panic|unwrap_failed|expect_failed|panic_fmt|panic_cold", panic_model),
]
