"""C38 (collateral amount and annotation rule) and C33 (no arithmetic panic in it): MIR of
phase1::{babbage,conway}::check_collaterals_assets with the UTxO lookups, value additions and the lovelace
balance (lovelace_diff_or_fail) uninterpreted: on every path that returns Ok the paid collateral p satisfies
100 * p >= fee * collateral_percentage (exact, 128-bit) and equals the annotated total collateral when one is
present; no path panics on an arithmetic overflow."""
import re, z3
import mir, sym, smt, models, native

BOUNDS = ["one collateral input (loop unrolled once; the balance is an opaque u64, so the number of inputs does not matter to the rule)", "fee, percentage, balance: full u64 / u32 range"]
OUTSIDE = ["how the collateral balance is computed from the UTxO set (HashMap lookups, multi-asset value arithmetic: uninterpreted)", "Alonzo (checks each collateral input on its own; different function shape)"]
ASSUMPTIONS = ["lovelace_diff_or_fail returns Ok(balance) or Err; the balance is whatever it returns"]


def field_index(path, struct, field):
    src = open(path).read()
    m = re.search(r"pub struct " + struct + r"\b[^{]*\{(.*?)\n\}", src, re.S)
    if not m:
        return None
    names = re.findall(r"^\s*pub (\w+):", m.group(1), re.M)
    return names.index(field) if field in names else None


def run(ctx):
    funcs = ctx.mir("pallas-validate")
    queries, problems = [], []
    for era, body_src, pp_struct in (("babbage", "/repo/pallas-primitives/src/babbage/model.rs", "BabbageProtParams"), ("conway", "/repo/pallas-primitives/src/conway/model.rs", "ConwayProtParams")):
        fn = funcs.get(f"phase1::{era}::check_collaterals_assets")
        fee_i = field_index(body_src, "TransactionBody", "fee")
        tot_i = field_index(body_src, "TransactionBody", "total_collateral")
        pct_i = field_index("/repo/pallas-validate/src/utils/environment.rs", pp_struct, "collateral_percentage")
        if fn is None or None in (fee_i, tot_i, pct_i):
            problems.append(f"{era}: function or field indices not found ({fn is not None}, fee={fee_i}, total={tot_i}, pct={pct_i})")
            continue
        ex = sym.Executor(funcs, models=models.STANDARD, inline=lambda c, f: False, max_visits=2, max_paths=20000, variant_index=ctx.variant_index(funcs))
        fee = z3.BitVec("fee", 64)
        pct = z3.BitVec("collateral_percentage", 32)
        tot_d = z3.BitVec("total_collateral.#d", 64)
        tot_v = z3.BitVec("total_collateral.value", 64)
        body = sym.VAdt("TransactionBody", None, {(None, str(fee_i)): sym.VInt(fee),
                                                 (None, str(tot_i)): sym.VAdt("Option", tot_d, {("Some", "0"): sym.VInt(tot_v)}, uid="tot")}, uid="body")
        pp = sym.VAdt(pp_struct, None, {(None, str(pct_i)): sym.VInt(pct)}, uid="pp")
        objs = {"H:body": body, "H:pp": pp, "H:utxos": sym.VUnknown("utxos")}
        try:
            paths = ex.run(fn, [sym.VRef("H:body"), sym.VRef("H:utxos"), sym.VRef("H:pp")], objs=objs)
        except sym.Stop as e:
            problems.append(f"{era}: {e}")
            continue
        ctx.encoded |= ex.encoded
        dom = [z3.ULT(tot_d, 2)]
        n_ok = 0
        for i, p in enumerate(paths):
            cond = dom + list(p.cond)
            meta = {"era": era, "fee": fee, "pct": pct, "path": i}
            if p.outcome[0] == "panic":
                if "overflow" in p.outcome[1] or "divide" in p.outcome[1]:
                    paid = [z3.BitVec(e[3] + ".Ok.0", 64) for e in p.events if e[0] == "call" and e[1].endswith("lovelace_diff_or_fail")]
                    queries.append(smt.Query(f"coll_{era}_path{i}_no_arithmetic_panic", cond, meta=dict(meta, kind="panic", paid=paid[-1] if paid else None, what=p.outcome[1][:80])))
                continue
            if p.outcome[0] == "limit":
                continue  # more than one collateral input: outside the bound (the balance is opaque anyway)
            if p.outcome[0] != "return":
                problems.append(f"{era}: path {i}: {p.outcome}")
                continue
            r = p.ret
            if isinstance(r, sym.VUnknown):
                r = ex.as_adt(r, None, True)
            if not isinstance(r, sym.VAdt) or r.discr is None:
                continue
            if z3.is_false(z3.simplify(r.discr == 0)):
                continue
            calls = [e for e in p.events if e[0] == "call" and e[1].endswith("lovelace_diff_or_fail")]
            if not calls:
                # Ok without ever computing the balance: only allowed if this is not reachable with a collateral present
                queries.append(smt.Query(f"coll_{era}_path{i}_ok_without_balance", cond + [r.discr == 0], meta=dict(meta, kind="skip", paid=None, what="Ok is returned without computing the collateral balance")))
                continue
            n_ok += 1
            paid = z3.BitVec(calls[-1][3] + ".Ok.0", 64)
            # exact comparison in 128 bits (the terms the repaired code computes; a 64-bit implementation yields
            # overflow-panic paths, reported by the no_arithmetic_panic queries)
            w = lambda x: z3.ZeroExt(128 - x.size(), x)
            enough = z3.UGE(w(paid) * z3.BitVecVal(100, 128), w(fee) * w(pct))
            queries.append(smt.Query(f"coll_{era}_path{i}_ok_implies_minimum_collateral", cond + [r.discr == 0, z3.Not(enough)], meta=dict(meta, kind="min", paid=paid, what="accepted although 100 * collateral < fee * collateral_percentage")))
            ann = z3.Implies(tot_d == 1, tot_v == paid)
            queries.append(smt.Query(f"coll_{era}_path{i}_ok_implies_annotation_matches", cond + [r.discr == 0, z3.Not(ann)], meta=dict(meta, kind="ann", paid=paid, what="accepted although the annotated total collateral differs from the balance")))
        if n_ok == 0:
            problems.append(f"{era}: no accepting path found")
        queries.append(smt.Query(f"coll_{era}_reachable_witness", dom, expect="sat", meta={"witness": True}))
    return queries, problems, {}


def explain(q):
    m, mo = q.meta, q.model
    ev = lambda e: mo.eval(e, model_completion=True).as_long() if e is not None else None
    return {"what": f"{m['era']} check_collaterals_assets: {m['what']} (fee={ev(m['fee'])}, collateral_percentage={ev(m['pct'])}, balance={ev(m.get('paid'))})",
            "era": m["era"], "fee": ev(m["fee"]), "pct": ev(m["pct"]), "paid": ev(m.get("paid")), "kind": m["kind"]}


def replay(ctx, q, ex):
    import json
    ok, path = native.run_test("coll", None, ctx.outdir, {"COLL_CASE": json.dumps(ex)})
    return bool(ok), path
