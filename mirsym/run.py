#!/usr/bin/env python3-vt
"""mirsym runner: run.py <property> <queryset> <tier> <outdir>  -> JSON result on stdout (last line)"""
import sys, os, json, time, subprocess, importlib
HERE = os.path.dirname(os.path.abspath(__file__))
sys.path.insert(0, HERE)
import mir, sym, smt, z3

CACHE = os.path.join(HERE, "cache")
REPO = "/repo"


class Ctx:
    def __init__(self, tier, outdir):
        self.tier, self.outdir = tier, outdir
        self._mir = {}
        self._vidx = {}
        self.encoded = set()
        self.mir_s = 0.0

    def mir(self, crate, features=None):
        """MIR of /repo's current working tree (regenerated on every run)"""
        key = crate + ("+" + features if features else "")
        if key in self._mir:
            return self._mir[key]
        os.makedirs(CACHE, exist_ok=True)
        out = os.path.join(CACHE, key + ".mir")
        t0 = time.time()
        env = dict(os.environ, CARGO_NET_OFFLINE="true", CARGO_TARGET_DIR=os.path.join(CACHE, "target"))
        env.pop("RUSTFLAGS", None)
        # touch lib.rs so that cargo re-runs rustc (an up-to-date crate prints nothing)
        lib = os.path.join(REPO, crate, "src", "lib.rs")
        st = os.stat(lib)
        cmd = ["cargo", "+nightly", "rustc", "--offline", "-p", crate, "--lib"] + (["--features", features] if features else []) + ["--", "-Zunpretty=mir",
               "-C", "debug-assertions=off", "-C", "overflow-checks=on"]
        import fcntl
        with open(os.path.join(CACHE, ".lock"), "w") as lk:
            fcntl.flock(lk, fcntl.LOCK_EX)
            # force re-emission without changing the source: remove the crate's fingerprint
            fp = os.path.join(CACHE, "target", "debug", ".fingerprint")
            if os.path.isdir(fp):
                for d in os.listdir(fp):
                    if d.startswith(crate + "-"):
                        import shutil
                        shutil.rmtree(os.path.join(fp, d), ignore_errors=True)
            with open(out + ".tmp", "w") as fo, open(out + ".err", "w") as fe:
                r = subprocess.run(cmd, cwd=REPO, env=env, stdout=fo, stderr=fe)
            if r.returncode != 0 or os.path.getsize(out + ".tmp") < 1000:
                raise RuntimeError(f"MIR dump of {crate} failed, see {out}.err")
            os.replace(out + ".tmp", out)
        self.mir_s += time.time() - t0
        self._mir[key] = mir.parse(out)
        return self._mir[key]

    def variant_index(self, funcs):
        cache = self._vidx

        def f(ty, name):
            ty = mir.strip_generics(ty or "")
            if ty not in cache:
                segs = ty.split("::")
                tab = None
                for k in (3, 2, 1):
                    if len(segs) >= k:
                        tab = mir.variant_names(funcs, "::".join(segs[-k:]))
                        if tab:
                            break
                cache[ty] = {v: k for k, v in (tab or {}).items()}
            return cache[ty].get(name)
        return f


def main():
    pid, qset, tier, outdir = sys.argv[1:5]
    os.makedirs(outdir, exist_ok=True)
    t0 = time.time()
    ctx = Ctx(tier, outdir)
    mod = importlib.import_module("q_" + qset)
    res = {"queries": 0, "nontrivial": 0, "solver_s": 0.0, "samples": [], "functions": [], "bounds": [],
           "violations": [], "inconclusive": [], "outside": [], "assumptions": []}
    try:
        queries, problems, info = mod.run(ctx)
    except Exception as e:  # translator gap: never a pass
        import traceback
        traceback.print_exc()
        res["inconclusive"].append(f"mirsym failed: {type(e).__name__}: {e}")
        print(json.dumps(res))
        return
    res["inconclusive"] += [f"mirsym: {p}" for p in problems]
    res["solver_s"] = round(smt.decide(queries), 3)
    witnesses_ok = set()
    for q in queries:
        res["queries"] += 1
        s = {"query": q.name, "verdict": q.verdict, "expect": q.expect, "solvers": getattr(q, "solver_verdicts", {})}
        if q.verdict == "inconclusive":
            res["inconclusive"].append(f"{q.name}: {q.detail}")
        elif q.expect == "sat":
            if q.verdict != "sat":
                res["inconclusive"].append(f"{q.name}: reachability witness unsatisfiable (vacuous)")
            else:
                witnesses_ok.add(q.name.replace("_witness", ""))
        elif q.verdict == "sat":
            ex = mod.explain(q)
            s["counterexample"] = ex
            v = {"query": q.name, "what": ex["what"], "cex": ex, "replayed": False}
            if hasattr(mod, "replay"):
                ok, path = mod.replay(ctx, q, ex)
                v["replayed"], v["replay_path"] = ok, path
            res["violations"].append(v)
        if len(res["samples"]) < 40 or "counterexample" in s:
            res["samples"].append(s)
    res["nontrivial"] = sum(1 for q in queries if q.expect == "unsat" and q.verdict == "unsat" and (q.name in witnesses_ok or not any(w.name == q.name + "_witness" for w in queries)))
    res["functions"] = sorted(ctx.encoded)[:200]
    res["bounds"] = getattr(mod, "BOUNDS", [])
    res["outside"] = getattr(mod, "OUTSIDE", [])
    res["assumptions"] = getattr(mod, "ASSUMPTIONS", [])
    res["mir_s"] = round(ctx.mir_s, 1)
    res["wall_s"] = round(time.time() - t0, 1)
    print(json.dumps(res, default=str))


if __name__ == "__main__":
    main()
