"""mirsym: abstract symbolic execution of rustc MIR (text dump) into z3 terms.

Integers are bit-vectors of their Rust width, enums are (discriminant, payload), every call is
uninterpreted (fresh result, `&mut` arguments havocked) unless it resolves to a body of the same
dump that the query allows to inline, or to an entry of the audited model table (models.py).
"""
import copy, re
import z3
from mir import split_top, strip_generics

INT_W = {"i8": 8, "i16": 16, "i32": 32, "i64": 64, "i128": 128, "isize": 64,
         "u8": 8, "u16": 16, "u32": 32, "u64": 64, "u128": 128, "usize": 64, "char": 32}
BUILTIN_VARIANTS = {
    "Result": {"Ok": 0, "Err": 1}, "Option": {"None": 0, "Some": 1},
    "ControlFlow": {"Continue": 0, "Break": 1}, "Poll": {"Ready": 0, "Pending": 1},
    "Ordering": {"Less": -1, "Equal": 0, "Greater": 1}, "Cow": {"Borrowed": 0, "Owned": 1},
    "Sign": {"Positive": 0, "Negative": 1},
}


class V:  # base of symbolic values
    pass


class VInt(V):
    def __init__(self, e, signed=False):
        self.e, self.signed = e, signed

    def __repr__(self):
        return f"Int({z3.simplify(self.e)})"


class VBool(V):
    def __init__(self, e):
        self.e = e

    def __repr__(self):
        return f"Bool({z3.simplify(self.e)})"


class VUnit(V):
    def __repr__(self):
        return "()"


class VAdt(V):
    """struct / tuple (discr None) or enum (discr = z3 BV64). fields keyed (variant name|None, idx|name)"""

    def __init__(self, ty, discr, fields=None, uid=None):
        self.ty, self.discr, self.fields, self.uid = ty, discr, fields or {}, uid

    def __repr__(self):
        d = None if self.discr is None else z3.simplify(self.discr)
        return f"Adt({self.ty}, d={d}, {self.fields})"


class VRef(V):
    def __init__(self, obj, proj=()):
        self.obj, self.proj = obj, tuple(proj)

    def __repr__(self):
        return f"Ref({self.obj}{list(self.proj)})"


class VUnknown(V):
    """not yet refined; refinement is a deterministic function of uid, so copies agree"""

    def __init__(self, uid, ty=None):
        self.uid, self.ty = uid, ty

    def __repr__(self):
        return f"?{self.uid}"


class VOpaque(V):
    """value of an uninterpreted sort (z3 Int used as identity)"""

    def __init__(self, e, ty=None):
        self.e, self.ty = e, ty

    def __repr__(self):
        return f"Opq({self.e})"


def ty_width(t):
    t = t.strip()
    return INT_W.get(t)


def is_signed(t):
    return t.strip().startswith("i")


def pointee(t):
    t = t.strip()
    for p in ("&mut ", "&", "*const ", "*mut "):
        if t.startswith(p):
            r = t[len(p):].strip()
            r = re.sub(r"^'\w+ ", "", r)
            if r.startswith("mut "):
                r = r[4:]
            return r
    m = re.match(r"(?:std::boxed::)?Box<(.*)>$", t)
    if m:
        return split_top(m.group(1))[0]
    return None


class Path:
    def __init__(self):
        self.cond = []
        self.objs = {}
        self.events = []
        self.notes = []
        self.outcome = None
        self.ret = None
        self.frames = []
        self.counter = {}
        self.visits = {}

    def clone(self):
        p = Path()
        p.cond = list(self.cond)
        p.objs = copy.deepcopy(self.objs)
        p.events = copy.deepcopy(self.events)
        p.notes = list(self.notes)
        p.frames = [dict(f) for f in self.frames]
        p.counter = dict(self.counter)
        p.visits = dict(self.visits)
        return p


class Stop(Exception):
    pass


class Executor:
    def __init__(self, funcs, models=None, inline=None, max_visits=4, max_paths=4000, variant_index=None,
                 max_depth=6):
        self.funcs = funcs
        self.models = models or []
        self.inline = inline or (lambda callee, f: False)
        self.max_visits = max_visits
        self.max_paths = max_paths
        self.max_depth = max_depth
        self.variant_index = variant_index or (lambda ty, name: None)
        self.solver = z3.Solver()
        self.done = []
        self.encoded = set()
        self.uninterpreted = set()
        self.solver_checks = 0
        self.cur_frame = None

    # ---------------------------------------------------------------- utilities
    def feasible(self, path, extra=None):
        self.solver.push()
        for c in path.cond:
            self.solver.add(c)
        if extra is not None:
            self.solver.add(extra)
        r = self.solver.check()
        self.solver_checks += 1
        self.solver.pop()
        return r != z3.unsat

    def fresh_uid(self, path, base):
        n = path.counter.get(base, 0)
        path.counter[base] = n + 1
        return f"{base}#{n}"

    # ---------------------------------------------------------------- refinement of unknowns
    def as_int(self, v, ty):
        if isinstance(v, VInt):
            return v
        if isinstance(v, VBool):
            return VInt(z3.If(v.e, z3.BitVecVal(1, 8), z3.BitVecVal(0, 8)))
        if isinstance(v, VUnknown):
            w = ty_width(ty or v.ty or "") or 64
            return VInt(z3.BitVec(v.uid, w), is_signed(ty or v.ty or ""))
        if isinstance(v, VAdt) and v.discr is not None:
            return VInt(v.discr)
        raise Stop(f"as_int on {v!r}")

    def as_bool(self, v):
        if isinstance(v, VBool):
            return v
        if isinstance(v, VUnknown):
            return VBool(z3.Bool(v.uid))
        if isinstance(v, VInt):
            return VBool(v.e != 0)
        raise Stop(f"as_bool on {v!r}")

    def refine(self, v, ty):
        """turn an unknown into the shape its static type dictates (scalars only)"""
        if not isinstance(v, VUnknown):
            return v
        t = (ty or v.ty or "").strip()
        if t == "bool":
            return self.as_bool(v)
        if t in INT_W:
            return self.as_int(v, t)
        if t == "()":
            return VUnit()
        return v

    def as_adt(self, v, ty, enum):
        if isinstance(v, VAdt):
            if enum and v.discr is None:
                v.discr = z3.BitVec((v.uid or "adt") + ".#d", 64)
            return v
        if isinstance(v, VUnknown):
            d = z3.BitVec(v.uid + ".#d", 64) if enum else None
            return VAdt(ty or v.ty, d, {}, uid=v.uid)
        raise Stop(f"as_adt on {v!r}")

    # ---------------------------------------------------------------- memory
    def read_loc(self, path, obj, proj):
        v = path.objs[obj]
        parent, key = None, None
        for i, pr in enumerate(proj):
            kind = pr[0]
            if kind == "field":
                _, idx, variant, fty = pr
                a = self.as_adt(v, None, variant is not None)
                if a is not v:
                    self._store(path, obj, proj[:i], a)
                    v = a
                k = (variant, idx)
                if k not in v.fields:
                    v.fields[k] = VUnknown(f"{v.uid or obj}.{variant or ''}.{idx}", fty)
                v = v.fields[k]
            elif kind == "index":
                _, ie = pr
                a = self.as_adt(v, None, False)
                if a is not v:
                    self._store(path, obj, proj[:i], a)
                    v = a
                k = (None, "[" + str(ie) + "]")
                if k not in v.fields:
                    v.fields[k] = VUnknown(f"{v.uid or obj}[{ie}]")
                v = v.fields[k]
            else:
                raise Stop(f"projection {pr}")
        return v

    def _store(self, path, obj, proj, val):
        if not proj:
            path.objs[obj] = val
            return
        parent = self.read_loc(path, obj, proj[:-1])
        pr = proj[-1]
        if pr[0] == "field":
            a = self.as_adt(parent, None, pr[2] is not None)
            if a is not parent:
                self._store(path, obj, proj[:-1], a)
            a.fields[(pr[2], pr[1])] = val
        elif pr[0] == "index":
            a = self.as_adt(parent, None, False)
            if a is not parent:
                self._store(path, obj, proj[:-1], a)
            a.fields[(None, "[" + str(pr[1]) + "]")] = val

    def write_loc(self, path, obj, proj, val):
        self._store(path, obj, proj, copy.deepcopy(val))

    # ---------------------------------------------------------------- places
    def parse_place(self, s):
        """-> (local, [proj...]) with proj in ('deref',) ('field', idx, variant, type) ('index', text) ('downcast', name)"""
        s = s.strip()
        pos = 0

        def parse():
            nonlocal pos
            if s[pos] == "_":
                m = re.match(r"_\d+", s[pos:])
                pos += m.end()
                base = (m.group(0), [])
            elif s[pos] == "(":
                pos += 1
                if s[pos] == "*":
                    pos += 1
                    b = parse()
                    assert s[pos] == ")", s
                    pos += 1
                    base = (b[0], b[1] + [("deref",)])
                else:
                    b = parse()
                    if s[pos:pos + 4] == " as ":
                        pos += 4
                        m = re.match(r"[A-Za-z0-9_#]+", s[pos:])
                        pos += m.end()
                        assert s[pos] == ")", s
                        pos += 1
                        base = (b[0], b[1] + [("downcast", m.group(0))])
                    elif s[pos] == ".":
                        pos += 1
                        m = re.match(r"[A-Za-z0-9_]+", s[pos:])
                        idx = m.group(0)
                        pos += m.end()
                        assert s[pos] == ":", s
                        pos += 1
                        d, st = 0, pos
                        while True:
                            c = s[pos]
                            if c in "([{<":
                                d += 1
                            elif c in "]}":
                                d -= 1
                            elif c == ">" and s[pos - 1] not in "-=":
                                d -= 1
                            elif c == ")":
                                if d == 0:
                                    break
                                d -= 1
                            pos += 1
                        fty = s[st:pos].strip()
                        pos += 1
                        variant = None
                        pj = b[1]
                        if pj and pj[-1][0] == "downcast":
                            variant = pj[-1][1]
                            pj = pj[:-1]
                        base = (b[0], pj + [("field", idx, variant, fty)])
                    else:
                        raise Stop("place syntax: " + s)
            else:
                raise Stop("place syntax: " + s)
            while pos < len(s) and s[pos] == "[":
                e = s.index("]", pos)
                base = (base[0], base[1] + [("index", s[pos + 1:e])])
                pos = e + 1
            return base

        r = parse()
        if pos != len(s):
            raise Stop(f"trailing place text: {s[pos:]!r} in {s!r}")
        return r

    def resolve(self, path, frame, place):
        """place text -> (obj, proj) location, following derefs"""
        local, projs = self.parse_place(place) if isinstance(place, str) else place
        obj, proj = (frame["id"], local), []
        if obj not in path.objs:
            path.objs[obj] = VUnknown(f"{frame['fn']}{frame['id']}.{local}", frame["locals"].get(local))
        lty = frame["locals"].get(local)
        for pr in projs:
            if pr[0] == "deref":
                v = self.read_loc(path, obj, tuple(proj))
                if isinstance(v, VUnknown):
                    h = "H:" + v.uid
                    if h not in path.objs:
                        path.objs[h] = VUnknown(v.uid + "*", pointee(v.ty or "") if v.ty else None)
                    r = VRef(h, ())
                    self._store(path, obj, tuple(proj), r)
                    v = r
                if not isinstance(v, VRef):
                    raise Stop(f"deref of {v!r} in {place}")
                obj, proj = v.obj, list(v.proj)
            elif pr[0] == "index":
                it = pr[1].strip()
                if re.match(r"_\d+$", it):
                    iv = self.read_loc(path, (frame["id"], it), ())
                    iv = self.as_int(iv, "usize")
                    e = z3.simplify(iv.e)
                    key = str(e)
                else:
                    key = it
                proj.append(("index", key))
            elif pr[0] == "downcast":
                continue  # a downcast only matters for the field projection that follows (merged by parse_place)
            else:
                proj.append(pr)
        return obj, tuple(proj)

    def read_place(self, path, frame, place, ty=None):
        obj, proj = self.resolve(path, frame, place)
        v = self.read_loc(path, obj, proj)
        if isinstance(v, VUnknown):
            t = ty or v.ty or self.place_type(frame, place)
            r = self.refine(v, t)
            if r is not v:
                self._store(path, obj, proj, r)
                v = r
            elif v.ty is None and t:
                v.ty = t
        return v

    def place_type(self, frame, place):
        local, projs = self.parse_place(place) if isinstance(place, str) else place
        if not projs:
            return frame["locals"].get(local)
        last = projs[-1]
        if last[0] == "field":
            return last[3]
        if last[0] == "deref":
            t = self.place_type(frame, (local, projs[:-1]))
            return pointee(t) if t else None
        return None

    # ---------------------------------------------------------------- operands / rvalues
    def const(self, path, text, ty=None):
        t = text.strip()
        if t == "()":
            return VUnit()
        if t in ("true", "false"):
            return VBool(z3.BoolVal(t == "true"))
        m = re.match(r"^(-?\d+)_(i8|i16|i32|i64|i128|isize|u8|u16|u32|u64|u128|usize)$", t)
        if m:
            return VInt(z3.BitVecVal(int(m.group(1)), INT_W[m.group(2)]), is_signed(m.group(2)))
        m = re.match(r"^(u8|u16|u32|u64|u128|usize|i8|i16|i32|i64|i128|isize)::(MAX|MIN)$", t)
        if m:
            w = INT_W[m.group(1)]
            s = is_signed(m.group(1))
            if m.group(2) == "MAX":
                val = (1 << (w - 1)) - 1 if s else (1 << w) - 1
            else:
                val = -(1 << (w - 1)) if s else 0
            return VInt(z3.BitVecVal(val, w), s)
        m = re.match(r"^'(.)'$", t)
        if m:
            return VInt(z3.BitVecVal(ord(m.group(1)), 32))
        m = re.match(r'^"(.*)"$', t)
        if m:
            return VOpaque(z3.Int("str:" + m.group(1)), "&str")
        m = re.match(r"^.*::promoted\[(\d+)\]$", t)
        if m and getattr(self, "cur_frame", None) is not None:
            pf = self.funcs.get(self.cur_frame["func"].name + f"::promoted[{m.group(1)}]")
            if pf is not None:
                return self.eval_promoted(path, pf)
        # unit-like enum variants / consts / fn items: opaque but stable
        return VUnknown("const:" + t, ty)

    def eval_promoted(self, path, pf):
        """promoted constants are straight-line bodies: run bb0 in a frame of their own"""
        fid = "P:" + pf.name[-40:]
        frame = {"id": fid, "fn": "promoted", "func": pf, "bb": "bb0", "locals": pf.locals, "ret_to": None}
        saved = self.cur_frame
        stmts, term, _ = pf.blocks["bb0"]
        for s_ in stmts:
            self.stmt(path, frame, s_)
        self.cur_frame = saved
        if term != "return":
            raise Stop("promoted body is not straight-line: " + pf.name)
        return copy.deepcopy(path.objs.get((fid, "_0")))

    def operand(self, path, frame, text, ty=None):
        t = text.strip()
        if t.startswith("no_retag "):
            t = t[9:]
        if t.startswith("copy ") or t.startswith("move "):
            v = self.read_place(path, frame, t[5:], ty)
            return copy.deepcopy(v)
        if t.startswith("const "):
            return self.const(path, t[6:], ty)
        if re.match(r"^[A-Za-z_<][\w:<>, &']*$", t) and "(" not in t:
            return VUnknown("fnitem:" + t, ty)  # zero-sized fn item / constructor passed as a value
        raise Stop("operand: " + text)

    BIN = r"^(AddWithOverflow|SubWithOverflow|MulWithOverflow|AddUnchecked|SubUnchecked|MulUnchecked|ShlUnchecked|ShrUnchecked|Add|Sub|Mul|Div|Rem|BitXor|BitAnd|BitOr|Shl|Shr|Eq|Lt|Le|Ne|Ge|Gt|Cmp|Offset)\((.*)\)$"

    def operand_type(self, frame, text):
        t = text.strip()
        if t.startswith("no_retag "):
            t = t[9:]
        if t.startswith("copy ") or t.startswith("move "):
            return self.place_type(frame, t[5:])
        m = re.search(r"_(i8|i16|i32|i64|i128|isize|u8|u16|u32|u64|u128|usize)$", t)
        if m:
            return m.group(1)
        if t in ("const true", "const false"):
            return "bool"
        return None

    def rvalue(self, path, frame, text, dest_ty):
        t = text.strip()
        if t.startswith("no_retag "):
            t = t[9:]
        if t.startswith("&"):
            p = re.sub(r"^&(raw const |raw mut |mut |fake shallow |fake )?", "", t)
            p = re.sub(r"^'\w+ ", "", p)
            obj, proj = self.resolve(path, frame, p)
            return VRef(obj, proj)
        m = re.match(r"^discriminant\((.*)\)$", t)
        if m:
            obj, proj = self.resolve(path, frame, m.group(1))
            v = self.read_loc(path, obj, proj)
            a = self.as_adt(v, self.place_type(frame, m.group(1)), True)
            if a is not v:
                self._store(path, obj, proj, a)
            if a.discr is None:
                a.discr = z3.BitVec((a.uid or str(obj)) + ".#d", 64)
            return VInt(a.discr, True)
        m = re.match(r"^(CopyForDeref|ShallowInitBox)\((.*)\)$", t)
        if m:
            arg = split_top(m.group(2))[0]
            if m.group(1) == "CopyForDeref":
                return copy.deepcopy(self.read_place(path, frame, arg))
            return self.operand(path, frame, arg)
        m = re.match(self.BIN, t)
        if m:
            op = m.group(1)
            a_t, b_t = split_top(m.group(2))
            ty = self.operand_type(frame, a_t) or self.operand_type(frame, b_t)
            a = self.operand(path, frame, a_t, ty)
            b = self.operand(path, frame, b_t, self.operand_type(frame, b_t) or ty)
            return self.binop(path, op, a, b, ty, self.operand_type(frame, b_t))
        m = re.match(r"^(Not|Neg|PtrMetadata)\((.*)\)$", t)
        if m:
            ty = self.operand_type(frame, m.group(2))
            a = self.operand(path, frame, m.group(2), ty)
            if m.group(1) == "Not":
                if isinstance(a, VBool) or ty == "bool":
                    return VBool(z3.Not(self.as_bool(a).e))
                ai = self.as_int(a, ty)
                return VInt(~ai.e, ai.signed)
            if m.group(1) == "Neg":
                ai = self.as_int(a, ty)
                return VInt(-ai.e, True)
            return VUnknown(self.fresh_uid(path, "ptrmeta"), dest_ty)
        m = re.match(r"^Len\((.*)\)$", t)
        if m:
            return VUnknown(self.fresh_uid(path, "len"), "usize")
        m = re.match(r"^(.*) as (.*) \((\w+)(\(.*\))?\)$", t)
        if m:
            sty = self.operand_type(frame, m.group(1))
            a = self.operand(path, frame, m.group(1), sty)
            kind, tt = m.group(3), m.group(2).strip()
            if kind == "IntToInt":
                if isinstance(a, VBool):
                    a = VInt(z3.If(a.e, z3.BitVecVal(1, 8), z3.BitVecVal(0, 8)))
                ai = self.as_int(a, sty)
                w = INT_W.get(tt, 64)
                sw = ai.e.size()
                if w == sw:
                    e = ai.e
                elif w < sw:
                    e = z3.Extract(w - 1, 0, ai.e)
                else:
                    signed = is_signed(sty) if sty else ai.signed
                    e = z3.SignExt(w - sw, ai.e) if signed else z3.ZeroExt(w - sw, ai.e)
                return VInt(e, is_signed(tt))
            if kind in ("PointerCoercion", "PtrToPtr", "Transmute", "PointerExposeProvenance", "FnPtrToPtr"):
                return a
            return VUnknown(self.fresh_uid(path, "cast"), tt)
        if t.startswith("copy ") or t.startswith("move ") or t.startswith("const "):
            return self.operand(path, frame, t, dest_ty)
        # aggregates
        if t.startswith("(") and t.endswith(")"):
            items = split_top(t[1:-1])
            a = VAdt(dest_ty, None, {}, uid=self.fresh_uid(path, "tup"))
            for i, it in enumerate(items):
                a.fields[(None, str(i))] = self.operand(path, frame, it)
            return a
        if t.startswith("["):
            return VUnknown(self.fresh_uid(path, "arr"), dest_ty)
        if t.startswith("{"):
            # closure / coroutine aggregate: `{closure@file:l:c: l:c} { captured: op, .. }` (captures by position)
            d, k = 0, 0
            for k, c in enumerate(t):
                if c == "{":
                    d += 1
                elif c == "}":
                    d -= 1
                    if d == 0:
                        break
            cl = VAdt(t[:k + 1], None, {}, uid=self.fresh_uid(path, "closure"))
            rest = t[k + 1:].strip()
            if rest.startswith("{") and rest.endswith("}"):
                for i, it in enumerate(split_top(rest[1:-1])):
                    if ":" in it:
                        cl.fields[(None, str(i))] = self.operand(path, frame, it.split(":", 1)[1].strip())
            return cl
        return self.aggregate(path, frame, t, dest_ty)

    def aggregate(self, path, frame, t, dest_ty):
        # Path::<..>::Variant(args) | Path { f: v } | Path::Variant | Path(args)
        m = re.match(r"^(.*?)\s*(\((.*)\)|\{(.*)\})?$", t, re.S)
        head = t
        args, named = [], None
        # find the argument list: last top-level (...) or {...}
        depth = 0
        cut = None
        for i, c in enumerate(t):
            if c == "<":
                depth += 1
            elif c == ">" and t[i - 1] not in "-=":
                depth -= 1
            elif c in "({" and depth == 0:
                cut = i
                break
        if cut is not None:
            head = t[:cut].strip()
            body = t[cut + 1:-1]
            if t[cut] == "(":
                args = split_top(body)
            else:
                named = []
                for it in split_top(body):
                    k, v = it.split(":", 1)
                    named.append((k.strip(), v.strip()))
        segs = [x for x in split_top(strip_generics(head).replace("::", "\x00"), "\x00") if x]
        dty = strip_generics(dest_ty or "")
        dlast = dty.split("::")[-1] if dty else None
        name = segs[-1] if segs else head
        a = VAdt(dest_ty, None, {}, uid=self.fresh_uid(path, "agg"))
        variant = None
        if dlast is not None and name != dlast or (dlast is None and len(segs) >= 2 and segs[-2] in BUILTIN_VARIANTS):
            variant = name
            tyname = segs[-2] if len(segs) >= 2 else dlast
            idx = BUILTIN_VARIANTS.get(tyname, {}).get(variant)
            if idx is None:
                idx = self.variant_index(dty, variant)
            if idx is None:
                idx = 1000 + (hash_str(dty + "::" + variant) % 100000)
                path.notes.append(f"imprecise variant index for {dty}::{variant}")
            a.discr = z3.BitVecVal(idx, 64)
        if named is not None:
            # named fields are printed in declaration order; projections use the positional index
            for i, (k, v) in enumerate(named):
                a.fields[(variant, str(i))] = self.operand(path, frame, v)
        else:
            for i, it in enumerate(args):
                a.fields[(variant, str(i))] = self.operand(path, frame, it)
        return a

    def binop(self, path, op, a, b, ty, bty=None):
        cmpops = {"Eq", "Ne", "Lt", "Le", "Gt", "Ge"}
        if (isinstance(a, VBool) or isinstance(b, VBool) or ty == "bool") and op in ("Eq", "Ne", "BitAnd", "BitOr", "BitXor"):
            x, y = self.as_bool(a).e, self.as_bool(b).e
            return VBool({"Eq": x == y, "Ne": x != y, "BitAnd": z3.And(x, y), "BitOr": z3.Or(x, y), "BitXor": z3.Xor(x, y)}[op])
        if isinstance(a, (VOpaque,)) or isinstance(b, (VOpaque,)) or (isinstance(a, VUnknown) and ty is None):
            return VUnknown(self.fresh_uid(path, "binop"), "bool" if op in cmpops else ty)
        x = self.as_int(a, ty)
        signed = is_signed(ty) if ty else x.signed
        y = self.as_int(b, bty or ty)
        xe, ye = x.e, y.e
        if op in ("Shl", "Shr", "ShlUnchecked", "ShrUnchecked") and ye.size() != xe.size():
            ye = z3.Extract(xe.size() - 1, 0, ye) if ye.size() > xe.size() else z3.ZeroExt(xe.size() - ye.size(), ye)
        if xe.size() != ye.size():
            raise Stop(f"width mismatch in {op}: {xe.size()} vs {ye.size()}")
        w = xe.size()
        if op in cmpops:
            f = {"Eq": lambda: xe == ye, "Ne": lambda: xe != ye,
                 "Lt": lambda: (xe < ye) if signed else z3.ULT(xe, ye),
                 "Le": lambda: (xe <= ye) if signed else z3.ULE(xe, ye),
                 "Gt": lambda: (xe > ye) if signed else z3.UGT(xe, ye),
                 "Ge": lambda: (xe >= ye) if signed else z3.UGE(xe, ye)}[op]
            return VBool(f())
        if op.endswith("WithOverflow"):
            base = op[:3]
            if base == "Add":
                r = xe + ye
                ov = z3.Not(z3.BVAddNoOverflow(xe, ye, signed)) if not signed else z3.Or(z3.Not(z3.BVAddNoOverflow(xe, ye, True)), z3.Not(z3.BVAddNoUnderflow(xe, ye)))
            elif base == "Sub":
                r = xe - ye
                ov = z3.Or(z3.Not(z3.BVSubNoOverflow(xe, ye)), z3.Not(z3.BVSubNoUnderflow(xe, ye, signed))) if signed else z3.ULT(xe, ye)
            else:
                r = xe * ye
                ov = z3.Not(z3.BVMulNoOverflow(xe, ye, signed)) if not signed else z3.Or(z3.Not(z3.BVMulNoOverflow(xe, ye, True)), z3.Not(z3.BVMulNoUnderflow(xe, ye)))
            t = VAdt(None, None, {}, uid=self.fresh_uid(path, "ovf"))
            t.fields[(None, "0")] = VInt(r, signed)
            t.fields[(None, "1")] = VBool(ov)
            return t
        f = {"Add": lambda: xe + ye, "Sub": lambda: xe - ye, "Mul": lambda: xe * ye,
             "AddUnchecked": lambda: xe + ye, "SubUnchecked": lambda: xe - ye, "MulUnchecked": lambda: xe * ye,
             "Div": lambda: (xe / ye) if signed else z3.UDiv(xe, ye),
             "Rem": lambda: z3.SRem(xe, ye) if signed else z3.URem(xe, ye),
             "BitAnd": lambda: xe & ye, "BitOr": lambda: xe | ye, "BitXor": lambda: xe ^ ye,
             "Shl": lambda: xe << ye, "ShlUnchecked": lambda: xe << ye,
             "Shr": lambda: (xe >> ye) if signed else z3.LShR(xe, ye),
             "ShrUnchecked": lambda: (xe >> ye) if signed else z3.LShR(xe, ye)}.get(op)
        if f is None:
            return VUnknown(self.fresh_uid(path, "binop"), ty)
        return VInt(f(), signed)

    # ---------------------------------------------------------------- calls
    def resolve_callee(self, callee):
        """best-effort: map a call-site path to a function body of the dump"""
        if callee in self.funcs:
            return self.funcs[callee]
        c = strip_generics(callee)
        if c in self.funcs:
            return self.funcs[c]
        m = re.match(r"^<(.+) as (.+)>::(\w+)$", callee)
        if m:
            # trait-qualified call: unique impl method of that name whose self type matches
            ty = strip_generics(m.group(1)).replace("&", "").replace("mut ", "").strip().split("::")[-1]
            meth = m.group(3)
            cands = []
            for n, f in self.funcs.items():
                if not n.endswith("::" + meth) or "<impl at " not in n:
                    continue
                a0 = strip_generics(f.args[0][1]).replace("&", "").replace("mut ", "").strip().split("::")[-1] if f.args else ""
                rt = strip_generics(f.ret or "").split("::")[-1]
                if a0 == ty or (rt == ty and a0 != ty and not any(ty == strip_generics(t).replace("&", "").replace("mut ", "").strip().split("::")[-1] for _, t in f.args)):
                    cands.append(f)
            self._trait_cands = cands
            return cands[0] if len(cands) == 1 else None
        segs = c.split("::")
        if len(segs) < 2:
            cands = [f for n, f in self.funcs.items() if (n == c or n.endswith("::" + c)) and "<impl at " not in n and "{closure" not in n]
            return cands[0] if len(cands) == 1 else None
        meth, tyname = segs[-1], segs[-2]
        mod = "::".join(segs[:-2])
        cands = []
        for n, f in self.funcs.items():
            if not n.endswith("::" + meth):
                continue
            if "<impl at " not in n:
                continue
            nm = n.split("::<impl at ")[0]
            if mod and nm != mod and not nm.endswith("::" + mod) and not mod.endswith("::" + nm):
                continue
            cands.append(f)
        if len(cands) > 1:
            c2 = [f for f in cands if f.args and tyname in strip_generics(f.args[0][1]).replace("&", "").replace("mut ", "").split("::")[-1:]]
            if c2:
                cands = c2
        if len(cands) == 1:
            return cands[0]
        return None

    def do_call(self, path, frame, dest, callee, args_t, target):
        """returns list of (path, continue?) after the call"""
        argv = [self.operand(path, frame, a) for a in args_t]
        argty = [self.operand_type(frame, a) for a in args_t]
        dest_ty = self.place_type(frame, dest) if dest else None
        for rx, fn in self.models:
            if re.search(rx, callee):
                res = fn(self, path, frame, callee, argv, argty, dest_ty)
                if res is not None:
                    return res  # list of (path, value | ('panic', msg))
        f = self.resolve_callee(callee)
        if f is not None and self.inline(callee, f) and len(path.frames) < self.max_depth:
            return ("inline", f, argv)
        # uninterpreted: fresh result, &mut arguments havocked
        self.uninterpreted.add(strip_generics(callee))
        uid = self.fresh_uid(path, "call:" + strip_generics(callee).split("::")[-1])
        for a, t in zip(argv, argty):
            if isinstance(a, VRef) and t and t.strip().startswith("&mut"):
                self.write_loc(path, a.obj, a.proj, VUnknown(uid + ".havoc", pointee(t)))
        rv = VUnknown(uid, dest_ty)
        path.events.append(("call", strip_generics(callee), copy.deepcopy(argv), uid))
        return [(path, rv)]

    # ---------------------------------------------------------------- main loop
    def run(self, func, args, path=None, objs=None):
        """symbolically execute `func` on argument values; returns finished paths"""
        p = path or Path()
        if objs:
            p.objs.update(objs)
        self.done = []
        frame = self.new_frame(p, func, args)
        p.frames.append(frame)
        work = [p]
        while work:
            if len(self.done) + len(work) > self.max_paths:
                raise Stop("path limit")
            p = work.pop()
            try:
                succ = self.step(p)
            except Stop as e:
                p.outcome = ("abort", str(e))
                self.done.append(p)
                continue
            work.extend(succ)
        return self.done

    def new_frame(self, path, func, args):
        self.encoded.add(func.name)
        fid = self.fresh_uid(path, "F")
        frame = {"id": fid, "fn": func.name.split("::")[-1], "func": func, "bb": "bb0", "locals": func.locals,
                 "ret_to": None}
        for (l, t), v in zip(func.args, args):
            path.objs[(fid, l)] = v
        return frame

    def finish(self, path, outcome, ret=None):
        path.outcome = outcome
        path.ret = ret
        self.done.append(path)

    def step(self, path):
        """execute one basic block of the top frame; return successor paths"""
        frame = path.frames[-1]
        func = frame["func"]
        bb = frame["bb"]
        key = (frame["id"], bb)
        path.visits[key] = path.visits.get(key, 0) + 1
        if path.visits[key] > self.max_visits:
            self.finish(path, ("limit", f"{func.name} {bb} visited more than {self.max_visits} times"))
            return []
        stmts, term, cleanup = func.blocks[bb]
        self.cur_frame = frame
        for s in stmts:
            self.stmt(path, frame, s)
        return self.terminator(path, frame, term)

    def stmt(self, path, frame, s):
        if s.startswith(("StorageLive", "StorageDead", "nop", "FakeRead", "PlaceMention", "AscribeUserType", "Retag", "Coverage", "ConstEvalCounter", "BackwardIncompatibleDropHint")):
            return
        m = re.match(r"^discriminant\((.*)\) = (\d+)$", s)
        if m:
            obj, proj = self.resolve(path, frame, m.group(1))
            v = self.read_loc(path, obj, proj)
            a = self.as_adt(v, None, True)
            a.discr = z3.BitVecVal(int(m.group(2)), 64)
            self._store(path, obj, proj, a)
            return
        if s.startswith("Deinit(") or s.startswith("assume(") or s.startswith("copy_nonoverlapping("):
            return
        i = find_top(s, " = ")
        if i < 0:
            raise Stop("statement: " + s)
        lhs, rhs = s[:i], s[i + 3:]
        dty = self.place_type(frame, lhs)
        v = self.rvalue(path, frame, rhs, dty)
        obj, proj = self.resolve(path, frame, lhs)
        self._store(path, obj, proj, v)

    def goto(self, path, frame, bb):
        frame["bb"] = bb
        return [path]

    def terminator(self, path, frame, t):
        m = re.match(r"^goto -> (bb\d+)$", t)
        if m:
            return self.goto(path, frame, m.group(1))
        if t == "return":
            rv = path.objs.get((frame["id"], "_0"), VUnit())
            rv = self.refine(rv, frame["func"].ret) if isinstance(rv, VUnknown) else rv
            path.frames.pop()
            if not path.frames:
                self.finish(path, ("return",), rv)
                return []
            caller = path.frames[-1]
            dest, target = frame["ret_to"]
            if dest:
                obj, proj = self.resolve(path, caller, dest)
                self._store(path, obj, proj, copy.deepcopy(rv))
            if target is None:
                self.finish(path, ("panic", "diverging call returned"))
                return []
            caller["bb"] = target
            return [path]
        if t in ("unreachable",):
            # reaching `unreachable` needs an invalid enum value: assumed away
            path.outcome = ("infeasible",)
            return []
        if t.startswith("resume") or t.startswith("terminate"):
            self.finish(path, ("panic", "unwind"))
            return []
        m = re.match(r"^switchInt\((.*?)\) -> \[(.*)\]$", t)
        if m:
            ty = self.operand_type(frame, m.group(1))
            v = self.operand(path, frame, m.group(1), ty)
            isb = isinstance(v, VBool)
            if isinstance(v, VUnknown):
                v = self.as_bool(v) if ty == "bool" else self.as_int(v, ty)
                isb = isinstance(v, VBool)
            arms = []
            for a in split_top(m.group(2)):
                k, bb = [x.strip() for x in a.rsplit(":", 1)]
                arms.append((k, bb))
            out = []
            taken = []
            for k, bb in arms:
                if k == "otherwise":
                    c = z3.And([z3.Not(x) for x in taken]) if taken else z3.BoolVal(True)
                else:
                    kv = int(k)
                    if isb:
                        c = v.e if kv != 0 else z3.Not(v.e)
                    else:
                        c = v.e == z3.BitVecVal(kv, v.e.size())
                    taken.append(c)
                c = z3.simplify(c)
                if z3.is_false(c):
                    continue
                if z3.is_true(c):
                    p2 = path if len(out) == 0 and k == "otherwise" else path.clone()
                    p2.frames[-1]["bb"] = bb
                    out.append(p2)
                    continue
                if not self.feasible(path, c):
                    continue
                p2 = path.clone()
                p2.cond.append(c)
                p2.frames[-1]["bb"] = bb
                out.append(p2)
            return out
        m = re.match(r"^assert\((.*)\) -> (.*)$", t, re.S)
        if m:
            inner = m.group(1)
            parts = split_top(inner)
            ct = parts[0].strip()
            neg = ct.startswith("!")
            if neg:
                ct = ct[1:]
            c = self.as_bool(self.operand(path, frame, ct, "bool")).e
            if neg:
                c = z3.Not(c)
            msg = ", ".join(parts[1:])[:120]
            tm = re.search(r"success: (bb\d+)", m.group(2)) or re.match(r"(bb\d+)", m.group(2).strip())
            out = []
            c = z3.simplify(c)
            if not z3.is_true(c) and self.feasible(path, z3.Not(c)):
                pf = path.clone()
                pf.cond.append(z3.Not(c))
                self.finish(pf, ("panic", "assert: " + msg))
            if not z3.is_false(c) and self.feasible(path, c):
                if not z3.is_true(c):
                    path.cond.append(c)
                path.frames[-1]["bb"] = tm.group(1)
                out.append(path)
            return out
        m = re.match(r"^drop\((.*)\) -> (.*)$", t)
        if m:
            tm = re.search(r"return: (bb\d+)", m.group(2)) or re.match(r"(bb\d+)", m.group(2).strip())
            path.events.append(("drop", m.group(1)))
            return self.goto(path, frame, tm.group(1))
        # call:  [dest = ] callee(args) -> [return: bbN, unwind ...] | -> bbN | -> unwind continue
        m = re.match(r"^(?:(.+?) = )?(.+?)\((.*)\) -> (.*)$", t, re.S)
        if m and find_top(t, " = ") != -2:
            i = find_top(t, " = ")
            dest = t[:i] if i >= 0 else None
            rest = t[i + 3:] if i >= 0 else t
            j = rest.rfind(") -> ")
            head, tail = rest[:j + 1], rest[j + 5:]
            # split callee and args: the arg list is the last top-level (...)
            k = last_paren_open(head)
            callee, args_s = head[:k].strip(), head[k + 1:-1]
            tm = re.search(r"return: (bb\d+)", tail) or re.match(r"(bb\d+)", tail.strip())
            target = tm.group(1) if tm else None
            args_t = split_top(args_s)
            res = self.do_call(path, frame, dest, callee, args_t, target)
            if isinstance(res, tuple) and res[0] == "inline":
                _, f, argv = res
                nf = self.new_frame(path, f, argv)
                nf["ret_to"] = (dest, target)
                path.frames.append(nf)
                return [path]
            out = []
            for p2, rv in res:
                if isinstance(rv, tuple) and rv[0] == "panic":
                    self.finish(p2, ("panic", rv[1]))
                    continue
                if target is None:
                    self.finish(p2, ("panic", "diverging call " + strip_generics(callee)))
                    continue
                fr = p2.frames[-1]
                if dest:
                    obj, proj = self.resolve(p2, fr, dest)
                    self._store(p2, obj, proj, rv)
                fr["bb"] = target
                out.append(p2)
            return out
        raise Stop("terminator: " + t)


def hash_str(s):
    h = 0
    for c in s:
        h = (h * 131 + ord(c)) & 0xFFFFFFFF
    return h


def find_top(s, sep):
    depth = 0
    i = 0
    while i < len(s):
        c = s[i]
        if c in "([{":
            depth += 1
        elif c in ")]}":
            depth -= 1
        elif c == "<" and (i + 1 < len(s) and s[i + 1] not in " ="):
            pass
        if depth == 0 and s.startswith(sep, i):
            return i
        i += 1
    return -1


def last_paren_open(head):
    """index of the '(' matching the final ')' of head"""
    d = 0
    for i in range(len(head) - 1, -1, -1):
        c = head[i]
        if c == ")":
            d += 1
        elif c == "(":
            d -= 1
            if d == 0:
                return i
    raise Stop("call syntax: " + head)
