"""Parser for rustc's `-Zunpretty=mir` text dumps (only what mirsym executes)."""
import re


class Func:
    def __init__(self, name, header):
        self.name = name
        self.header = header
        self.args = []        # [(local, type)]
        self.ret = None
        self.locals = {}      # local -> type
        self.blocks = {}      # bbN -> (stmts [str], terminator str, cleanup bool)
        self.debug = {}       # debug name -> place text
        self.src = None


class FuncMap(dict):
    """name -> Func, plus `statics`: allocN -> path of the static it backs"""
    statics = {}


def split_top(s, sep=","):
    """split on sep at nesting depth 0 of ()[]{}<> (ignores '->' and '=>', and anything inside "...")"""
    out, depth, cur, i = [], 0, [], 0
    inq = False
    while i < len(s):
        c = s[i]
        if inq:
            if c == "\\" and i + 1 < len(s):
                cur.append(c)
                cur.append(s[i + 1])
                i += 2
                continue
            if c == '"':
                inq = False
            cur.append(c)
            i += 1
            continue
        if c == '"':
            inq = True
            cur.append(c)
            i += 1
            continue
        if c in "([{<":
            depth += 1
        elif c in ")]}":
            depth -= 1
        elif c == ">" and i > 0 and s[i - 1] not in "-=":
            depth -= 1
        if c == sep and depth == 0:
            out.append("".join(cur).strip())
            cur = []
        else:
            cur.append(c)
        i += 1
    t = "".join(cur).strip()
    if t:
        out.append(t)
    return out


HEADER_RE = re.compile(r"^fn (.+?)\((.*)\) -> (.+) \{$")


def parse(path):
    """-> {name: Func}; also promoted bodies `promoted[N] in <fn>` are kept under that name."""
    funcs = FuncMap()
    cur = None
    block = None
    with open(path, errors="replace") as f:
        lines = f.read().split("\n")
    statics = {}
    for ln in lines:
        m = re.match(r"^(alloc\d+) \(static: ([^,)]+)", ln)
        if m:
            statics[m.group(1)] = m.group(2)
    funcs.statics = statics
    funcs.all = []  # every body of the dump in order (macro instances share a name)
    i = 0
    n = len(lines)
    while i < n:
        ln = lines[i]
        if cur is None:
            if ln.startswith("fn ") and ln.endswith("{"):
                # header may contain nested parens in types: find the arg list by matching
                m = parse_header(ln)
                if m:
                    name, args, ret = m
                    cur = Func(name, ln)
                    cur.ret = ret
                    for a in split_top(args):
                        if ":" in a:
                            l, t = a.split(":", 1)
                            cur.args.append((l.strip().replace("mut ", ""), t.strip()))
                            cur.locals[l.strip().replace("mut ", "")] = t.strip()
            elif re.match(r"^const (.*::promoted\[\d+\]): (.*) = \{$", ln):
                m = re.match(r"^const (.*::promoted\[\d+\]): (.*) = \{$", ln)
                cur = Func(m.group(1), ln)
                cur.ret = m.group(2)
            elif ln.startswith("promoted[") or ln.startswith("const ") or ln.startswith("static "):
                # skip body of consts/promoteds/statics
                if ln.rstrip().endswith("{"):
                    depth = 1
                    i += 1
                    while i < n and depth > 0:
                        s = lines[i].strip()
                        if s.endswith("{") and not s.startswith("//"):
                            depth += 1
                        elif s == "}":
                            depth -= 1
                        i += 1
                    continue
            i += 1
            continue
        s = ln.strip()
        if ln == "}":
            funcs.setdefault(cur.name, cur)
            funcs.all.append(cur)
            cur = None
            block = None
            i += 1
            continue
        if block is None:
            m = re.match(r"let (?:mut )?(_\d+): (.+);$", s)
            if m:
                cur.locals[m.group(1)] = m.group(2)
            else:
                m = re.match(r"debug (\S+) => (.+);$", s)
                if m:
                    cur.debug[m.group(1)] = m.group(2)
                else:
                    m = re.match(r"(bb\d+)( \(cleanup\))?: \{$", s)
                    if m:
                        block = (m.group(1), [], bool(m.group(2)))
            i += 1
            continue
        # inside a block
        if s == "}":
            name, stmts, cleanup = block
            term = stmts.pop() if stmts else "unreachable"
            cur.blocks[name] = (stmts, term, cleanup)
            block = None
            i += 1
            continue
        if s:
            # statements end with ';' ; multi-line statements are joined
            acc = s
            while not acc.endswith(";") and i + 1 < n:
                i += 1
                acc += " " + lines[i].strip()
            block[1].append(acc[:-1].strip())
        i += 1
    return funcs


def parse_header(ln):
    # fn NAME(ARGS) -> RET {     where NAME may itself contain '(' inside <impl at ..> (no) / closures
    assert ln.startswith("fn ")
    body = ln[3:-1].rstrip()
    # find the '(' that starts the arg list: first '(' at angle-depth 0
    depth = 0
    i = 0
    while i < len(body):
        c = body[i]
        if c == "<":
            depth += 1
        elif c == ">" and body[i - 1] != "-":
            depth -= 1
        elif c == "(" and depth == 0:
            break
        i += 1
    if i >= len(body):
        return None
    name = body[:i]
    # match parens
    d = 0
    j = i
    while j < len(body):
        if body[j] == "(":
            d += 1
        elif body[j] == ")":
            d -= 1
            if d == 0:
                break
        j += 1
    args = body[i + 1:j]
    rest = body[j + 1:].strip()
    ret = rest[2:].strip() if rest.startswith("->") else "()"
    return name, args, ret


def variant_names(funcs, type_suffix):
    """discriminant -> variant name table of an enum, read from its derived Debug::fmt body
    (each switchInt arm leads to a block holding `const "VariantName"`).
    type_suffix: e.g. 'keepalive::protocol::State' (matched against the &Self arg type)."""
    for f in funcs.values():
        if not f.name.endswith("::fmt") or len(f.args) != 2:
            continue
        t = f.args[0][1]
        tt = strip_generics(t[1:].strip()) if t.startswith("&") else None
        if tt is None or not (tt == type_suffix or tt.endswith("::" + type_suffix)):
            continue
        if "Formatter" not in f.args[1][1]:
            continue
        stmts, term, _ = f.blocks.get("bb0", ([], "", False))
        if not any("discriminant((*_1))" in s for s in stmts):
            continue
        m = re.match(r"switchInt\((?:move|copy) _\d+\) -> \[(.*)\]", term)
        if not m:
            continue
        table = {}
        arms = split_top(m.group(1))
        named_targets = set()
        for a in arms:
            k, bb = [x.strip() for x in a.split(":")]
            if k == "otherwise":
                continue
            nm = first_str_const(f, bb)
            if nm is not None:
                table[int(k)] = nm
                named_targets.add(bb)
        # `otherwise` may stand for the last variant
        for a in arms:
            k, bb = [x.strip() for x in a.split(":")]
            if k == "otherwise" and bb not in named_targets:
                nm = first_str_const(f, bb)
                if nm is not None:
                    missing = [d for d in range(len(table) + 1) if d not in table]
                    if len(missing) == 1:
                        table[missing[0]] = nm
        if table:
            return table
    return None


def first_str_const(f, bb):
    seen = set()
    while bb and bb not in seen:
        seen.add(bb)
        stmts, term, _ = f.blocks[bb]
        for s in stmts + [term]:
            m = re.search(r'const "([A-Za-z0-9_]+)"', s)
            if m:
                return m.group(1)
        m = re.match(r"goto -> (bb\d+)", term)
        bb = m.group(1) if m else None
    return None


def strip_generics(t):
    out, d = [], 0
    for c in t:
        if c == "<":
            d += 1
        elif c == ">":
            d -= 1
        elif d == 0:
            out.append(c)
    return "".join(out).replace("::::", "::")
