"""C24, handshake part: pallas_network2::protocol::handshake::State::apply vs the specification table.
States and messages own HashMap version tables, which Kani cannot construct; the transition function itself is a
discriminant switch plus clones, executed here on its MIR (payloads opaque, Clone = equal value)."""
import z3
import mir, sym, smt, models

BOUNDS = ["all (state, message) discriminant pairs of the handshake state machine; payloads opaque"]
OUTSIDE = ["the other seven P2P protocols (decided by the Kani harnesses c24_*)"]
ASSUMPTIONS = ["Clone::clone returns a value equal to its argument"]
SPEC = {("Propose", "Propose"): ("Confirm", None), ("Confirm", "Accept"): ("Done", "Accepted"),
        ("Confirm", "Refuse"): ("Done", "Rejected"), ("Confirm", "QueryReply"): ("Done", "QueryReply")}


def run(ctx):
    funcs = ctx.mir("pallas-network2")
    st = mir.variant_names(funcs, "handshake::State")
    mg = mir.variant_names(funcs, "handshake::Message")
    dn = mir.variant_names(funcs, "handshake::DoneState") or mir.variant_names(funcs, "DoneState")
    problems, queries = [], []
    if not (st and mg and dn):
        return [], [f"variant tables not found: State={st} Message={mg} DoneState={dn}"], {}
    sti, mgi, dni = ({v: k for k, v in t.items()} for t in (st, mg, dn))
    cands = [f for n, f in funcs.items() if "handshake::<impl at " in n and n.endswith("::apply") and f.args and "State" in f.args[0][1]]
    if len(cands) != 1:
        return [], [f"handshake State::apply found {len(cands)} times"], {}
    fn = cands[0]
    sd, md = z3.BitVec("sd", 64), z3.BitVec("md", 64)
    ex = sym.Executor(funcs, models=models.STANDARD, inline=lambda c, f: False, max_visits=2, variant_index=ctx.variant_index(funcs))
    objs = {"H:s": sym.VAdt("State", sd, {}, uid="state"), "H:m": sym.VAdt("Message", md, {}, uid="msg")}
    paths = ex.run(fn, [sym.VRef("H:s"), sym.VRef("H:m")], objs=objs)
    ctx.encoded |= ex.encoded
    dom = [z3.ULT(sd, len(st)), z3.ULT(md, len(mg))]
    allowed = z3.Or([z3.And(sd == sti[s], md == mgi[m]) for (s, m) in SPEC])
    oks = []
    for i, p in enumerate(paths):
        if p.outcome[0] != "return":
            problems.append(f"path {i}: {p.outcome}")
            continue
        r = p.ret
        pc = z3.And(p.cond) if p.cond else z3.BoolVal(True)
        is_ok = z3.simplify(r.discr == 0)
        if z3.is_true(is_ok):
            oks.append(pc)
            ns = r.fields.get(("Ok", "0"))
            # next state and carried payload as prescribed
            conds = []
            for (s, m), (nxt, done) in SPEC.items():
                here = z3.And(sd == sti[s], md == mgi[m])
                good = ns.discr == sti[nxt]
                if done is not None:
                    inner = ns.fields.get(("Done", "0"))
                    good = z3.And(good, inner.discr == dni[done]) if isinstance(inner, sym.VAdt) and inner.discr is not None else z3.BoolVal(False)
                conds.append(z3.Implies(here, good))
            queries.append(smt.Query(f"c24hs_path{i}_next_state_as_prescribed", dom + [pc, z3.Not(z3.And(conds))], meta={"kind": "next", "sd": sd, "md": md, "st": st, "mg": mg}))
            # payload: the data carried by the next state is the message's data (clone)
            payload_ok = carried_from_message(ns, p)
            if not payload_ok:
                problems.append(f"path {i}: next state does not carry the message payload: {ns!r}")
    impl_ok = z3.Or(oks) if oks else z3.BoolVal(False)
    queries.append(smt.Query("c24hs_apply_ok_iff_spec_allows", dom + [impl_ok != allowed], meta={"kind": "accept", "sd": sd, "md": md, "st": st, "mg": mg, "impl": impl_ok}))
    queries.append(smt.Query("c24hs_apply_ok_iff_spec_allows_witness", dom + [impl_ok], expect="sat", meta={"witness": True}))
    return queries, problems, {}


def carried_from_message(ns, path):
    """every opaque leaf reachable in the next state must be a field of the message object (uid prefix 'msg')"""
    leaves = []

    def walk(v):
        if isinstance(v, sym.VAdt):
            for f in v.fields.values():
                walk(f)
        elif isinstance(v, sym.VUnknown):
            leaves.append(v.uid)
        elif isinstance(v, sym.VInt):
            leaves.append(str(v.e))
    walk(ns)
    return all(u.startswith("msg") for u in leaves) and len(leaves) >= 1


def explain(q):
    m, meta = q.model, q.meta
    s = meta["st"].get(m.eval(meta["sd"], model_completion=True).as_long())
    g = meta["mg"].get(m.eval(meta["md"], model_completion=True).as_long())
    if meta["kind"] == "accept":
        impl = z3.is_true(m.eval(meta["impl"], model_completion=True))
        return {"what": f"handshake State::apply {'accepts' if impl else 'refuses'} {g} in state {s} against the specification", "state": s, "message": g}
    return {"what": f"handshake State::apply yields the wrong next state for {g} in state {s}", "state": s, "message": g}
