"""C30, per-index transaction assembly: MIR of pallas_traverse::support::{alonzo,babbage,conway}_clone_tx_at
(the `clone_tx_fn!` instances behind MultiEraBlock::txs()).  The block's four collections are opaque (Vec/BTreeMap
plug-in: an element is identified by (collection, index/key)), the two closures are executed from their own MIR.
Decided for a symbolic index i: a transaction is returned iff i < len(bodies) and i < len(witness sets); it consists of
a clone of bodies[i], a clone of witness_sets[i]; success == !(invalid_transactions is Some(v) && v.contains(i as u32));
auxiliary data is a clone of the map entry whose key equals i (as u32), and an entry with that key is never skipped."""
import copy, re, z3
import mir, sym, smt, models, native

BOUNDS = ["symbolic index (usize) and arbitrary collections (opaque, any length); loop-free bodies"]
OUTSIDE = ["Vec / slice / BTreeMap / Option library functions are modelled (trusted table below), not executed",
           "MultiEraBlock::txs() iterating 0..len and collecting (filter_map over the per-index function)",
           "decoding of real blocks; `index as u32` truncation for indices >= 2^32"]
ASSUMPTIONS = ["slice::get(i) is Some(&s[i]) iff i < len; Option::{cloned, as_ref, map, unwrap_or}, Try for Option and Clone behave as in core",
               "Iterator::find_map over BTreeMap::iter returns f(k,v) for some entry with f(k,v) = Some(..), or None; it returns None only if no entry matches",
               "Nullable::from(Option): Some(x) -> Nullable::Some(x), None -> Nullable::Null (pallas-codec)"]

U = z3.DeclareSort("Elem")
CONTAINS = z3.Function("slice_contains_u32", z3.IntSort(), z3.BitVecSort(32), z3.BoolSort())
MEMBER = z3.Function("map_has_key_u32", z3.IntSort(), z3.BitVecSort(32), z3.BoolSort())
_ids = {}


def cid(name):
    return z3.IntVal(_ids.setdefault(name, len(_ids) + 1))


def locname(ref):
    s = str(ref.obj)
    for pr in ref.proj:
        if pr[0] == "field":
            s += "." + (pr[2] + "." if pr[2] else "") + str(pr[1])
        else:
            s += "[" + str(pr[1]) + "]"
    return s


def follow(ex, path, v, n=4):
    """follow references to the collection object; returns (last ref, value)"""
    last = None
    k = 0
    while isinstance(v, sym.VRef) and k < n:
        last = v
        v = ex.read_loc(path, v.obj, v.proj)
        k += 1
        if not isinstance(v, sym.VRef):
            break
    return last, v


def term(v):
    if isinstance(v, sym.VUnknown):
        return z3.Const("e:" + v.uid, U)
    if isinstance(v, sym.VAdt) and not v.fields and v.uid:
        return z3.Const("e:" + v.uid, U)
    return z3.Const("e:!" + repr(v)[:60], U)


def subrun(ex, path, func, args):
    """execute a closure body on the current path state; returns [(path, ret)]"""
    p2 = path.clone()
    saved = p2.frames
    p2.frames = []
    sub = sym.Executor(ex.funcs, models=ex.models, inline=ex.inline, max_visits=ex.max_visits, variant_index=ex.variant_index)
    out = []
    for fp in sub.run(func, args, path=p2):
        if fp.outcome[0] != "return":
            raise sym.Stop(f"closure {func.name}: {fp.outcome}")
        fp.frames = [dict(f) for f in saved]
        fp.outcome = None
        out.append((fp, fp.ret))
    ex.encoded |= sub.encoded
    return out


def closure_fn(ex, callee, frame):
    m = re.search(r"(\{closure@[^}]*\})", callee)
    if not m:
        return None
    pre = frame["func"].name + "::{closure#"
    c = [f for n, f in ex.funcs.items() if n.startswith(pre) and f.args and m.group(1) in f.args[0][1]]
    return c[0] if len(c) == 1 else None


def m_identity(ex, path, frame, callee, argv, argty, dest_ty):
    return [(path, argv[0])]


def m_slice_get(ex, path, frame, callee, argv, argty, dest_ty):
    ref, _ = follow(ex, path, argv[0], 1)
    if ref is None:
        ref = argv[0]
    name = locname(ref)
    i = ex.as_int(argv[1], "usize").e
    ln = z3.BitVec("len:" + name, 64)
    key = f"elem:{name}[{z3.simplify(i)}]"
    if key not in path.objs:
        path.objs[key] = sym.VUnknown(key)
    opt = sym.VAdt("Option", z3.If(z3.ULT(i, ln), z3.BitVecVal(1, 64), z3.BitVecVal(0, 64)), {("Some", "0"): sym.VRef(key)}, uid=ex.fresh_uid(path, "get"))
    path.events.append(("get", name, i, ln))
    return [(path, opt)]


def m_opt_cloned(ex, path, frame, callee, argv, argty, dest_ty):
    o = argv[0]
    if isinstance(o, sym.VUnknown):
        o = ex.as_adt(o, None, True)
    pl = o.fields.get(("Some", "0"))
    _, v = follow(ex, path, pl, 1) if isinstance(pl, sym.VRef) else (None, pl)
    return [(path, sym.VAdt("Option", o.discr, {("Some", "0"): copy.deepcopy(v)}, uid=ex.fresh_uid(path, "cloned")))]


def m_opt_branch(ex, path, frame, callee, argv, argty, dest_ty):
    o = argv[0]
    if isinstance(o, sym.VUnknown):
        o = ex.as_adt(o, None, True)
    out = []
    for d in (1, 0):
        c = z3.simplify(o.discr == d)
        if z3.is_false(c) or not ex.feasible(path, c):
            continue
        p2 = path.clone()
        if not z3.is_true(c):
            p2.cond.append(c)
        if d == 1:
            v = sym.VAdt("ControlFlow", z3.BitVecVal(0, 64), {("Continue", "0"): copy.deepcopy(o.fields.get(("Some", "0")))}, uid=ex.fresh_uid(p2, "cf"))
        else:
            v = sym.VAdt("ControlFlow", z3.BitVecVal(1, 64), {("Break", "0"): sym.VAdt("Option", z3.BitVecVal(0, 64), {}, uid="none")}, uid=ex.fresh_uid(p2, "cf"))
        out.append((p2, v))
    return out


def m_opt_residual(ex, path, frame, callee, argv, argty, dest_ty):
    return [(path, sym.VAdt("Option", z3.BitVecVal(0, 64), {}, uid=ex.fresh_uid(path, "none")))]


def m_opt_as_ref(ex, path, frame, callee, argv, argty, dest_ty):
    r = argv[0]
    if not isinstance(r, sym.VRef):
        return None
    o = ex.read_loc(path, r.obj, r.proj)
    o2 = ex.as_adt(o, None, True)
    if o2 is not o:
        ex._store(path, r.obj, r.proj, o2)
    inner = sym.VRef(r.obj, tuple(r.proj) + (("field", "0", "Some", None),))
    return [(path, sym.VAdt("Option", o2.discr, {("Some", "0"): inner}, uid=ex.fresh_uid(path, "asref")))]


def m_opt_map(ex, path, frame, callee, argv, argty, dest_ty):
    o, cl = argv[0], argv[1]
    f = closure_fn(ex, callee, frame)
    if f is None or not isinstance(o, sym.VAdt):
        return None
    out = []
    cn = z3.simplify(o.discr == 0)
    if not z3.is_false(cn) and ex.feasible(path, cn):
        p0 = path.clone()
        if not z3.is_true(cn):
            p0.cond.append(cn)
        out.append((p0, sym.VAdt("Option", z3.BitVecVal(0, 64), {}, uid=ex.fresh_uid(p0, "none"))))
    cs = z3.simplify(o.discr == 1)
    if not z3.is_false(cs) and ex.feasible(path, cs):
        p1 = path.clone()
        if not z3.is_true(cs):
            p1.cond.append(cs)
        for p2, rv in subrun(ex, p1, f, [cl, copy.deepcopy(o.fields.get(("Some", "0")))]):
            out.append((p2, sym.VAdt("Option", z3.BitVecVal(1, 64), {("Some", "0"): rv}, uid=ex.fresh_uid(p2, "mapped"))))
    return out


def m_unwrap_or_bool(ex, path, frame, callee, argv, argty, dest_ty):
    o, d = argv[0], argv[1]
    pl = o.fields.get(("Some", "0"))
    pe = ex.as_bool(pl).e if pl is not None else z3.BoolVal(False)
    return [(path, sym.VBool(z3.If(o.discr == 1, pe, ex.as_bool(d).e)))]


def m_contains(ex, path, frame, callee, argv, argty, dest_ty):
    ref, _ = follow(ex, path, argv[0], 1)
    if ref is None:
        ref = argv[0]
    _, v = follow(ex, path, argv[1], 2)
    e = ex.as_int(v, "u32").e
    path.events.append(("contains", locname(ref), e))
    return [(path, sym.VBool(CONTAINS(cid(locname(ref)), e)))]


def m_int_eq(neg):
    def f(ex, path, frame, callee, argv, argty, dest_ty):
        vs = []
        for a in argv[:2]:
            _, v = follow(ex, path, a, 3)
            m = re.match(r"^<([ui]\d+|usize|isize) as", callee)
            vs.append(ex.as_int(v, m.group(1)).e)
        e = vs[0] == vs[1]
        return [(path, sym.VBool(z3.Not(e) if neg else e))]
    return f


def m_btree_iter(ex, path, frame, callee, argv, argty, dest_ty):
    return [(path, sym.VAdt("btree_iter", None, {(None, "0"): argv[0]}, uid=ex.fresh_uid(path, "iter")))]


def m_find_map(ex, path, frame, callee, argv, argty, dest_ty):
    _, it = follow(ex, path, argv[0], 1)
    f = closure_fn(ex, callee, frame)
    if f is None or not isinstance(it, sym.VAdt):
        return None
    mref = it.fields.get((None, "0"))
    name = locname(mref)
    n = path.counter.get("fm", 0)
    path.counter["fm"] = n + 1
    k = z3.BitVec(f"k*{n}", 32)
    kobj, vobj, cobj = f"mapkey:{name}#{n}", f"mapval:{name}[k*{n}]", f"closure-env#{n}"
    path.objs[kobj] = sym.VInt(k)
    path.objs[vobj] = sym.VUnknown(vobj)
    path.objs[cobj] = argv[1]
    out = []
    pn = path.clone()
    pn.events.append(("find_map_none", name))
    out.append((pn, sym.VAdt("Option", z3.BitVecVal(0, 64), {}, uid=ex.fresh_uid(pn, "none"))))
    tup = sym.VAdt(None, None, {(None, "0"): sym.VRef(kobj), (None, "1"): sym.VRef(vobj)}, uid=ex.fresh_uid(path, "kv"))
    for p2, rv in subrun(ex, path, f, [sym.VRef(cobj), tup]):
        if isinstance(rv, sym.VAdt) and rv.discr is not None:
            c = z3.simplify(rv.discr == 1)
            if z3.is_false(c):
                continue
            p2.cond.append(MEMBER(cid(name), k))
            if not z3.is_true(c):
                p2.cond.append(c)
            p2.events.append(("find_map_some", name, k, vobj))
            out.append((p2, rv))
    return out


def m_into_nullable(ex, path, frame, callee, argv, argty, dest_ty):
    o = argv[0]
    d = z3.If(o.discr == 1, z3.BitVecVal(0, 64), z3.BitVecVal(1, 64))
    return [(path, sym.VAdt("Nullable", d, {("Some", "0"): copy.deepcopy(o.fields.get(("Some", "0")))}, uid=ex.fresh_uid(path, "nullable")))]


MODELS = [
    (r"^<Vec<.*> as Deref>::deref$", m_identity),
    (r"^core::slice::<impl \[.*\]>::get::<usize>$", m_slice_get),
    (r"Option::<&.*>::cloned$", m_opt_cloned),
    (r"^<(std::option::)?Option<.*> as Try>::branch$", m_opt_branch),
    (r"^<(std::option::)?Option<.*> as FromResidual<.*>>::from_residual$", m_opt_residual),
    (r"Option::<.*>::as_ref$", m_opt_as_ref),
    (r"Option::<.*>::map::<.*>$", m_opt_map),
    (r"Option::<bool>::unwrap_or$", m_unwrap_or_bool),
    (r"^core::slice::<impl \[u32\]>::contains$", m_contains),
    (r"^<(u32|u64|usize) as PartialEq>::eq$", m_int_eq(False)),
    (r"^<(u32|u64|usize) as PartialEq>::ne$", m_int_eq(True)),
    (r"^BTreeMap::<.*>::iter$", m_btree_iter),
    (r"as Iterator>::find_map::<.*>$", m_find_map),
    (r"^<(std::option::)?Option<.*> as Into<Nullable<.*>>>::into$", m_into_nullable),
] + models.STANDARD


def run(ctx):
    funcs = ctx.mir("pallas-traverse")
    queries, problems = [], []
    for era in ("alonzo", "babbage", "conway"):
        fn = funcs.get(f"{era}_clone_tx_at")
        if fn is None:
            problems.append(f"{era}_clone_tx_at not found")
            continue
        idx = z3.BitVec("idx", 64)
        ex = sym.Executor(funcs, models=MODELS, inline=lambda c, f: False, max_visits=2, variant_index=ctx.variant_index(funcs))
        objs = {"H:blk": sym.VUnknown("blk", fn.args[0][1])}
        try:
            paths = ex.run(fn, [sym.VRef("H:blk"), sym.VInt(idx)], objs=objs)
        except sym.Stop as e:
            problems.append(f"{era}: {e}")
            continue
        ctx.encoded |= ex.encoded
        bad = [u for u in ex.uninterpreted if not re.search(r"drop|fmt", u)]
        if bad:
            problems.append(f"{era}: calls left uninterpreted: {sorted(bad)}")
        i32 = z3.Extract(31, 0, idx)
        lb, lw = z3.BitVec("len:H:blk.1", 64), z3.BitVec("len:H:blk.2", 64)
        nsome = 0
        for i, p in enumerate(paths):
            if p.outcome[0] == "panic":
                continue
            if p.outcome[0] != "return":
                problems.append(f"{era}: path {i}: {p.outcome}")
                continue
            r, cond = p.ret, list(p.cond)
            if not isinstance(r, sym.VAdt) or r.discr is None:
                problems.append(f"{era}: path {i}: returns {r!r}")
                continue
            d = z3.simplify(r.discr)
            meta = {"era": era, "path": i, "idx": idx}
            if z3.is_bv_value(d) and d.as_long() == 0:
                queries.append(smt.Query(f"c30_{era}_path{i}_none_only_if_index_out_of_range", cond + [z3.ULT(idx, lb), z3.ULT(idx, lw)], meta=dict(meta, what="None is returned although the index is within both collections")))
                continue
            nsome += 1
            tx = r.fields.get(("Some", "0"))
            body, wit, succ, aux = (tx.fields.get((None, str(k))) for k in range(4))
            queries.append(smt.Query(f"c30_{era}_path{i}_some_only_if_index_in_range", cond + [z3.Not(z3.And(z3.ULT(idx, lb), z3.ULT(idx, lw)))], meta=dict(meta, what="a transaction is returned for an index outside the bodies / witness sets")))
            queries.append(smt.Query(f"c30_{era}_path{i}_body_is_bodies_i", cond + [term(body) != z3.Const(f"e:elem:H:blk.1[{z3.simplify(idx)}]", U)], meta=dict(meta, what="the transaction body is not a clone of transaction_bodies[i]")))
            queries.append(smt.Query(f"c30_{era}_path{i}_witness_is_witness_sets_i", cond + [term(wit) != z3.Const(f"e:elem:H:blk.2[{z3.simplify(idx)}]", U)], meta=dict(meta, what="the witness set is not a clone of transaction_witness_sets[i]")))
            inv = p.objs["H:blk"]
            try:
                inv_opt = ex.read_loc(p, "H:blk", (("field", "4", None, None),))
                inv_some = inv_opt.discr == 1 if isinstance(inv_opt, sym.VAdt) and inv_opt.discr is not None else z3.BoolVal(False)
            except Exception:
                inv_some = z3.BoolVal(False)
            want = z3.Not(z3.And(inv_some, CONTAINS(cid("H:blk.4.Some.0"), i32)))
            queries.append(smt.Query(f"c30_{era}_path{i}_success_iff_not_listed_invalid", cond + [ex.as_bool(succ).e != want], meta=dict(meta, what="`success` differs from !(invalid_transactions contains i)")))
            fm = [e for e in p.events if e[0] == "find_map_some"]
            if fm:
                _, name, k, vobj = fm[-1]
                ok = z3.And(aux.discr == 0, term(aux.fields.get(("Some", "0"))) == z3.Const("e:" + vobj, U), k == i32, name == "H:blk.3")
                queries.append(smt.Query(f"c30_{era}_path{i}_aux_is_entry_keyed_i", cond + [z3.Not(ok)], meta=dict(meta, what="auxiliary data is not the auxiliary_data_set entry whose key equals i")))
            else:
                queries.append(smt.Query(f"c30_{era}_path{i}_no_aux_is_null", cond + [aux.discr != 1], meta=dict(meta, what="absent auxiliary data is not Nullable::Null")))
        if nsome == 0:
            problems.append(f"{era}: no path returns a transaction")
        # closure lemma: an entry whose key equals i is never skipped by the find_map predicate
        cl = funcs.get(f"{era}_clone_tx_at::{{closure#1}}")
        if cl is None:
            problems.append(f"{era}: find_map closure not found")
        else:
            ex2 = sym.Executor(funcs, models=MODELS, inline=lambda c, f: False, max_visits=2, variant_index=ctx.variant_index(funcs))
            env = sym.VAdt("closure", None, {(None, "0"): sym.VRef("H:i")}, uid="env")
            kv = sym.VAdt(None, None, {(None, "0"): sym.VRef("H:k"), (None, "1"): sym.VRef("H:v")}, uid="kv")
            ps = ex2.run(cl, [sym.VRef("H:env"), kv], objs={"H:i": sym.VInt(idx), "H:k": sym.VInt(i32), "H:v": sym.VUnknown("theval"), "H:env": env})
            ctx.encoded |= ex2.encoded
            for j, p in enumerate(ps):
                if p.outcome[0] == "return" and isinstance(p.ret, sym.VAdt):
                    queries.append(smt.Query(f"c30_{era}_closure_path{j}_entry_with_key_i_matches", list(p.cond) + [p.ret.discr != 1], meta={"era": era, "path": j, "idx": idx, "what": "the entry keyed i is skipped by the auxiliary-data lookup"}))
        queries.append(smt.Query(f"c30_{era}_reachable_witness", [z3.ULT(idx, lb)], expect="sat", meta={"witness": True}))
    return queries, problems, {}


def explain(q):
    m = q.meta
    i = q.model.eval(m["idx"], model_completion=True).as_long()
    return {"what": f"{m['era']}_clone_tx_at(block, {i}): {m['what']}", "era": m["era"], "index": i}


def replay(ctx, q, ex):
    """the counterexample classes (wrong body/witness index, validity flag, auxiliary-data key) are exercised natively on
    decoded fixture blocks with a sparse auxiliary-data map and an invalid-transaction list, through MultiEraBlock::txs()"""
    ok, path = native.run_test("c30", "c30_" + ex["era"], ctx.outdir)
    return bool(ok), path
