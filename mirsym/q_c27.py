"""C27 (set-consistency half): one inductive step of PromotionBehavior over a universe of N peers.
Arbitrary pre-state satisfying the invariant (cold/warm/hot/banned pairwise disjoint, sizes within the
configured limits), one call of on_peer_discovered / categorize_peer / ban_peer / demote_peer with an
arbitrary peer and an arbitrary InitiatorState: the invariant holds afterwards, banned peers stay banned and
out of cold/warm/hot, and no `max - len` subtraction underflows (panic)."""
import z3
import mir, sym, smt, models, models_set, native
from models_set import VSet, popcount

BOUNDS = []
OUTSIDE = ["the Connect-emission half of the property (InitiatorBehavior: HashMap<PeerId,_> + FuturesUnordered)",
           "tracing / metrics calls are uninterpreted (they receive no mutable access to the peer sets)"]
ASSUMPTIONS = ["HashSet<PeerId> behaves as a mathematical set (bit-mask model over the peer universe)",
               "demote_peer is applied to a tracked peer (member of cold, warm, hot or banned); the initiator itself never calls demote_peer"]


def run(ctx):
    n = 3 if ctx.tier == "quick" else 4
    models_set.N = n
    BOUNDS[:] = [f"peer universe of {n} peers; limits max_peers/max_warm/max_hot arbitrary usize; one step from an arbitrary invariant-satisfying state (inductive: covers histories of any length)"]
    funcs = ctx.mir("pallas-network2")
    allm = models_set.MODELS + models.STANDARD
    own = lambda callee, f: "promotion::<impl at " in f.name and "{closure" not in f.name and not f.name.endswith("update_metrics")
    queries, problems = [], []
    cold, warm, hot, ban = [z3.BitVec(x, n) for x in ("cold", "warm", "hot", "banned")]
    mp, mw, mh = [z3.BitVec(x, 64) for x in ("max_peers", "max_warm", "max_hot")]
    mec = z3.BitVec("max_error_count", 32)
    pid = z3.BitVec("pid", 8)

    def inv(c, w, h, b):
        disj = z3.And(c & w == 0, c & h == 0, c & b == 0, w & h == 0, w & b == 0, h & b == 0)
        tot = popcount(c) + popcount(w) + popcount(h)
        return z3.And(disj, z3.ULE(tot, mp), z3.ULE(popcount(w), mw), z3.ULE(popcount(h), mh))

    pre = [inv(cold, warm, hot, ban), z3.ULT(pid, n)]

    def promo():
        cfg = sym.VAdt("PromotionConfig", None, {(None, "0"): sym.VInt(mp), (None, "1"): sym.VInt(mw), (None, "2"): sym.VInt(mh), (None, "3"): sym.VInt(mec)}, uid="cfg")
        return sym.VAdt("PromotionBehavior", None, {(None, "0"): cfg, (None, "1"): VSet(cold), (None, "2"): VSet(warm), (None, "3"): VSet(hot), (None, "4"): VSet(ban)}, uid="promo")

    for method, extra_pre in (("on_peer_discovered", []), ("categorize_peer", []), ("ban_peer", []),
                              ("demote_peer", [((cold | warm | hot | ban) & models_set.bit(pid)) != 0])):
        cands = [f for nme, f in funcs.items() if "promotion::<impl at " in nme and nme.endswith("::" + method)]
        if len(cands) != 1:
            problems.append(f"{method}: found {len(cands)}")
            continue
        ex = sym.Executor(funcs, models=allm, inline=own, max_visits=3, max_paths=20000, variant_index=ctx.variant_index(funcs))
        objs = {"H:promo": promo(), "H:pid": sym.VInt(pid), "H:st": sym.VUnknown("peer_state", "InitiatorState")}
        try:
            paths = ex.run(cands[0], [sym.VRef("H:promo"), sym.VRef("H:pid"), sym.VRef("H:st")], objs=objs)
        except sym.Stop as e:
            problems.append(f"{method}: {e}")
            continue
        ctx.encoded |= ex.encoded
        leaked = [u for u in ex.uninterpreted if "HashSet" in u or "PeerId as" in u]
        if leaked:
            problems.append(f"{method}: set operations left uninterpreted: {sorted(leaked)}")
        # merge paths by their effect on the sets to keep the number of queries small
        post_bad, panics, nret = [], [], 0
        for i, p in enumerate(paths):
            pc = z3.And(p.cond) if p.cond else z3.BoolVal(True)
            if p.outcome[0] == "panic":
                if "overflow" in p.outcome[1] or "assert" in p.outcome[1]:
                    panics.append(pc)
                continue
            if p.outcome[0] != "return":
                problems.append(f"{method}: path {i}: {p.outcome}")
                continue
            nret += 1
            pr = p.objs["H:promo"]
            try:
                c2, w2, h2, b2 = [pr.fields[(None, str(k))].mask for k in (1, 2, 3, 4)]
            except Exception as e:
                problems.append(f"{method}: path {i}: sets not recoverable ({e})")
                continue
            good = z3.And(inv(c2, w2, h2, b2), b2 & ban == ban)
            post_bad.append(z3.And(pc, z3.Not(good)))
        if nret == 0:
            problems.append(f"{method}: no returning path")
            continue
        meta = {"method": method, "vars": (cold, warm, hot, ban, mp, mw, mh, pid), "n": n}
        queries.append(smt.Query(f"c27_{method}_preserves_invariant", pre + extra_pre + [z3.Or(post_bad)], meta=dict(meta, kind="inv")))
        queries.append(smt.Query(f"c27_{method}_no_underflow_panic", pre + extra_pre + [z3.Or(panics) if panics else z3.BoolVal(False)], meta=dict(meta, kind="panic")))
        queries.append(smt.Query(f"c27_{method}_preserves_invariant_witness", pre + extra_pre, expect="sat", meta={"witness": True}))
    return queries, problems, {}


def explain(q):
    m, meta = q.model, q.meta
    cold, warm, hot, ban, mp, mw, mh, pid = meta["vars"]
    ev = lambda v: m.eval(v, model_completion=True).as_long()
    n = meta["n"]
    sets = {nm: [i for i in range(n) if (ev(v) >> i) & 1] for nm, v in (("cold", cold), ("warm", warm), ("hot", hot), ("banned", ban))}
    what = ("the peer-set invariant (disjoint sets within limits, banned stays banned) breaks" if meta["kind"] == "inv" else "a `max - len` subtraction underflows (panic)")
    return {"what": f"PromotionBehavior::{meta['method']}: {what} from a state satisfying it", "method": meta["method"], "pid": ev(pid), "sets": sets,
            "limits": {"max_peers": ev(mp), "max_warm": ev(mw), "max_hot": ev(mh)}, "kind": meta["kind"]}


def replay(ctx, q, ex):
    import json
    ok, path = native.run_test("c27", None, ctx.outdir, {"C27_CASE": json.dumps(ex)})
    return bool(ok), path
