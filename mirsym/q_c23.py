"""C23: guard tables of the original-stack agents vs the specification tables.
For each protocol and role, the MIR of has_agency / assert_agency_is_ours / assert_agency_is_theirs /
assert_outbound_state / assert_inbound_state is executed on a symbolic (state, message) pair of
discriminants; `accepts to send` and `accepts to receive` must equal the spec relation."""
import json, os, z3
import mir, sym, smt, native

SPEC = os.path.join(os.path.dirname(os.path.dirname(os.path.abspath(__file__))), "spec", "n2_protocols.json")


def find_fn(funcs, module, role, name):
    pre = f"{module}::{role}::<impl at "
    c = [f for n, f in funcs.items() if n.endswith("::" + name) and (n.startswith(pre) or ("::" + pre) in n)]
    c = [f for f in c if f.args and ("Client" in f.args[0][1] or "Server" in f.args[0][1])]
    return c[0] if len(c) == 1 else None


def guard_formula(ex, funcs, fn, sd, md, with_msg):
    """Or of the path conditions under which fn returns Ok"""
    st = sym.VAdt("State", sd, {}, uid="st")  # tuple structs keep the state in .0, localtxsubmission in .state
    objs = {"H:self": sym.VAdt("Agent", None, {(None, "0"): st, (None, "state"): st}, uid="self"),
            "H:msg": sym.VAdt("Message", md, {}, uid="msg")}
    args = [sym.VRef("H:self")] + ([sym.VRef("H:msg")] if with_msg else [])
    paths = ex.run(fn, args, objs=objs)
    oks, problems = [], []
    for p in paths:
        if p.outcome[0] != "return":
            problems.append(f"{fn.name}: {p.outcome}")
            continue
        if p.notes and False:
            problems.append(str(p.notes))
        r = p.ret
        if not isinstance(r, sym.VAdt) or r.discr is None:
            problems.append(f"{fn.name}: unexpected return {r!r}")
            continue
        c = z3.And(p.cond) if p.cond else z3.BoolVal(True)
        oks.append(z3.And(c, r.discr == 0))
    return (z3.Or(oks) if oks else z3.BoolVal(False)), problems, len(paths)


def run(ctx):
    funcs = ctx.mir("pallas-network")
    spec = json.load(open(SPEC))
    queries, samples, problems = [], [], []
    nfun = 0
    for proto, sp in spec.items():
        if proto.startswith("_"):
            continue
        mod = sp["module"]
        st_names = mir.variant_names(funcs, f"{mod}::protocol::State")
        mg_names = mir.variant_names(funcs, f"{mod}::protocol::Message")
        if not st_names or not mg_names:
            problems.append(f"{proto}: no discriminant tables (Debug impl) found")
            continue
        st_idx = {v: k for k, v in st_names.items()}
        mg_idx = {v: k for k, v in mg_names.items()}
        for s in sp["states"]:
            if s not in st_idx:
                problems.append(f"{proto}: spec state {s} not an enum variant {st_names}")
        for (s, m, n) in sp["transitions"]:
            if m not in mg_idx:
                problems.append(f"{proto}: spec message {m} not an enum variant {mg_names}")
        for role, me in (("client", "C"), ("server", "S")):
            fns = {n: find_fn(funcs, mod, role, n) for n in ("assert_agency_is_ours", "assert_agency_is_theirs", "assert_outbound_state", "assert_inbound_state")}
            if all(v is None for v in fns.values()):
                if not (proto == "txmonitor" and role == "server"):
                    problems.append(f"{proto}/{role}: guard functions not found")
                continue
            if any(v is None for v in fns.values()):
                problems.append(f"{proto}/{role}: some guard functions not found: {[k for k, v in fns.items() if v is None]}")
                continue
            sd, md = z3.BitVec("sd", 64), z3.BitVec("md", 64)
            ex = sym.Executor(funcs, inline=lambda callee, f: f.name.endswith("::has_agency") or f.name.endswith("::state"),
                              variant_index=ctx.variant_index(funcs))
            g = {}
            for n, f in fns.items():
                g[n], pr, np_ = guard_formula(ex, funcs, f, sd, md, n.endswith("_state"))
                problems += pr
                nfun += 1
            ctx.encoded |= ex.encoded
            send_impl = z3.And(g["assert_agency_is_ours"], g["assert_outbound_state"])
            recv_impl = z3.And(g["assert_agency_is_theirs"], g["assert_inbound_state"])
            dom = z3.And(z3.ULT(sd, len(st_names)), z3.ULT(md, len(mg_names)))
            other = "S" if me == "C" else "C"
            send_spec = z3.Or([z3.And(sd == st_idx[s], md == mg_idx[m]) for (s, m, n) in sp["transitions"] if sp["states"][s] == me and s in st_idx and m in mg_idx] or [z3.BoolVal(False)])
            recv_spec = z3.Or([z3.And(sd == st_idx[s], md == mg_idx[m]) for (s, m, n) in sp["transitions"] if sp["states"][s] == other and s in st_idx and m in mg_idx] or [z3.BoolVal(False)])
            for dirn, impl, spc in (("send", send_impl, send_spec), ("recv", recv_impl, recv_spec)):
                q = smt.Query(f"c23_{proto}_{role}_{dirn}", [dom, impl != spc],
                              meta={"proto": proto, "role": role, "dir": dirn, "impl": impl, "spec": spc, "sd": sd, "md": md,
                                    "st_names": st_names, "mg_names": mg_names})
                queries.append(q)
                # reachability witness: the implementation accepts at least one pair (non-vacuous)
                queries.append(smt.Query(f"c23_{proto}_{role}_{dirn}_witness", [dom, impl], expect="sat", meta={"witness": True}))
    return queries, problems, {"functions": nfun}


def explain(q):
    m, meta = q.model, q.meta
    s = m.eval(meta["sd"], model_completion=True).as_long()
    g = m.eval(meta["md"], model_completion=True).as_long()
    impl = z3.is_true(m.eval(meta["impl"], model_completion=True))
    sn, gn = meta["st_names"].get(s, s), meta["mg_names"].get(g, g)
    verb = "accepts" if impl else "refuses"
    must = "forbids" if impl else "allows"
    return {"protocol": meta["proto"], "role": meta["role"], "direction": meta["dir"], "state": sn, "message": gn,
            "impl_accepts": impl, "what": f"{meta['proto']} {meta['role']} {verb} to {meta['dir']} {gn} in state {sn} but the specification {must} it"}


def replay(ctx, q, ex):
    """native replay through the add-only hook `<Agent>::verif_guards(state, &msg)` (real guard functions)"""
    case = f"{ex['protocol']};{ex['role']};{ex['direction']};{ex['state']};{ex['message']}"
    ok, path = native.run_test("c23", None, ctx.outdir, {"C23_CASE": case})
    return bool(ok), path
