"""Sequencing lemma for C38 (also the skeleton halves of C33/C35/C37): MIR of each era's validate_*_tx with every
check_* callee uninterpreted (symbolic Result): on every path that returns Ok, each rule check of the specification list
(spec/phase1_rules.json) was called and returned Ok -- i.e. no rule result is dropped and no rule is skipped."""
import json, os, re, z3
import mir, sym, smt, models

SPEC = os.path.join(os.path.dirname(os.path.dirname(os.path.abspath(__file__))), "spec", "phase1_rules.json")
BOUNDS = ["loop-free bodies: all paths of validate_{byron,shelley_ma,alonzo,babbage,conway}_tx"]
OUTSIDE = ["what each check_* function itself decides (uninterpreted here; the K harnesses decide the HashMap-free ones)"]
ASSUMPTIONS = ["core's Try / FromResidual for Result; Option::ok_or maps None to Err"]


def ok_or_model(ex, path, frame, callee, argv, argty, dest_ty):
    # Option::<T>::ok_or(opt, err): None -> Err(err), Some(v) -> Ok(v)
    o = argv[0]
    if isinstance(o, sym.VUnknown):
        o = ex.as_adt(o, None, True)
    if not isinstance(o, sym.VAdt) or o.discr is None:
        return None
    r = sym.VAdt("Result", z3.If(o.discr == 1, z3.BitVecVal(0, 64), z3.BitVecVal(1, 64)),
                 {("Ok", "0"): o.fields.get(("Some", "0"), sym.VUnknown((o.uid or "o") + ".Some.0")), ("Err", "0"): argv[1]}, uid=ex.fresh_uid(path, "okor"))
    return [(path, r)]


def run(ctx):
    funcs = ctx.mir("pallas-validate")
    spec = json.load(open(SPEC))
    queries, problems = [], []
    for era, sp in spec.items():
        if era.startswith("_"):
            continue
        cands = [f for n, f in funcs.items() if n.endswith(sp["fn"]) and "{closure" not in n and (n == sp["fn"] or n.endswith("::" + sp["fn"]))]
        if len(cands) != 1:
            problems.append(f"{era}: {sp['fn']} found {len(cands)} times")
            continue
        fn = cands[0]
        ex = sym.Executor(funcs, models=[(r"^Option::<.*>::ok_or::<.*>$", ok_or_model)] + models.STANDARD, inline=lambda c, f: False,
                          max_visits=2, max_paths=5000, variant_index=ctx.variant_index(funcs))
        args = [sym.VUnknown(f"{era}.arg{i}", t) for i, (_, t) in enumerate(fn.args)]
        try:
            paths = ex.run(fn, args)
        except sym.Stop as e:
            problems.append(f"{era}: {e}")
            continue
        ctx.encoded |= ex.encoded
        n_ok = 0
        for i, p in enumerate(paths):
            if p.outcome[0] == "panic":
                continue
            if p.outcome[0] != "return":
                problems.append(f"{era}: path {i}: {p.outcome}")
                continue
            r = p.ret
            if isinstance(r, sym.VUnknown):
                r = ex.as_adt(r, None, True)
            if not isinstance(r, sym.VAdt) or r.discr is None:
                problems.append(f"{era}: path {i}: return {r!r}")
                continue
            calls = [(e[1].split("::")[-1], e[3]) for e in p.events if e[0] == "call" and re.search(r"(^|::)check_\w+$", e[1])]
            cond = list(p.cond) + [r.discr == 0]
            s = z3.Solver()
            s.add(cond)
            if s.check() == z3.unsat:
                continue  # this path cannot return Ok
            n_ok += 1
            called = [c for c, _ in calls]
            for want in sp["checks"]:
                if want not in called:
                    # Ok is reachable on a path that never ran this rule
                    queries.append(smt.Query(f"seq_{era}_{want}_is_called_on_ok_path{i}", cond, meta={"era": era, "check": want, "kind": "skipped"}))
            for cname, uid in calls:
                d = z3.BitVec(uid + ".#d", 64)
                queries.append(smt.Query(f"seq_{era}_{cname}_ok_on_ok_path{i}", cond + [d != 0], meta={"era": era, "check": cname, "kind": "dropped"}))
        if n_ok == 0:
            problems.append(f"{era}: no path can return Ok (vacuous)")
        else:
            queries.append(smt.Query(f"seq_{era}_ok_reachable_witness", [z3.BoolVal(True)], expect="sat", meta={"witness": True}))
    return queries, problems, {}


def explain(q):
    m = q.meta
    if m["kind"] == "skipped":
        return {"what": f"validate_{m['era']}_tx can return Ok on a path that never calls {m['check']}", **{k: m[k] for k in ("era", "check", "kind")}}
    return {"what": f"validate_{m['era']}_tx can return Ok although {m['check']} returned Err (result dropped)", **{k: m[k] for k in ("era", "check", "kind")}}
