"""C08 (what ScriptData::build_for keeps): symbolic execution of the MIR of
pallas_primitives::conway::ScriptData::build_for with the presence of redeemers, of datums and of language views
three free booleans: the result is None iff there are neither redeemers nor datums; when it is Some, redeemers and
datums are present exactly when the witness set has them, and the language views are kept iff redeemers are present
(and views were supplied) -- a datum-only witness set hashes with the empty views map."""
import re, z3
import mir, sym, smt, models, native
import q_c30

BOUNDS = ["presence flags of redeemers / datums / language views: all 8 combinations (symbolic)", "the payloads are opaque values (cloned, never inspected by build_for)"]
OUTSIDE = ["the bytes hashed (ScriptData::hash, LanguageViews encoding: engine K)", "Redeemers::to_owned / KeepRaw::unwrap (payload conversion, uninterpreted)"]
ASSUMPTIONS = ["Option::{as_ref,map,is_some,is_none} and Clone::clone on Option behave as documented (modelled)"]


def m_is(kind):
    def f(ex, path, frame, callee, argv, argty, dest_ty):
        r = argv[0]
        if not isinstance(r, sym.VRef):
            return None
        o = ex.read_loc(path, r.obj, r.proj)
        o2 = ex.as_adt(o, None, True)
        if o2 is not o:
            ex._store(path, r.obj, r.proj, o2)
        if o2.discr is None:
            return None
        return [(path, sym.VBool(o2.discr == (1 if kind else 0)))]
    return f


def m_opt_clone(ex, path, frame, callee, argv, argty, dest_ty):
    import copy
    r = argv[0]
    if not isinstance(r, sym.VRef):
        return None
    o = ex.read_loc(path, r.obj, r.proj)
    o2 = ex.as_adt(o, None, True)
    if o2 is not o:
        ex._store(path, r.obj, r.proj, o2)
    return [(path, copy.deepcopy(o2))]


MODELS = [
    (r"Option::<.*>::as_ref$", q_c30.m_opt_as_ref),
    (r"Option::<.*>::map::<.*>$", q_c30.m_opt_map),
    (r"Option::<.*>::is_some$", m_is(True)),
    (r"Option::<.*>::is_none$", m_is(False)),
    (r"^<(std::option::)?Option<.*> as Clone>::clone$", m_opt_clone),
] + models.STANDARD


def field_index(path, struct, field):
    src = open(path).read()
    m = re.search(r"pub struct " + struct + r"\b[^{]*\{(.*?)\n\}", src, re.S)
    names = re.findall(r"^\s*pub (\w+):", m.group(1), re.M) if m else []
    return names.index(field) if field in names else None


def run(ctx):
    funcs = ctx.mir("pallas-primitives")
    queries, problems = [], []
    fn = [f for f in funcs.all if f.name.endswith("::build_for") and "script_data" in f.name]
    ri = field_index("/repo/pallas-primitives/src/conway/model.rs", "WitnessSet", "redeemer")
    di = field_index("/repo/pallas-primitives/src/conway/model.rs", "WitnessSet", "plutus_data")
    sd = {k: field_index("/repo/pallas-primitives/src/conway/script_data.rs", "ScriptData", k) for k in ("redeemers", "datums", "language_views")}
    if len(fn) != 1 or None in (ri, di) or None in sd.values():
        return [], [f"build_for or field indices not found ({len(fn)}, {ri}, {di}, {sd})"], {}
    r_d, d_d, l_d = z3.BitVec("redeemer.#d", 64), z3.BitVec("plutus_data.#d", 64), z3.BitVec("language_views.#d", 64)
    ws = sym.VAdt("WitnessSet", None, {(None, str(ri)): sym.VAdt("Option", r_d, {("Some", "0"): sym.VUnknown("redeemer.payload")}, uid="wr"),
                                       (None, str(di)): sym.VAdt("Option", d_d, {("Some", "0"): sym.VUnknown("datums.payload")}, uid="wd")}, uid="ws")
    lv = sym.VAdt("Option", l_d, {("Some", "0"): sym.VUnknown("views.payload")}, uid="lv")
    ex = sym.Executor(funcs, models=MODELS, inline=lambda c, f: False, max_visits=2, max_paths=2000, variant_index=ctx.variant_index(funcs))
    try:
        paths = ex.run(fn[0], [sym.VRef("H:ws"), sym.VRef("H:lv")], objs={"H:ws": ws, "H:lv": lv})
    except sym.Stop as e:
        return [], [f"build_for: {e}"], {}
    ctx.encoded |= ex.encoded
    dom = [z3.ULT(r_d, 2), z3.ULT(d_d, 2), z3.ULT(l_d, 2)]
    meta0 = {"r": r_d, "d": d_d, "l": l_d}
    n_some = 0
    for i, p in enumerate(paths):
        cond = dom + list(p.cond)
        if p.outcome[0] != "return":
            queries.append(smt.Query(f"sdata_path{i}_no_panic", cond, meta=dict(meta0, what=f"build_for does not return normally: {p.outcome}")))
            continue
        r = p.ret
        if isinstance(r, sym.VUnknown):
            r = ex.as_adt(r, None, True)
        if not isinstance(r, sym.VAdt) or r.discr is None:
            problems.append(f"path {i}: result is not an Option value")
            continue
        neither = z3.And(r_d == 0, d_d == 0)
        queries.append(smt.Query(f"sdata_path{i}_none_iff_neither", cond + [z3.Not((r.discr == 0) == neither)], meta=dict(meta0, what="build_for returns None although redeemers or datums are present (or Some although neither is)")))
        if z3.is_false(z3.simplify(r.discr == 1)):
            continue
        s = r.fields.get(("Some", "0"))
        if isinstance(s, sym.VUnknown):
            s = ex.as_adt(s, None, True)
        if not isinstance(s, sym.VAdt):
            problems.append(f"path {i}: Some payload is not a struct value")
            continue
        got = {}
        for k, idx in sd.items():
            v = s.fields.get((None, str(idx)))
            if isinstance(v, sym.VUnknown):
                v = ex.as_adt(v, None, True)
            if not isinstance(v, sym.VAdt) or v.discr is None:
                problems.append(f"path {i}: field {k} is not an Option value")
                got = None
                break
            got[k] = v.discr
        if not got:
            continue
        n_some += 1
        some = cond + [r.discr == 1]
        queries.append(smt.Query(f"sdata_path{i}_redeemers_kept", some + [got["redeemers"] != r_d], meta=dict(meta0, what="the script data's redeemers are not the witness set's")))
        queries.append(smt.Query(f"sdata_path{i}_datums_kept", some + [got["datums"] != d_d], meta=dict(meta0, what="the script data's datums are not the witness set's")))
        want = z3.If(z3.And(r_d == 1, l_d == 1), z3.BitVecVal(1, 64), z3.BitVecVal(0, 64))
        queries.append(smt.Query(f"sdata_path{i}_views_only_with_redeemers", some + [got["language_views"] != want], meta=dict(meta0, what="language views are kept without redeemers (or dropped with them)")))
    if n_some == 0:
        problems.append("no path that returns Some found")
    queries.append(smt.Query("sdata_reachable_witness", dom, expect="sat", meta={"witness": True}))
    return queries, problems, {}


def explain(q):
    m, mo = q.meta, q.model
    ev = lambda e: mo.eval(e, model_completion=True).as_long()
    return {"what": f"conway ScriptData::build_for: {m['what']} (redeemers={'present' if ev(m['r']) else 'absent'}, datums={'present' if ev(m['d']) else 'absent'}, language views={'supplied' if ev(m['l']) else 'none'})",
            "redeemers": ev(m["r"]), "datums": ev(m["d"]), "views": ev(m["l"])}


def replay(ctx, q, ex):
    import json
    ok, path = native.run_test("sdata", None, ctx.outdir, {"SDATA_CASE": json.dumps(ex)})
    return bool(ok), path
