"""Decide batches of queries: the SMT-LIB2 text produced from the z3 terms is handed to
/usr/bin/z3 (verdict) and cvc5 (cross-check); disagreement, `unknown` or any `(error` line
is inconclusive. Models are read back through the z3 API only after both agree on `sat`."""
import subprocess, time, re
import z3


CVC5_PRELUDE = """(define-fun bvumul_noovfl ((a (_ BitVec 64)) (b (_ BitVec 64))) Bool
  (= ((_ extract 127 64) (bvmul ((_ zero_extend 64) a) ((_ zero_extend 64) b))) #x0000000000000000))
(define-fun bvsmul_noovfl ((a (_ BitVec 64)) (b (_ BitVec 64))) Bool
  (bvsle (bvmul ((_ sign_extend 64) a) ((_ sign_extend 64) b)) ((_ sign_extend 64) #x7fffffffffffffff)))
(define-fun bvsmul_noudfl ((a (_ BitVec 64)) (b (_ BitVec 64))) Bool
  (bvsge (bvmul ((_ sign_extend 64) a) ((_ sign_extend 64) b)) ((_ sign_extend 64) #x8000000000000000)))"""


class Query:
    def __init__(self, name, assertions, expect="unsat", meta=None):
        self.name, self.assertions, self.expect, self.meta = name, assertions, expect, meta or {}
        self.verdict = None
        self.model = None
        self.detail = ""


def lower_noovfl(e, cache=None):
    """replace z3's width-polymorphic bv{u,s}mul_noovfl / bvsmul_noudfl predicates by their definition over the
    double-width product, so that every solver sees plain QF_BV (cvc5 1.0 has no such predicates)"""
    cache = {} if cache is None else cache
    k = e.get_id()
    if k in cache:
        return cache[k]
    if not z3.is_app(e) or e.num_args() == 0:
        cache[k] = e
        return e
    args = [lower_noovfl(a, cache) for a in e.children()]
    dk = e.decl().kind()
    if dk == z3.Z3_OP_BUMUL_NO_OVFL:
        w = args[0].size()
        r = z3.Extract(2 * w - 1, w, z3.ZeroExt(w, args[0]) * z3.ZeroExt(w, args[1])) == 0
    elif dk == z3.Z3_OP_BSMUL_NO_OVFL:
        w = args[0].size()
        r = z3.SignExt(w, args[0]) * z3.SignExt(w, args[1]) <= z3.BitVecVal(2 ** (w - 1) - 1, 2 * w)
    elif dk == z3.Z3_OP_BSMUL_NO_UDFL:
        w = args[0].size()
        r = z3.SignExt(w, args[0]) * z3.SignExt(w, args[1]) >= z3.BitVecVal(-(2 ** (w - 1)), 2 * w)
    elif dk == z3.Z3_OP_BUDIV_I:
        r = z3.UDiv(args[0], args[1])
    elif dk == z3.Z3_OP_BUREM_I:
        r = z3.URem(args[0], args[1])
    elif dk == z3.Z3_OP_BSDIV_I:
        r = args[0] / args[1]
    elif dk == z3.Z3_OP_BSREM_I:
        r = z3.SRem(args[0], args[1])
    elif dk == z3.Z3_OP_BSMOD_I:
        r = args[0] % args[1]
    elif all(a.eq(b) for a, b in zip(args, e.children())):
        r = e
    else:
        r = e.decl()(*args)
    cache[k] = r
    return r


def to_smt2(assertions):
    s = z3.Solver()
    cache = {}
    for a in assertions:
        s.add(lower_noovfl(a, cache) if z3.is_expr(a) else a)
    txt = s.to_smt2()
    # strip the trailing (check-sat); declarations stay
    return txt.replace("(check-sat)", "").strip()


def run_solver(cmd, script, timeout):
    t0 = time.time()
    try:
        r = subprocess.run(cmd, input=script, capture_output=True, text=True, timeout=timeout)
        out = r.stdout + r.stderr
    except subprocess.TimeoutExpired:
        return None, "timeout", time.time() - t0
    return out, None, time.time() - t0


def decide(queries, timeout=20, cross=True):
    """each query is solved in its own (push)(pop) frame of one solver process per solver"""
    if not queries:
        return 0.0
    parts = ["(set-logic ALL)"]
    per_ms = int(timeout * 1000)
    for q in queries:
        parts.append("(push 1)")
        body = to_smt2(q.assertions)
        body = "\n".join(l for l in body.split("\n") if not l.startswith("(set-info") and not l.startswith("(set-logic") and not l.startswith(";"))
        parts.append(body)
        parts.append("(check-sat)")
        parts.append("(pop 1)")
    script = "\n".join(parts) + "\n"
    total = 0.0
    outs = {}
    solvers = [("z3", ["/usr/bin/z3", "-in", "-smt2", f"-t:{per_ms}"])]
    if cross:
        solvers.append(("cvc5", ["cvc5", "--lang", "smt2", "--incremental", f"--tlimit-per={per_ms}"]))
    for nm, cmd in solvers:
        scr = script
        if nm == "cvc5" and "mul_noovfl" in script or nm == "cvc5" and "mul_noudfl" in script:
            scr = script.replace("(set-logic ALL)", "(set-logic ALL)\n" + CVC5_PRELUDE, 1)
            for w in (8, 16, 32, 64):
                pass
            # z3 prints the predicates without a width; cvc5 needs monomorphic definitions: rewrite per use is not
            # possible textually, so only the 64-bit forms (the ones the Rust code produces for u64/i64) are defined
        out, err, dt = run_solver(cmd, scr, 60 + timeout * max(1, len(queries)))
        total += dt
        if err or out is None:
            outs[nm] = None
            continue
        if "(error" in out:
            outs[nm] = ("error", out[:400])
            continue
        outs[nm] = [l.strip() for l in out.split("\n") if l.strip() in ("sat", "unsat", "unknown")]
    def single(q, cmd, tmo):
        body = to_smt2(q.assertions)
        body = "\n".join(l for l in body.split("\n") if not l.startswith("(set-info") and not l.startswith("(set-logic") and not l.startswith(";"))
        out, err, dt = run_solver(cmd, "(set-logic ALL)\n" + body + "\n(check-sat)\n", tmo + 30)
        if err or out is None or "(error" in out:
            return "unknown", dt
        vs_ = [l.strip() for l in out.split("\n") if l.strip() in ("sat", "unsat", "unknown")]
        return (vs_[0] if vs_ else "unknown"), dt

    for i, q in enumerate(queries):
        vs = {}
        for nm, _ in solvers:
            o = outs.get(nm)
            if o is None:
                vs[nm] = "timeout"
            elif isinstance(o, tuple):
                vs[nm] = "error"
                q.detail += f"{nm}: {o[1]} "
            elif i < len(o):
                vs[nm] = o[i]
            else:
                vs[nm] = "missing"
        # a solver that gave up is replaced by a third one (z3 5.x) with a longer limit; two definite,
        # agreeing verdicts are required in any case
        if cross and sorted(vs.values()) in (["unknown", "unsat"], ["sat", "unknown"], ["timeout", "unsat"], ["sat", "timeout"]):
            v3, dt = single(q, ["z3-new", "-in", "-smt2", f"-t:{per_ms * 6}"], timeout * 6)
            total += dt
            gave_up = [k for k, v in vs.items() if v in ("unknown", "timeout")][0]
            vs["z3-new(for " + gave_up + ")"] = v3
            del vs[gave_up]
        q.solver_verdicts = vs
        vals = set(vs.values())
        if len(vals) == 1 and vals <= {"sat", "unsat"}:
            q.verdict = vals.pop()
        else:
            q.verdict = "inconclusive"
            q.detail += f"solvers disagree or failed: {vs}"
        if q.verdict == "sat":
            s = z3.Solver()
            for a in q.assertions:
                s.add(a)
            # a counterexample that is to be replayed natively must give uninterpreted terms their real meaning
            extra = q.meta.get("model_constraints") if isinstance(q.meta, dict) else None
            if extra:
                s.push()
                s.set("timeout", 20000)
                for a in extra:
                    s.add(a)
                if s.check() == z3.sat:
                    q.model = s.model()
                    continue
                s.pop()
            if s.check() == z3.sat:
                q.model = s.model()
            else:
                q.verdict = "inconclusive"
                q.detail += " z3 API does not reproduce sat"
    return total
