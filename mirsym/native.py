"""native replay of mirsym counterexample classes: /verif/replay is an ordinary cargo test crate with
path dependencies on /repo (built with --cfg pallas_verif so that the add-only hooks are visible);
a failing test there confirms a solver counterexample against the real code."""
import os, subprocess, json
VERIF = os.path.dirname(os.path.dirname(os.path.abspath(__file__)))
_cache = {}


def run_test(test, filt, outdir, env_extra=None):
    key = (test, filt, json.dumps(env_extra or {}, sort_keys=True))
    if key in _cache:
        return _cache[key]
    rdir = os.path.join(VERIF, "replay")
    env = dict(os.environ, CARGO_NET_OFFLINE="true", CARGO_TARGET_DIR=os.path.join(rdir, "target"),
               RUSTFLAGS="--cfg pallas_verif")
    env.update(env_extra or {})
    if not os.path.exists(os.path.join(rdir, "Cargo.lock")):
        import shutil
        shutil.copy("/repo/Cargo.lock", os.path.join(rdir, "Cargo.lock"))
    os.makedirs(outdir, exist_ok=True)
    tag = (filt or "all").replace(":", "_")
    if env_extra:
        import hashlib
        tag += "-" + hashlib.sha1(json.dumps(env_extra, sort_keys=True).encode()).hexdigest()[:8]
    logp = os.path.join(outdir, f"native-{test}-{tag}.log")
    cmd = ["cargo", "test", "--offline", "--test", test, "--"] + ([filt] if filt else []) + ["--nocapture", "--test-threads", "1"]
    with open(logp, "w") as lf:
        import shlex
        extra = " ".join("%s=%s" % (k, shlex.quote(v)) for k, v in sorted((env_extra or {}).items()))
        lf.write("$ cd %s && %s RUSTFLAGS='--cfg pallas_verif' CARGO_TARGET_DIR=%s %s\n" % (rdir, extra, env["CARGO_TARGET_DIR"], " ".join(cmd)))
        lf.flush()
        r = subprocess.run(cmd, cwd=rdir, env=env, stdout=lf, stderr=subprocess.STDOUT)
    out = open(logp, errors="replace").read()
    ran = "running " in out and "test result:" in out
    failed = ran and ("test result: FAILED" in out or "panicked at" in out)
    res = (bool(failed) if ran else None, logp)
    _cache[key] = res
    return res
