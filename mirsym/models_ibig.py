"""Theory plug-in: dashu_int::IBig operators -> SMT integers (unbounded), trusted table.
dashu semantics relied on (validated natively by /verif/replay/tests/dashu_model.rs at setup):
  /, % and div_rem truncate toward zero (remainder takes the sign of the dividend);
  IBig::sign(0) == Sign::Positive; abs, neg, cmp as on mathematical integers; pow(n) exact."""
import copy, re, z3
import sym


class VBig(sym.V):
    def __init__(self, e):
        self.e = e

    def __repr__(self):
        return f"Big({z3.simplify(self.e)})"


# exact product of two symbolic big integers, kept as one opaque term (linear reasoning suffices for the
# scaling/rounding properties; dashu's multiplication itself is trusted to be exact)
IMUL = z3.Function("imul", z3.IntSort(), z3.IntSort(), z3.IntSort())


def mul(a, b):
    sa, sb = z3.simplify(a), z3.simplify(b)
    if z3.is_int_value(sa) or z3.is_int_value(sb):
        return a * b
    return IMUL(a, b)


def tdiv(a, b):
    return z3.If(a >= 0, z3.If(b > 0, a / b, -(a / (-b))), z3.If(b > 0, -((-a) / b), (-a) / (-b)))


def trem(a, b):
    return a - b * tdiv(a, b)


STATIC_VALUES = {"ZERO": 0, "TEN": 10, "PRECISION": 10 ** 34, "EPS": 10 ** 10, "ONE": 10 ** 34}


def big(ex, path, v):
    """dereference (possibly nested) refs and view the value as an SMT integer"""
    n = 0
    while isinstance(v, sym.VRef) and n < 4:
        v = ex.read_loc(path, v.obj, v.proj)
        n += 1
    if isinstance(v, VBig):
        return v.e
    if isinstance(v, sym.VUnknown):
        m = re.match(r"^const:(?:dashu_int::)?IBig::(ONE|ZERO|NEG_ONE)$", v.uid)
        if m:
            return z3.IntVal({"ONE": 1, "ZERO": 0, "NEG_ONE": -1}[m.group(1)])
        return z3.Int("big:" + v.uid)
    if isinstance(v, sym.VInt):
        return z3.BV2Int(v.e, v.signed)
    raise sym.Stop(f"not an IBig: {v!r}")


def store(ex, path, ref, val):
    if not isinstance(ref, sym.VRef):
        raise sym.Stop("assign-op through a non-reference")
    ex._store(path, ref.obj, ref.proj, val)


def m_binop(op):
    def f(ex, path, frame, callee, argv, argty, dest_ty):
        a, b = big(ex, path, argv[0]), big(ex, path, argv[1])
        if op in ("div", "rem"):
            out = []
            z = z3.simplify(b == 0)
            if not z3.is_false(z) and ex.feasible(path, b == 0):
                p0 = path.clone()
                p0.cond.append(b == 0)
                out.append((p0, ("panic", "IBig division by zero")))
            if z3.is_true(z):
                return out
            if not z3.is_false(z):
                path.cond.append(b != 0)
            r = tdiv(a, b) if op == "div" else trem(a, b)
            return out + [(path, VBig(r))]
        r = {"add": a + b, "sub": a - b, "mul": mul(a, b)}[op]
        return [(path, VBig(r))]
    return f


def m_assign(op):
    def f(ex, path, frame, callee, argv, argty, dest_ty):
        a, b = big(ex, path, argv[0]), big(ex, path, argv[1])
        r = {"add": a + b, "sub": a - b, "mul": mul(a, b)}[op]
        store(ex, path, argv[0], VBig(r))
        return [(path, sym.VUnit())]
    return f


def m_neg(ex, path, frame, callee, argv, argty, dest_ty):
    return [(path, VBig(-big(ex, path, argv[0])))]


def m_abs(ex, path, frame, callee, argv, argty, dest_ty):
    a = big(ex, path, argv[0])
    return [(path, VBig(z3.If(a >= 0, a, -a)))]


def m_sign(ex, path, frame, callee, argv, argty, dest_ty):
    a = big(ex, path, argv[0])
    return [(path, sym.VAdt("dashu_base::Sign", z3.If(a < 0, z3.BitVecVal(1, 64), z3.BitVecVal(0, 64)), {}, uid=ex.fresh_uid(path, "sign")))]


def m_sign_eq(neg):
    def f(ex, path, frame, callee, argv, argty, dest_ty):
        vs = []
        for a in argv:
            while isinstance(a, sym.VRef):
                a = ex.read_loc(path, a.obj, a.proj)
            a = ex.as_adt(a, "Sign", True)
            vs.append(a.discr)
        e = vs[0] == vs[1]
        return [(path, sym.VBool(z3.Not(e) if neg else e))]
    return f


def m_cmp(op):
    def f(ex, path, frame, callee, argv, argty, dest_ty):
        a, b = big(ex, path, argv[0]), big(ex, path, argv[1])
        if op == "cmp":
            d = z3.If(a < b, z3.BitVecVal(-1, 64), z3.If(a == b, z3.BitVecVal(0, 64), z3.BitVecVal(1, 64)))
            return [(path, sym.VAdt("Ordering", d, {}, uid=ex.fresh_uid(path, "ord")))]
        if op == "partial_cmp":
            d = z3.If(a < b, z3.BitVecVal(-1, 64), z3.If(a == b, z3.BitVecVal(0, 64), z3.BitVecVal(1, 64)))
            o = sym.VAdt("Ordering", d, {}, uid=ex.fresh_uid(path, "ord"))
            return [(path, sym.VAdt("Option", z3.BitVecVal(1, 64), {("Some", "0"): o}, uid=ex.fresh_uid(path, "some")))]
        e = {"eq": a == b, "ne": a != b, "lt": a < b, "le": a <= b, "gt": a > b, "ge": a >= b}[op]
        return [(path, sym.VBool(e))]
    return f


def m_divrem(ex, path, frame, callee, argv, argty, dest_ty):
    a, b = big(ex, path, argv[0]), big(ex, path, argv[1])
    out = []
    if ex.feasible(path, b == 0):
        p0 = path.clone()
        p0.cond.append(b == 0)
        out.append((p0, ("panic", "IBig division by zero")))
        path.cond.append(b != 0)
    t = sym.VAdt(None, None, {(None, "0"): VBig(tdiv(a, b)), (None, "1"): VBig(trem(a, b))}, uid=ex.fresh_uid(path, "divrem"))
    return out + [(path, t)]


def m_from(ex, path, frame, callee, argv, argty, dest_ty):
    a = argv[0]
    if isinstance(a, sym.VInt):
        e = z3.simplify(z3.BV2Int(a.e, bool(argty[0] and argty[0].startswith("i")) or a.signed))
        return [(path, VBig(e))]
    return None


def m_pow(ex, path, frame, callee, argv, argty, dest_ty):
    a = z3.simplify(big(ex, path, argv[0]))
    n = argv[1]
    if isinstance(n, sym.VInt):
        ne = z3.simplify(n.e)
        if z3.is_int_value(a) and z3.is_bv_value(ne):
            return [(path, VBig(z3.IntVal(a.as_long() ** ne.as_long())))]
    return None  # symbolic exponent: uninterpreted


def m_clone_from(ex, path, frame, callee, argv, argty, dest_ty):
    store(ex, path, argv[0], VBig(big(ex, path, argv[1])))
    return [(path, sym.VUnit())]


def m_lazy(ex, path, frame, callee, argv, argty, dest_ty):
    a = argv[0]
    name = None
    if isinstance(a, sym.VUnknown):
        m = re.search(r"(alloc\d+)", a.uid)
        if m:
            name = ex.funcs.statics.get(m.group(1))
    if name is None:
        return None
    short = name.split("::")[-1]
    key = "static:" + short
    if key not in path.objs:
        path.objs[key] = VBig(z3.IntVal(STATIC_VALUES[short])) if short in STATIC_VALUES else sym.VUnknown(key, "IBig")
    return [(path, sym.VRef(key))]


I = r"(?:&)?(?:dashu_int::)?IBig"
MODELS = [
    (rf"^<{I} as Add(<.*>)?>::add$", m_binop("add")), (rf"^<{I} as Sub(<.*>)?>::sub$", m_binop("sub")),
    (rf"^<{I} as Mul(<.*>)?>::mul$", m_binop("mul")), (rf"^<{I} as Div(<.*>)?>::div$", m_binop("div")),
    (rf"^<{I} as Rem(<.*>)?>::rem$", m_binop("rem")),
    (rf"^<{I} as AddAssign(<.*>)?>::add_assign$", m_assign("add")), (rf"^<{I} as SubAssign(<.*>)?>::sub_assign$", m_assign("sub")),
    (rf"^<{I} as MulAssign(<.*>)?>::mul_assign$", m_assign("mul")),
    (rf"^<{I} as Neg>::neg$", m_neg), (rf"^<{I} as (dashu_base::)?Abs>::abs$", m_abs),
    (r"^(dashu_int::)?IBig::sign$", m_sign),
    (r"^<(dashu_base::)?Sign as PartialEq>::eq$", m_sign_eq(False)), (r"^<(dashu_base::)?Sign as PartialEq>::ne$", m_sign_eq(True)),
    (rf"^<{I} as PartialEq(<.*>)?>::eq$", m_cmp("eq")), (rf"^<{I} as PartialEq(<.*>)?>::ne$", m_cmp("ne")),
    (rf"^<{I} as PartialOrd(<.*>)?>::lt$", m_cmp("lt")), (rf"^<{I} as PartialOrd(<.*>)?>::le$", m_cmp("le")),
    (rf"^<{I} as PartialOrd(<.*>)?>::gt$", m_cmp("gt")), (rf"^<{I} as PartialOrd(<.*>)?>::ge$", m_cmp("ge")),
    (rf"^<{I} as PartialOrd(<.*>)?>::partial_cmp$", m_cmp("partial_cmp")), (rf"^<{I} as Ord>::cmp$", m_cmp("cmp")),
    (rf"^<{I} as (dashu_base::)?DivRem(<.*>)?>::div_rem$", m_divrem),
    (rf"^<(dashu_int::)?IBig as From<.*>>::from$", m_from),
    (r"^(dashu_int::)?(pow::<impl IBig>|IBig)::pow$", m_pow),
    (rf"^<(dashu_int::)?IBig as Clone>::clone_from$", m_clone_from),
    (r"^<(std::sync::)?LazyLock<(dashu_int::)?IBig> as Deref>::deref$", m_lazy),
]
