"""Theory plug-in: std::collections::HashSet<PeerId> over a universe of N peers -> bit-mask (trusted table).
A PeerId is an index 0..N-1; contains / insert / remove / take / len act on bit i of the mask."""
import z3
import sym

N = 3


class VSet(sym.V):
    def __init__(self, mask):
        self.mask = mask  # BitVec(N)

    def __repr__(self):
        return f"Set({z3.simplify(self.mask)})"


def popcount(m):
    n = m.size()
    return sum([z3.ZeroExt(63, z3.Extract(i, i, m)) for i in range(n)], z3.BitVecVal(0, 64))


def deref(ex, path, v):
    k = 0
    loc = None
    while isinstance(v, sym.VRef) and k < 4:
        loc = (v.obj, v.proj)
        v = ex.read_loc(path, v.obj, v.proj)
        k += 1
    return v, loc


def as_set(ex, path, v):
    s, loc = deref(ex, path, v)
    if isinstance(s, VSet):
        return s, loc
    if isinstance(s, sym.VUnknown):
        ns = VSet(z3.BitVec("set:" + s.uid, N))
        if loc:
            ex._store(path, loc[0], loc[1], ns)
        return ns, loc
    raise sym.Stop(f"not a HashSet: {s!r}")


def as_pid(ex, path, v):
    p, _ = deref(ex, path, v)
    if isinstance(p, sym.VInt):
        return p.e
    if isinstance(p, sym.VUnknown):
        return z3.BitVec("pid:" + p.uid, 8)
    raise sym.Stop(f"not a PeerId: {p!r}")


def bit(i):
    # one-hot mask of peer index i (BV8) as BV N
    return z3.BitVecVal(1, N) << z3.Extract(N - 1, 0, z3.ZeroExt(max(0, N - 8), i)) if N > 8 else (z3.BitVecVal(1, N) << z3.Extract(N - 1, 0, i))


def m_contains(ex, path, frame, callee, argv, argty, dest_ty):
    s, _ = as_set(ex, path, argv[0])
    i = as_pid(ex, path, argv[1])
    return [(path, sym.VBool((s.mask & bit(i)) != 0))]


def m_insert(ex, path, frame, callee, argv, argty, dest_ty):
    s, loc = as_set(ex, path, argv[0])
    i = as_pid(ex, path, argv[1])
    was = (s.mask & bit(i)) != 0
    ex._store(path, loc[0], loc[1], VSet(s.mask | bit(i)))
    return [(path, sym.VBool(z3.Not(was)))]


def m_remove(ex, path, frame, callee, argv, argty, dest_ty):
    s, loc = as_set(ex, path, argv[0])
    i = as_pid(ex, path, argv[1])
    was = (s.mask & bit(i)) != 0
    ex._store(path, loc[0], loc[1], VSet(s.mask & ~bit(i)))
    return [(path, sym.VBool(was))]


def m_take(ex, path, frame, callee, argv, argty, dest_ty):
    s, loc = as_set(ex, path, argv[0])
    i = as_pid(ex, path, argv[1])
    was = (s.mask & bit(i)) != 0
    ex._store(path, loc[0], loc[1], VSet(s.mask & ~bit(i)))
    opt = sym.VAdt("Option", z3.If(was, z3.BitVecVal(1, 64), z3.BitVecVal(0, 64)), {("Some", "0"): sym.VInt(i)}, uid=ex.fresh_uid(path, "take"))
    return [(path, opt)]


def m_len(ex, path, frame, callee, argv, argty, dest_ty):
    s, _ = as_set(ex, path, argv[0])
    return [(path, sym.VInt(popcount(s.mask)))]


def m_pid_clone(ex, path, frame, callee, argv, argty, dest_ty):
    return [(path, sym.VInt(as_pid(ex, path, argv[0])))]


H = r"(?:std::collections::)?HashSet::<(?:[\w:]*::)?PeerId>"
MODELS = [
    (rf"^{H}::contains::<.*>$", m_contains), (rf"^{H}::insert$", m_insert), (rf"^{H}::remove::<.*>$", m_remove),
    (rf"^{H}::take::<.*>$", m_take), (rf"^{H}::len$", m_len),
    (r"^<(?:[\w:]*::)?PeerId as Clone>::clone$", m_pid_clone),
]
