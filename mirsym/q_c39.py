"""C39: validate_txs updates the certificate state atomically (MIR of pallas_validate::phase1::validate_txs).
CertState is opaque, validate_tx is uninterpreted with its `&mut delta_state` argument havocked, the iterator is
unrolled K times.  On every Err path *cert_state is the entry value; on every Ok path it is the delta state left
by the last validate_tx call, and every call received the delta state left by the previous one."""
import z3
import os
import mir, sym, smt, models, native

K = {"quick": 3, "thorough": 6}
BOUNDS = []
OUTSIDE = ["what validate_tx itself does to the delta state (uninterpreted: any effect)", "panics inside callees (unwrap of the tx index conversion, drop glue)"]
ASSUMPTIONS = ["Clone::clone returns a value equal to its argument", "Try::branch / FromResidual behave as in core for Result"]

U = z3.DeclareSort("Opaque")


def term(v):
    """opaque values as constants of an uninterpreted sort: equal uid <=> same value"""
    if isinstance(v, sym.VUnknown):
        return z3.Const("opq:" + v.uid, U)
    if isinstance(v, sym.VAdt) and v.discr is None and not v.fields and v.uid:
        return z3.Const("opq:" + v.uid, U)
    return z3.Const("opq:!structured:" + repr(v)[:80], U)


def run(ctx):
    funcs = ctx.mir("pallas-validate")
    k = K[ctx.tier]
    BOUNDS[:] = [f"transaction sequences: success after 0..={k} transactions, failure at transaction 1..={k + 1} (loop unrolled {k + 1} times; longer sequences end in an explicit unwinding obligation, they are outside the claim)"]
    cands = [f for n, f in funcs.items() if n == "validate_txs" or n.endswith("::validate_txs")]
    if len(cands) != 1:
        return [], [f"validate_txs not found uniquely ({len(cands)})"], {}
    fn = cands[0]
    ex = sym.Executor(funcs, models=models.STANDARD, inline=lambda c, f: False, max_visits=k + 1,
                      variant_index=ctx.variant_index(funcs))
    entry = sym.VUnknown("cert_state@entry", "CertState")
    objs = {"H:cs": entry}
    # snapshot pointee of &mut args at uninterpreted calls
    calls = []
    args = [sym.VUnknown("metxs", fn.args[0][1]), sym.VUnknown("env", fn.args[1][1]), sym.VUnknown("utxos", fn.args[2][1]), sym.VRef("H:cs")]
    orig_do_call = ex.do_call

    def do_call(path, frame, dest, callee, args_t, target):
        if mir.strip_generics(callee).endswith("validate_tx"):
            a = ex.operand(path, frame, args_t[4])
            snap = ex.read_loc(path, a.obj, a.proj)
            path.events.append(("validate_tx_sees", term(snap), repr(snap)))
        return orig_do_call(path, frame, dest, callee, args_t, target)
    ex.do_call = do_call
    paths = ex.run(fn, args, objs=objs)
    ctx.encoded |= ex.encoded
    queries, problems = [], []
    n_ok = n_err = n_limit = 0
    for i, p in enumerate(paths):
        cond = list(p.cond)
        if p.outcome[0] == "limit":
            n_limit += 1
            continue
        if p.outcome[0] == "panic":
            continue  # callee/cleanup panics: outside the claim
        if p.outcome[0] != "return":
            problems.append(f"path {i}: {p.outcome}")
            continue
        final = p.objs["H:cs"]
        sees = [e for e in p.events if e[0] == "validate_tx_sees"]
        havocs = [e for e in p.events if e[0] == "call" and e[1].endswith("validate_tx")]
        r = p.ret
        if isinstance(r, sym.VUnknown):
            r = ex.as_adt(r, None, True)  # e.g. `return validate_tx(..)`: the callee's result, Ok or Err
        if not isinstance(r, sym.VAdt) or r.discr is None:
            problems.append(f"path {i}: return value {r!r}")
            continue
        ncalls = len(havocs)
        # threading: call j sees the state left by call j-1 (or the clone of the entry state)
        for j, s in enumerate(sees):
            exp = term(entry) if j == 0 else z3.Const("opq:" + havocs[j - 1][3] + ".havoc", U)
            queries.append(smt.Query(f"c39_path{i}_call{j}_sees_previous_delta", cond + [s[1] != exp], meta={"path": i, "calls": ncalls, "kind": "thread"}))
        for kind, dcond in (("ok", r.discr == 0), ("err", r.discr != 0)):
            dc = z3.simplify(dcond)
            if z3.is_false(dc):
                continue
            extra = [] if z3.is_true(dc) else [dc]
            if kind == "ok":
                n_ok += 1
                exp = term(entry) if ncalls == 0 else z3.Const("opq:" + havocs[-1][3] + ".havoc", U)
                queries.append(smt.Query(f"c39_path{i}_ok_{ncalls}txs_state_is_last_delta", cond + extra + [term(final) != exp], meta={"path": i, "calls": ncalls, "kind": "ok"}))
            else:
                n_err += 1
                queries.append(smt.Query(f"c39_path{i}_err_after_{ncalls}txs_state_unchanged", cond + extra + [term(final) != term(entry)], meta={"path": i, "calls": ncalls, "kind": "err"}))
    # vacuity: there must be Ok paths for every length 0..k and Err paths for every length 1..k
    oks = sorted(set(q.meta["calls"] for q in queries if q.meta.get("kind") == "ok"))
    errs = sorted(set(q.meta["calls"] for q in queries if q.meta.get("kind") == "err"))
    if not (set(range(0, k + 1)) <= set(oks)) or not (set(range(1, k + 1)) <= set(errs)):
        problems.append(f"unexpected path set: ok lengths {oks}, err lengths {errs} (expected 0..{k} / 1..{k + 1})")
    if n_limit == 0:
        problems.append("no path reached the unwinding limit: the loop was not recognised")
    for q in queries:
        q.nontrivial = True
    return queries, problems, {"paths": len(paths), "ok": n_ok, "err": n_err, "limit": n_limit}


def explain(q):
    return {"what": f"validate_txs: {q.name} fails (certificate state differs from what atomic sequencing prescribes)", "path": q.meta.get("path"), "calls": q.meta.get("calls")}


def replay(ctx, q, ex):
    """the counterexample classes (state leaks on Err / wrong state on Ok) are exercised natively on fixture sequences"""
    ok, path = native.run_test("c39", None, ctx.outdir)
    return bool(ok), path
