"""C42 (in-chunk seek): symbolic execution of the MIR of pallas_hardano::storage::immutable::iterate_till_point
(generic over the block iterator) with the iterator, the block decoder and the hash comparison uninterpreted, and
`MultiEraBlock::slot` / `hash` pure functions of the decoded block.  On every path that passes the final test and
returns Ok, the block the iterator stands on satisfies: (the point's hash is empty and block.slot >= slot) or (the
block's hash equals the point's hash and block.slot == slot); on every path that returns CannotFindBlock neither
holds; blocks skipped by the loop have slot < the point's slot."""
import re, z3
import mir, sym, smt, models, native
import q_c30

BOUNDS = ["up to 2 loop iterations (3 blocks looked at); the loop body is the same for every iteration", "slots: full u64 range"]
OUTSIDE = ["the iterator itself (chunk reader, file I/O: engine K's C43 model), block decoding (uninterpreted: any result)", "chunk selection (engine K: c42_q_search_*)", "what the callers do with an iterator that ended or errored before the point (returned as is)"]
ASSUMPTIONS = ["MultiEraBlock::slot and ::hash are pure functions of the decoded block", "Result::map_err keeps Ok payloads", "<[u8]>::is_empty / PartialEq::eq are arbitrary but fixed booleans per (block, point)"]


def blk_uid(ex, path, v):
    k = 0
    while isinstance(v, sym.VRef) and k < 4:
        v = ex.read_loc(path, v.obj, v.proj)
        k += 1
    return getattr(v, "uid", None) or repr(v)[:40]


def m_slot(ex, path, frame, callee, argv, argty, dest_ty):
    u = blk_uid(ex, path, argv[0])
    path.events.append(("slot_of", u))
    return [(path, sym.VInt(z3.BitVec("slot_of:" + u, 64)))]


def m_hash(ex, path, frame, callee, argv, argty, dest_ty):
    u = blk_uid(ex, path, argv[0])
    return [(path, sym.VUnknown("hash_of:" + u))]


def m_eq(ex, path, frame, callee, argv, argty, dest_ty):
    u = blk_uid(ex, path, argv[0])
    if not u.startswith("hash_of:"):
        return None
    u = u[len("hash_of:"):]
    path.events.append(("hash_eq", u))
    return [(path, sym.VBool(z3.Bool("hash_eq:" + u)))]


def m_is_empty(ex, path, frame, callee, argv, argty, dest_ty):
    return [(path, sym.VBool(z3.Bool("point_hash_is_empty")))]


def m_map_err(ex, path, frame, callee, argv, argty, dest_ty):
    r = argv[0]
    if isinstance(r, sym.VUnknown):
        r = ex.as_adt(r, None, True)
    if not isinstance(r, sym.VAdt) or r.discr is None:
        return None
    ok = r.fields.get(("Ok", "0"), sym.VUnknown((r.uid or "r") + ".Ok.0"))
    return [(path, sym.VAdt("Result", r.discr, {("Ok", "0"): ok, ("Err", "0"): sym.VUnknown((r.uid or "r") + ".mapped_err")}, uid=ex.fresh_uid(path, "maperr")))]


MODELS = [
    (r"MultiEraBlock<'_>>::slot$", m_slot),
    (r"MultiEraBlock<'_>>::hash$", m_hash),
    (r"as AsRef<\[u8\]>>::as_ref$", q_c30.m_identity),
    (r"^<\[u8\] as PartialEq>::eq$", m_eq),
    (r"impl \[u8\]>::is_empty$", m_is_empty),
    (r"Result::<.*>::map_err::<", m_map_err),
] + models.STANDARD


def run(ctx):
    funcs = ctx.mir("pallas-hardano")
    fn = [f for f in funcs.all if f.name == "iterate_till_point" or f.name.endswith("::iterate_till_point")]
    if len(fn) != 1:
        return [], [f"iterate_till_point not found ({len(fn)})"], {}
    visits = 3 if ctx.tier == "quick" else 5
    ex = sym.Executor(funcs, models=MODELS, inline=lambda c, f: False, max_visits=visits, max_paths=20000, variant_index=ctx.variant_index(funcs))
    slot = z3.BitVec("point_slot", 64)
    try:
        paths = ex.run(fn[0], [sym.VUnknown("iter"), sym.VInt(slot), sym.VRef("H:hash")], objs={"H:hash": sym.VUnknown("point_hash")})
    except sym.Stop as e:
        return [], [f"iterate_till_point: {e}"], {}
    ctx.encoded |= ex.encoded
    queries, problems = [], []
    empty = z3.Bool("point_hash_is_empty")
    n_ok = n_err = 0
    for i, p in enumerate(paths):
        if p.outcome[0] == "limit":
            continue
        if p.outcome[0] != "return":
            if p.outcome[0] == "panic":
                queries.append(smt.Query(f"c42_path{i}_no_panic", list(p.cond), meta={"slot": slot, "what": f"iterate_till_point panics: {p.outcome[1][:60]}", "kind": "panic"}))
            else:
                problems.append(f"path {i}: {p.outcome}")
            continue
        r = p.ret
        if isinstance(r, sym.VUnknown):
            r = ex.as_adt(r, None, True)
        if not isinstance(r, sym.VAdt) or r.discr is None:
            problems.append(f"path {i}: result is not a Result value")
            continue
        seen = [e[1] for e in p.events if e[0] == "slot_of"]
        tested = any(e[0] == "hash_eq" for e in p.events) or any(str(c).find("point_hash_is_empty") >= 0 for c in p.cond)
        if not seen:
            continue  # iterator empty / first item an error: returned as is
        cur = seen[-1]
        cs = z3.BitVec("slot_of:" + cur, 64)
        heq = z3.Bool("hash_eq:" + cur)
        rule = z3.Or(z3.And(empty, z3.UGE(cs, slot)), z3.And(heq, cs == slot))
        # blocks left behind by the loop are strictly before the point's slot
        order = []
        for u in seen:
            if u != cur and u not in order:
                order.append(u)
        for u in order:
            queries.append(smt.Query(f"c42_path{i}_skipped_{len(queries)}_before_point", list(p.cond) + [z3.Not(z3.ULT(z3.BitVec("slot_of:" + u, 64), slot))], meta={"slot": slot, "what": "a block at or after the point's slot is skipped", "kind": "skip"}))
        if not tested:
            continue  # left through `Some(Err(_)) | None => return Ok(iter)` inside the loop
        is_ok = z3.simplify(r.discr == 0)
        if not z3.is_false(is_ok):
            # the decode-error returns are Err too; the final test's Ok is the one with discr 0 here
            n_ok += 1
            queries.append(smt.Query(f"c42_path{i}_ok_implies_block_is_the_point", list(p.cond) + [r.discr == 0, z3.Not(rule)], meta={"slot": slot, "cur": cs, "heq": heq, "empty": empty, "what": "a point is accepted although the block found is not that point (hash / slot)", "kind": "accept"}))
        if not z3.is_true(is_ok) and any(e[0] == "call" and e[1].endswith("to_vec") for e in p.events):
            n_err += 1
            queries.append(smt.Query(f"c42_path{i}_cannot_find_implies_absent", list(p.cond) + [r.discr == 1, rule], meta={"slot": slot, "cur": cs, "heq": heq, "empty": empty, "what": "CannotFindBlock although the block found is the point", "kind": "reject"}))
    if n_ok == 0 or n_err == 0:
        problems.append(f"accepting / rejecting paths through the final test: {n_ok} / {n_err}")
    queries.append(smt.Query("c42_reachable_witness", [z3.ULT(slot, 10)], expect="sat", meta={"witness": True}))
    return queries, problems, {}


def explain(q):
    m, mo = q.meta, q.model
    ev = lambda e: mo.eval(e, model_completion=True)
    d = {"what": f"iterate_till_point: {m['what']} (point slot {ev(m['slot'])}"}
    if "cur" in m:
        d["what"] += f", block slot {ev(m['cur'])}, hash equal {ev(m['heq'])}, point hash empty {ev(m['empty'])}"
        d.update(point_slot=ev(m["slot"]).as_long(), block_slot=ev(m["cur"]).as_long(), hash_eq=z3.is_true(ev(m["heq"])), empty=z3.is_true(ev(m["empty"])))
    d["what"] += ")"
    d["kind"] = m["kind"]
    return d


def replay(ctx, q, ex):
    import json
    ok, path = native.run_test("c42", None, ctx.outdir, {"C42_CASE": json.dumps({k: v for k, v in ex.items() if k != "what"})})
    return bool(ok), path
