#![allow(unused)]
//! Kani harnesses over pallas-validate phase-1 (C33, C35..C38).
#[cfg(kani)]
mod stubs;
#[cfg(kani)]
mod build;
#[cfg(kani)]
mod c33;
#[cfg(kani)]
mod c35;
#[cfg(kani)]
mod c36;
#[cfg(kani)]
mod c37;
#[cfg(kani)]
mod c38;
