//! C35: accepted transactions carry only valid signatures and all needed ones (witness bookkeeping units).
//! fn: pallas_validate::phase1::{alonzo,babbage,conway}::{check_vk_wit,check_remaining_vk_wits,find_and_check_req_signer,check_required_signers}, shelley_ma::{check_vk_wit,check_remaining_vk_wits} (via verif_hooks)
//! stub: std::fmt::format -> empty String
//! stub: pallas_validate::utils::verify_signature -> toy deterministic predicate: true iff (vkey, signature, message) is the one genuinely valid Ed25519 triple embedded in this file (a sound under-approximation of the real check: whatever it accepts the real Ed25519 accepts, so counterexamples replay natively without stubs)
//! stub: pallas_crypto::hash::Hasher::<224>::hash -> first 28 bytes of the input (deterministic; every assertion is phrased through Hasher::<224>::hash itself, so it holds for the real Blake2b-224 as well)
//! assume: verification keys are 32 bytes and signatures 64 bytes (other lengths: C33, verify_signature panics)
//! outside: real Ed25519 and Blake2b (C10/C11); which inputs are key-locked (UTxO HashMap: check_vkey_input_wits / check_witnesses loops, engine M); more than 3 witnesses / 2 required signers; bootstrap witnesses; native-script witnesses
use crate::build::{al, ba, co};
use pallas_codec::utils::{Bytes, NonEmptySet};
use pallas_crypto::hash::{Hash, Hasher};
use pallas_primitives::alonzo::VKeyWitness;
use pallas_validate::phase1::{alonzo, babbage, conway, shelley_ma};
use pallas_validate::utils::verify_signature;

/// A genuinely valid Ed25519 triple (generated with pallas_crypto: seed[i] = 7*i+1, 32-byte message).
pub const PK: [u8; 32] = [
    228, 3, 9, 152, 207, 213, 173, 23, 35, 193, 105, 249, 86, 170, 11, 158, 184, 97, 155, 89, 146, 189, 97, 44, 42, 244, 40,
    235, 199, 159, 141, 240,
];
pub const MSG: [u8; 32] = [
    160, 161, 162, 163, 164, 165, 166, 167, 168, 169, 170, 171, 172, 173, 174, 175, 176, 177, 178, 179, 180, 181, 182, 183, 184,
    185, 186, 187, 188, 189, 190, 191,
];
pub const SIG: [u8; 64] = [
    33, 89, 202, 23, 139, 84, 110, 45, 31, 252, 254, 57, 142, 2, 99, 87, 174, 161, 158, 179, 0, 218, 207, 3, 194, 156, 191, 49,
    214, 145, 73, 42, 61, 88, 37, 202, 61, 2, 52, 122, 226, 255, 186, 129, 18, 62, 18, 107, 124, 121, 249, 210, 146, 138, 126,
    103, 133, 41, 156, 149, 45, 16, 47, 2,
];

fn eq(a: &[u8], b: &[u8]) -> bool {
    if a.len() != b.len() {
        return false;
    }
    let mut i = 0;
    while i < a.len() {
        if a[i] != b[i] {
            return false;
        }
        i += 1;
    }
    true
}

pub fn verify_sig_stub(w: &VKeyWitness, data: &[u8]) -> bool {
    eq(w.vkey.as_slice(), &PK) && eq(w.signature.as_slice(), &SIG) && eq(data, &MSG)
}

pub fn hash224_stub(bytes: &[u8]) -> Hash<28> {
    let mut d = [0u8; 28];
    let mut i = 0;
    while i < 28 {
        if i < bytes.len() {
            d[i] = bytes[i];
        }
        i += 1;
    }
    Hash::new(d)
}

fn heq(a: &Hash<28>, b: &Hash<28>) -> bool {
    eq(a.as_ref(), b.as_ref())
}

/// a witness with a symbolic 32-byte key and a symbolic 64-byte signature
fn wit() -> VKeyWitness {
    let k: [u8; 32] = kani::any();
    let s: [u8; 64] = kani::any();
    VKeyWitness { vkey: Bytes::from(k.to_vec()), signature: Bytes::from(s.to_vec()) }
}
fn msg() -> [u8; 32] {
    kani::any()
}
/// cheaper variants for the two-signer harnesses: symbolic key, the valid signature / message with a symbolic first byte
fn wit_sig1() -> VKeyWitness {
    let k: [u8; 32] = kani::any();
    let mut s = SIG;
    s[0] = kani::any();
    VKeyWitness { vkey: Bytes::from(k.to_vec()), signature: Bytes::from(s.to_vec()) }
}
fn msg1() -> [u8; 32] {
    let mut m = MSG;
    m[0] = kani::any();
    m
}

// ------------------------------------------------------------------ check_remaining_vk_wits

/// General case: at most one witness is still uncovered.
macro_rules! remaining_general {
    ($name:ident, |$w:ident, $d:ident| $call:expr) => {
        #[kani::proof]
        #[kani::unwind(67)]
        #[kani::stub(std::fmt::format, crate::stubs::fmt_format_stub)]
        #[kani::stub(pallas_validate::utils::verify_signature, verify_sig_stub)]
        fn $name() {
            let c: [bool; 3] = kani::any();
            let uncovered = (!c[0]) as u8 + (!c[1]) as u8 + (!c[2]) as u8;
            kani::assume(uncovered <= 1);
            let mut $w = vec![(c[0], wit()), (c[1], wit()), (c[2], wit())];
            let data = msg();
            let $d = &data[..];
            let r = $call;
            kani::cover!(r.is_ok() && uncovered == 1, "one uncovered witness, accepted");
            kani::cover!(r.is_err(), "one uncovered witness, rejected");
            kani::cover!(r.is_ok() && uncovered == 0, "all covered");
            let mut i = 0;
            while i < 3 {
                assert!($w[i].0 == c[i], "covered flags are not changed");
                if !c[i] {
                    assert!(r.is_ok() == verify_signature(&$w[i].1, $d), "Ok iff the uncovered witness verifies");
                }
                i += 1;
            }
            if uncovered == 0 {
                assert!(r.is_ok(), "nothing left to check: Ok");
            }
            core::mem::forget(r);
            core::mem::forget($w);
        }
    };
}

/// The isolated case: two witnesses, both uncovered.
macro_rules! remaining_second {
    ($name:ident, |$w:ident, $d:ident| $call:expr) => {
        #[kani::proof]
        #[kani::unwind(67)]
        #[kani::stub(std::fmt::format, crate::stubs::fmt_format_stub)]
        #[kani::stub(pallas_validate::utils::verify_signature, verify_sig_stub)]
        fn $name() {
            let mut $w = vec![(false, wit()), (false, wit())];
            let data = msg();
            let $d = &data[..];
            let r = $call;
            kani::cover!(r.is_ok(), "accepted");
            kani::cover!(r.is_err(), "rejected");
            if r.is_ok() {
                assert!(verify_signature(&$w[0].1, $d), "Ok => the first uncovered witness verifies");
                assert!(verify_signature(&$w[1].1, $d), "Ok => EVERY uncovered witness verifies (second one)");
            }
            core::mem::forget(r);
            core::mem::forget($w);
        }
    };
}

// assume: general harness: at most one of the 3 witnesses is uncovered (two or more uncovered witnesses = c35_q_remaining_second_*)
// bound: 3 witnesses with symbolic covered flags (at most one false), symbolic 32-byte keys, 64-byte signatures, symbolic 32-byte message; unwind 67
remaining_general!(c35_q_remaining_conway, |w, d| conway::verif_hooks::check_remaining_vk_wits(&mut w, d));
remaining_general!(c35_q_remaining_babbage, |w, d| babbage::verif_hooks::check_remaining_vk_wits(&mut w, d));
remaining_general!(c35_t_remaining_alonzo, |w, d| alonzo::verif_hooks::check_remaining_vk_wits(&mut w, d));
remaining_general!(c35_t_remaining_shelley_ma, |w, d| shelley_ma::verif_hooks::check_remaining_vk_wits(&mut w, d));
// bound: 2 witnesses, both uncovered, symbolic 32-byte keys, 64-byte signatures, symbolic 32-byte message; unwind 67
// finding: expected FAILED (returns Ok at the first uncovered witness that verifies)
remaining_second!(c35_q_remaining_second_conway, |w, d| conway::verif_hooks::check_remaining_vk_wits(&mut w, d));
remaining_second!(c35_q_remaining_second_babbage, |w, d| babbage::verif_hooks::check_remaining_vk_wits(&mut w, d));
remaining_second!(c35_q_remaining_second_alonzo, |w, d| alonzo::verif_hooks::check_remaining_vk_wits(&mut w, d));
remaining_second!(c35_q_remaining_second_shelley_ma, |w, d| shelley_ma::verif_hooks::check_remaining_vk_wits(&mut w, d));

// ------------------------------------------------------------------ check_vk_wit

macro_rules! vk_wit {
    ($name:ident, |$h:ident, $w:ident, $d:ident| $call:expr) => {
        #[kani::proof]
        #[kani::unwind(67)]
        #[kani::stub(std::fmt::format, crate::stubs::fmt_format_stub)]
        #[kani::stub(pallas_validate::utils::verify_signature, verify_sig_stub)]
        #[kani::stub(pallas_crypto::hash::Hasher::<224>::hash, hash224_stub)]
        fn $name() {
            let c: [bool; 2] = kani::any();
            let mut $w = vec![(c[0], wit()), (c[1], wit())];
            let hb: [u8; 28] = kani::any();
            let pkh: Hash<28> = Hash::new(hb);
            let $h = &pkh;
            let data = msg();
            let $d = &data[..];
            let r = $call;
            // specification: the first witness whose key hashes to pkh decides
            let m0 = heq(&Hasher::<224>::hash($w[0].1.vkey.as_slice()), &pkh);
            let m1 = heq(&Hasher::<224>::hash($w[1].1.vkey.as_slice()), &pkh);
            kani::cover!(r.is_ok() && m0, "first witness matches and verifies");
            kani::cover!(r.is_ok() && !m0 && m1, "second witness matches and verifies");
            kani::cover!(r.is_err() && (m0 || m1), "matching witness with a wrong signature");
            kani::cover!(r.is_err() && !m0 && !m1, "no witness for that key hash");
            if m0 {
                let v = verify_signature(&$w[0].1, $d);
                assert!(r.is_ok() == v, "Ok iff the (first) witness with that key hash verifies");
                assert!($w[0].0 == (c[0] || v), "the verified witness is marked covered");
                assert!($w[1].0 == c[1], "other flags unchanged");
            } else if m1 {
                let v = verify_signature(&$w[1].1, $d);
                assert!(r.is_ok() == v, "Ok iff the (first) witness with that key hash verifies");
                assert!($w[1].0 == (c[1] || v), "the verified witness is marked covered");
                assert!($w[0].0 == c[0], "other flags unchanged");
            } else {
                assert!(r.is_err(), "no witness with that key hash: Err");
                assert!($w[0].0 == c[0] && $w[1].0 == c[1], "flags unchanged");
            }
            core::mem::forget(r);
            core::mem::forget($w);
        }
    };
}

// bound: 2 witnesses with symbolic flags, symbolic 32-byte keys, 64-byte signatures, symbolic 28-byte key hash, symbolic 32-byte message; unwind 67
vk_wit!(c35_q_vk_wit_conway, |h, w, d| conway::verif_hooks::check_vk_wit(h, &mut w, d));
vk_wit!(c35_q_vk_wit_babbage, |h, w, d| babbage::verif_hooks::check_vk_wit(h, &mut w, d));
vk_wit!(c35_t_vk_wit_alonzo, |h, w, d| alonzo::verif_hooks::check_vk_wit(h, &mut w, d));
vk_wit!(c35_q_vk_wit_shelley_ma, |h, w, d| shelley_ma::verif_hooks::check_vk_wit(h, d, &mut w));

// ------------------------------------------------------------------ required signers

macro_rules! req_signer {
    ($name:ident, |$h:ident, $w:ident, $d:ident| $call:expr) => {
        #[kani::proof]
        #[kani::unwind(67)]
        #[kani::stub(std::fmt::format, crate::stubs::fmt_format_stub)]
        #[kani::stub(pallas_validate::utils::verify_signature, verify_sig_stub)]
        #[kani::stub(pallas_crypto::hash::Hasher::<224>::hash, hash224_stub)]
        fn $name() {
            let $w = vec![wit(), wit()];
            let hb: [u8; 28] = kani::any();
            let pkh: Hash<28> = Hash::new(hb);
            let $h = &pkh;
            let data = msg();
            let $d = &data[..];
            let r = $call;
            let m0 = heq(&Hasher::<224>::hash($w[0].vkey.as_slice()), &pkh);
            let m1 = heq(&Hasher::<224>::hash($w[1].vkey.as_slice()), &pkh);
            kani::cover!(r.is_ok() && !m0 && m1, "second witness is the signer");
            kani::cover!(r.is_err() && (m0 || m1), "signer's witness has a wrong signature");
            kani::cover!(r.is_err() && !m0 && !m1, "signer has no witness");
            if m0 {
                assert!(r.is_ok() == verify_signature(&$w[0], $d), "Ok iff the (first) witness of the signer verifies");
            } else if m1 {
                assert!(r.is_ok() == verify_signature(&$w[1], $d), "Ok iff the (first) witness of the signer verifies");
            } else {
                assert!(r.is_err(), "required signer without witness: Err");
            }
            core::mem::forget(r);
            core::mem::forget($w);
        }
    };
}

// bound: 2 witnesses (symbolic 32-byte keys, 64-byte signatures), symbolic 28-byte signer hash, symbolic 32-byte message; unwind 67
req_signer!(c35_q_req_signer_conway, |h, w, d| conway::verif_hooks::find_and_check_req_signer(h, &w, d));
req_signer!(c35_t_req_signer_babbage, |h, w, d| babbage::verif_hooks::find_and_check_req_signer(h, &w, d));
req_signer!(c35_t_req_signer_alonzo, |h, w, d| alonzo::verif_hooks::find_and_check_req_signer(h, &w, d));

macro_rules! req_signers {
    ($name:ident, |$s0:ident, $s1:ident| $mk:expr, |$rs:ident, $w:ident, $d:ident| $call:expr) => {
        #[kani::proof]
        #[kani::unwind(67)]
        #[kani::stub(std::fmt::format, crate::stubs::fmt_format_stub)]
        #[kani::stub(pallas_validate::utils::verify_signature, verify_sig_stub)]
        #[kani::stub(pallas_crypto::hash::Hasher::<224>::hash, hash224_stub)]
        fn $name() {
            let wv = vec![wit_sig1()];
            let a: [u8; 28] = kani::any();
            let b: [u8; 28] = kani::any();
            let $s0: Hash<28> = Hash::new(a);
            let $s1: Hash<28> = Hash::new(b);
            let sg = [$s0, $s1];
            let $rs = Some($mk);
            let data = msg1();
            let $d = &data[..];
            let h0 = Hasher::<224>::hash(wv[0].vkey.as_slice());
            let v0 = verify_signature(&wv[0], $d);
            let $w = Some(wv);
            let r = $call;
            kani::cover!(r.is_ok(), "both signers are the witness's key, which verifies");
            kani::cover!(r.is_err() && heq(&h0, &sg[0]) && v0, "first signer covered, second not");
            kani::cover!(r.is_err() && heq(&h0, &sg[0]) && heq(&h0, &sg[1]), "covered but wrong signature");
            if r.is_ok() {
                assert!(heq(&h0, &sg[0]) && heq(&h0, &sg[1]), "Ok => every required signer has a witness");
                assert!(v0, "Ok => every required signer's witness verifies");
            }
            core::mem::forget(r);
            core::mem::forget($w);
            core::mem::forget($rs);
        }
    };
}

// bound: 2 required signers (symbolic 28-byte hashes), 1 witness (symbolic 32-byte key; signature and message = the valid ones with a symbolic first byte); 2 signers x 2 witnesses gave no verdict in 600 s; unwind 67
req_signers!(c35_q_req_signers_conway, |s0, s1| NonEmptySet::from_vec(vec![s0, s1]).unwrap(), |rs, w, d| conway::verif_hooks::check_required_signers(&rs, &w, d));
req_signers!(c35_t_req_signers_babbage, |s0, s1| vec![s0, s1], |rs, w, d| babbage::verif_hooks::check_required_signers(&rs, &w, d));
req_signers!(c35_t_req_signers_alonzo, |s0, s1| vec![s0, s1], |rs, w, d| alonzo::verif_hooks::check_required_signers(&rs, &w, d));

/// no required signers: the rule does not apply
/// bound: required_signers = None or one symbolic signer, witness list None; unwind 67
#[kani::proof]
#[kani::unwind(67)]
#[kani::stub(std::fmt::format, crate::stubs::fmt_format_stub)]
#[kani::stub(pallas_validate::utils::verify_signature, verify_sig_stub)]
#[kani::stub(pallas_crypto::hash::Hasher::<224>::hash, hash224_stub)]
fn c35_q_req_signers_none() {
    let data = msg();
    let r = conway::verif_hooks::check_required_signers(&None, &None, &data);
    let r2 = alonzo::verif_hooks::check_required_signers(&None, &None, &data);
    let r3 = babbage::verif_hooks::check_required_signers(&None, &None, &data);
    kani::cover!(r.is_ok(), "accepted");
    assert!(r.is_ok() && r2.is_ok() && r3.is_ok(), "no required signers: Ok");
    let hb: [u8; 28] = kani::any();
    let rs = Some(vec![Hash::<28>::new(hb)]);
    let r4 = alonzo::verif_hooks::check_required_signers(&rs, &None, &data);
    let r5 = babbage::verif_hooks::check_required_signers(&rs, &None, &data);
    let crs = Some(NonEmptySet::from_vec(vec![Hash::<28>::new(hb)]).unwrap());
    let r6 = conway::verif_hooks::check_required_signers(&crs, &None, &data);
    assert!(r4.is_err() && r5.is_err() && r6.is_err(), "signers required but no witness list: Err");
    core::mem::forget((r, r2, r3, r4, r5, r6));
    core::mem::forget((rs, crs));
}

/// vacuity twin: must come back FAILED
#[kani::proof]
#[kani::unwind(67)]
#[kani::stub(std::fmt::format, crate::stubs::fmt_format_stub)]
#[kani::stub(pallas_validate::utils::verify_signature, verify_sig_stub)]
fn c35_v_twin() {
    let mut w = vec![(false, wit())];
    let data = msg();
    let r = conway::verif_hooks::check_remaining_vk_wits(&mut w, &data);
    assert!(r.is_err(), "twin: must fail");
    core::mem::forget(r);
    core::mem::forget(w);
}

// ------------------------------------------------------------------ mk_alonzo_vk_wits_check_list

/// The shared helper that turns the witness set into the (covered, witness) work list used by every era's
/// check_vkey_input_wits / check_witnesses must keep EVERY witness, in order, flagged uncovered: a witness that
/// is dropped here is never handed to verify_signature. Keys may coincide (symbolic first byte), signatures differ.
/// bound: 2 witnesses (and None) with one-byte symbolic keys and signatures (the helper is length-agnostic); unwind 8
#[kani::proof]
#[kani::unwind(8)]
#[kani::stub(std::fmt::format, crate::stubs::fmt_format_stub)]
fn c35_q_check_list_keeps_every_witness() {
    use pallas_validate::utils::{mk_alonzo_vk_wits_check_list, ValidationError, AlonzoError};
    // the helper does not look at lengths: one-byte keys and signatures keep a (possibly key-comparing) body small
    let mk = |kb: u8, sb: u8| VKeyWitness { vkey: Bytes::from(vec![kb]), signature: Bytes::from(vec![sb]) };
    let (k0, k1, s0, s1): (u8, u8, u8, u8) = (kani::any(), kani::any(), kani::any(), kani::any());
    let wits = Some(vec![mk(k0, s0), mk(k1, s1)]);
    let r = mk_alonzo_vk_wits_check_list(&wits, ValidationError::Alonzo(AlonzoError::VKWitnessMissing));
    match &r {
        Ok(l) => {
            assert!(l.len() == 2, "work list has one entry per witness of the witness set");
            assert!(!l[0].0 && !l[1].0, "every witness starts uncovered");
            assert!(l[0].1.vkey.as_slice()[0] == k0 && l[0].1.signature.as_slice()[0] == s0, "work list entry 0 is witness 0");
            assert!(l[1].1.vkey.as_slice()[0] == k1 && l[1].1.signature.as_slice()[0] == s1, "work list entry 1 is witness 1");
        }
        Err(_) => assert!(false, "a present witness set yields a work list"),
    }
    kani::cover!(k0 == k1 && s0 != s1, "same key, different signatures");
    core::mem::forget(r);
    core::mem::forget(wits);
    let none = mk_alonzo_vk_wits_check_list(&None, ValidationError::Alonzo(AlonzoError::VKWitnessMissing));
    assert!(none.is_err(), "an absent witness set is the given error");
    core::mem::forget(none);
}
