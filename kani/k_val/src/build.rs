//! Builders for ledger structs and protocol parameters (all fields are `pub`): every value is
//! constructed in the harness, never decoded.  Collections are empty unless a harness fills them;
//! nothing here is ever dropped (callers `mem::forget`).
use pallas_codec::utils::{Bytes, KeepRaw, Nullable, Set};
use pallas_primitives::{ExUnitPrices, ExUnits, Nonce, NonceVariant, RationalNumber};
use pallas_validate::utils::{AlonzoProtParams, BabbageProtParams, ByronProtParams, ConwayProtParams, ShelleyProtParams};
use std::collections::BTreeMap;

pub fn ri() -> RationalNumber {
    RationalNumber { numerator: 0, denominator: 1 }
}
pub fn start() -> chrono::DateTime<chrono::FixedOffset> {
    chrono::DateTime::<chrono::Utc>::UNIX_EPOCH.fixed_offset()
}
pub fn nonce() -> Nonce {
    Nonce { variant: NonceVariant::NeutralNonce, hash: None }
}
pub fn exu(mem: u64, steps: u64) -> ExUnits {
    ExUnits { mem, steps }
}
pub fn prices() -> ExUnitPrices {
    ExUnitPrices { mem_price: ri(), step_price: ri() }
}
/// symbolic byte string of concrete length N
#[cfg(kani)]
pub fn any_bytes<const N: usize>() -> Bytes {
    let a: [u8; N] = kani::any();
    Bytes::from(a.to_vec())
}

pub mod al {
    use super::*;
    pub use pallas_primitives::alonzo::*;
    pub fn body() -> TransactionBody {
        TransactionBody {
            inputs: Vec::new(),
            outputs: Vec::new(),
            fee: 0,
            ttl: None,
            certificates: None,
            withdrawals: None,
            update: None,
            auxiliary_data_hash: None,
            validity_interval_start: None,
            mint: None,
            script_data_hash: None,
            collateral: None,
            required_signers: None,
            network_id: None,
        }
    }
    pub fn wits<'b>() -> WitnessSet<'b> {
        WitnessSet {
            vkeywitness: None,
            native_script: None,
            bootstrap_witness: None,
            plutus_script: None,
            plutus_data: None,
            redeemer: None,
        }
    }
    pub fn aux() -> AuxiliaryData {
        AuxiliaryData::Shelley(BTreeMap::new())
    }
    pub fn pp() -> AlonzoProtParams {
        AlonzoProtParams {
            system_start: start(),
            epoch_length: 0,
            slot_length: 0,
            minfee_a: 0,
            minfee_b: 0,
            max_block_body_size: 0,
            max_transaction_size: 0,
            max_block_header_size: 0,
            key_deposit: 0,
            pool_deposit: 0,
            desired_number_of_stake_pools: 0,
            protocol_version: (0, 0),
            min_pool_cost: 0,
            ada_per_utxo_byte: 0,
            cost_models_for_script_languages: BTreeMap::new(),
            execution_costs: prices(),
            max_tx_ex_units: exu(0, 0),
            max_block_ex_units: exu(0, 0),
            max_value_size: 0,
            collateral_percentage: 0,
            max_collateral_inputs: 0,
            expansion_rate: ri(),
            treasury_growth_rate: ri(),
            maximum_epoch: 0,
            pool_pledge_influence: ri(),
            decentralization_constant: ri(),
            extra_entropy: nonce(),
        }
    }
    pub fn spp() -> ShelleyProtParams {
        ShelleyProtParams {
            system_start: start(),
            epoch_length: 0,
            slot_length: 0,
            minfee_a: 0,
            minfee_b: 0,
            max_block_body_size: 0,
            max_transaction_size: 0,
            max_block_header_size: 0,
            key_deposit: 0,
            pool_deposit: 0,
            desired_number_of_stake_pools: 0,
            protocol_version: (0, 0),
            min_utxo_value: 0,
            min_pool_cost: 0,
            expansion_rate: ri(),
            treasury_growth_rate: ri(),
            maximum_epoch: 0,
            pool_pledge_influence: ri(),
            decentralization_constant: ri(),
            extra_entropy: nonce(),
        }
    }
}

pub mod ba {
    use super::*;
    pub use pallas_primitives::babbage::*;
    pub fn body<'b>() -> TransactionBody<'b> {
        TransactionBody {
            inputs: Vec::new(),
            outputs: Vec::new(),
            fee: 0,
            ttl: None,
            certificates: None,
            withdrawals: None,
            update: None,
            auxiliary_data_hash: None,
            validity_interval_start: None,
            mint: None,
            script_data_hash: None,
            collateral: None,
            required_signers: None,
            network_id: None,
            collateral_return: None,
            total_collateral: None,
            reference_inputs: None,
        }
    }
    pub fn wits<'b>() -> WitnessSet<'b> {
        WitnessSet {
            vkeywitness: None,
            native_script: None,
            bootstrap_witness: None,
            plutus_v1_script: None,
            plutus_data: None,
            redeemer: None,
            plutus_v2_script: None,
        }
    }
    pub fn aux() -> AuxiliaryData {
        AuxiliaryData::Shelley(BTreeMap::new())
    }
    pub fn pp() -> BabbageProtParams {
        BabbageProtParams {
            system_start: start(),
            epoch_length: 0,
            slot_length: 0,
            minfee_a: 0,
            minfee_b: 0,
            max_block_body_size: 0,
            max_transaction_size: 0,
            max_block_header_size: 0,
            key_deposit: 0,
            pool_deposit: 0,
            desired_number_of_stake_pools: 0,
            protocol_version: (0, 0),
            min_pool_cost: 0,
            ada_per_utxo_byte: 0,
            cost_models_for_script_languages: CostModels { plutus_v1: None, plutus_v2: None },
            execution_costs: prices(),
            max_tx_ex_units: exu(0, 0),
            max_block_ex_units: exu(0, 0),
            max_value_size: 0,
            collateral_percentage: 0,
            max_collateral_inputs: 0,
            expansion_rate: ri(),
            treasury_growth_rate: ri(),
            maximum_epoch: 0,
            pool_pledge_influence: ri(),
            decentralization_constant: ri(),
            extra_entropy: nonce(),
        }
    }
}

pub mod co {
    use super::*;
    pub use pallas_primitives::conway::*;
    pub fn body<'b>() -> TransactionBody<'b> {
        TransactionBody {
            inputs: Set::from(Vec::new()),
            outputs: Vec::new(),
            fee: 0,
            ttl: None,
            certificates: None,
            withdrawals: None,
            auxiliary_data_hash: None,
            validity_interval_start: None,
            mint: None,
            script_data_hash: None,
            collateral: None,
            required_signers: None,
            network_id: None,
            collateral_return: None,
            total_collateral: None,
            reference_inputs: None,
            voting_procedures: None,
            proposal_procedures: None,
            treasury_value: None,
            donation: None,
        }
    }
    pub fn wits<'b>() -> WitnessSet<'b> {
        WitnessSet {
            vkeywitness: None,
            native_script: None,
            bootstrap_witness: None,
            plutus_v1_script: None,
            plutus_data: None,
            redeemer: None,
            plutus_v2_script: None,
            plutus_v3_script: None,
        }
    }
    pub fn aux() -> AuxiliaryData {
        AuxiliaryData::Shelley(BTreeMap::new())
    }
    pub fn pp() -> ConwayProtParams {
        ConwayProtParams {
            system_start: start(),
            epoch_length: 0,
            slot_length: 0,
            minfee_a: 0,
            minfee_b: 0,
            max_block_body_size: 0,
            max_transaction_size: 0,
            max_block_header_size: 0,
            key_deposit: 0,
            pool_deposit: 0,
            desired_number_of_stake_pools: 0,
            protocol_version: (0, 0),
            min_pool_cost: 0,
            ada_per_utxo_byte: 0,
            cost_models_for_script_languages: CostModels {
                plutus_v1: None,
                plutus_v2: None,
                plutus_v3: None,
                unknown: BTreeMap::new(),
            },
            execution_costs: prices(),
            max_tx_ex_units: exu(0, 0),
            max_block_ex_units: exu(0, 0),
            max_value_size: 0,
            collateral_percentage: 0,
            max_collateral_inputs: 0,
            expansion_rate: ri(),
            treasury_growth_rate: ri(),
            maximum_epoch: 0,
            pool_pledge_influence: ri(),
            pool_voting_thresholds: PoolVotingThresholds {
                motion_no_confidence: ri(),
                committee_normal: ri(),
                committee_no_confidence: ri(),
                hard_fork_initiation: ri(),
                security_voting_threshold: ri(),
            },
            drep_voting_thresholds: DRepVotingThresholds {
                motion_no_confidence: ri(),
                committee_normal: ri(),
                committee_no_confidence: ri(),
                update_constitution: ri(),
                hard_fork_initiation: ri(),
                pp_network_group: ri(),
                pp_economic_group: ri(),
                pp_technical_group: ri(),
                pp_governance_group: ri(),
                treasury_withdrawal: ri(),
            },
            min_committee_size: 0,
            committee_term_limit: 0,
            governance_action_validity_period: 0,
            governance_action_deposit: 0,
            drep_deposit: 0,
            drep_inactivity_period: 0,
            minfee_refscript_cost_per_byte: ri(),
        }
    }
}

pub fn byron_pp() -> ByronProtParams {
    ByronProtParams {
        block_version: (0, 0, 0),
        start_time: 0,
        script_version: 0,
        slot_duration: 0,
        max_block_size: 0,
        max_header_size: 0,
        max_tx_size: 0,
        max_proposal_size: 0,
        mpc_thd: 0,
        heavy_del_thd: 0,
        update_vote_thd: 0,
        update_proposal_thd: 0,
        update_implicit: 0,
        soft_fork_rule: (0, 0, 0),
        summand: 0,
        multiplier: 0,
        unlock_stake_epoch: 0,
    }
}
