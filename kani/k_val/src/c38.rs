//! C38: each implemented (HashMap-free) ledger rule rejects a transaction that breaks it.
//! fn: pallas_validate::phase1::{alonzo,babbage,conway}::{check_ins_not_empty,check_tx_validity_interval,check_tx_network_id,check_tx_outs_network_id,check_network_id,check_tx_size,check_min_fee,check_tx_ex_units,check_collaterals_number,check_auxiliary_data}
//! fn: pallas_validate::phase1::shelley_ma::{check_ins_not_empty,check_ttl,check_network_id,check_tx_size,check_fees,check_metadata}, byron::{check_ins_not_empty,check_outs_not_empty,check_outs_have_lovelace,check_size}
//! stub: std::fmt::format -> empty String
//! stub: aux-data harnesses: pallas_crypto::hash::Hasher::<256>::hash -> recording stub (first 31 bytes of the input + its length; the violation is phrased through Hasher::<256>::hash itself, so it is the same statement for the real Blake2b-256)
//! stub: conway ex-units harness: <conway::Redeemers as Clone>::clone -> bitwise alias (see c37.rs)
//! assume: min-fee rule: minfee_b + minfee_a * size fits u32 (C33 isolates the wrap); ex-units: every redeemer's mem / steps < 2^63 (C37 isolates the overflow)
//! outside: rules reading the UTxO or multi-asset maps (inputs in UTxO, collateral kind/amount/annotation, value preservation, minting policies, script/datum witnesses, redeemer coverage, script-integrity hash, languages, min-ada with assets, value size); outputs in the post-alonzo (map) form and symbolic address headers (no verdict, see c33.rs); that validate_*_tx calls every rule (sequencing: engine M)
use crate::build::{al, ba, byron_pp, co, exu};
use crate::c33::{al_out, any_network, ba_legacy, co_legacy, input};
use crate::c37::{al_redeemer, co_redeemer, redeemers_alias_stub, script};
use pallas_codec::utils::{Bytes, EmptyMap, KeepRaw, MaybeIndefArray, NonEmptySet, Nullable, Set, TagWrap};
use pallas_crypto::hash::{Hash, Hasher};
use pallas_primitives::NetworkId;
use pallas_validate::phase1::{alonzo, babbage, byron, conway, shelley_ma};

fn net_val(n: Option<NetworkId>) -> Option<u8> {
    match n {
        None => None,
        Some(NetworkId::Testnet) => Some(0),
        Some(NetworkId::Mainnet) => Some(1),
    }
}

// ------------------------------------------------------------------ scalar rules

macro_rules! scalar_rules {
    ($name:ident, $m:ident, $hooks:path, $mkpp:expr, |$b:ident, $slot:ident| $interval:expr, $inputs:expr) => {
        #[kani::proof]
        #[kani::unwind(5)]
        #[kani::stub(std::fmt::format, crate::stubs::fmt_format_stub)]
        fn $name() {
            use $hooks as h;
            let mut body = $m::body();
            body.fee = kani::any();
            body.ttl = kani::any();
            body.validity_interval_start = kani::any();
            body.network_id = any_network();
            let has_input: bool = kani::any();
            if has_input {
                body.inputs = $inputs;
            }
            let mut pp = $mkpp;
            pp.minfee_a = kani::any();
            pp.minfee_b = kani::any();
            pp.max_transaction_size = kani::any();
            pp.max_collateral_inputs = kani::any();
            let size: u32 = kani::any();
            let minfee = pp.minfee_b as u64 + pp.minfee_a as u64 * size as u64;
            kani::assume(minfee <= u32::MAX as u64);
            let slot: u64 = kani::any();
            let net: u8 = kani::any();
            // R1 non-empty inputs
            let r1 = h::check_ins_not_empty(&body);
            kani::cover!(!has_input, "R1 violated");
            kani::cover!(r1.is_ok(), "R1 satisfied");
            if !has_input {
                assert!(r1.is_err(), "no inputs => check_ins_not_empty is Err");
            }
            // R2 validity interval
            let r2 = {
                let $b = &body;
                let $slot = &slot;
                $interval
            };
            let before = matches!(body.validity_interval_start, Some(s) if slot < s);
            let after = matches!(body.ttl, Some(t) if t < slot);
            kani::cover!(before && !after, "R2 violated: slot before the interval");
            kani::cover!(after && !before, "R2 violated: slot after the ttl");
            kani::cover!(r2.is_ok(), "R2 satisfied");
            if before || after {
                assert!(r2.is_err(), "slot outside [start, ttl] => check_tx_validity_interval is Err");
            }
            // R3 tx network id
            let r3 = h::check_tx_network_id(&body, &net);
            let r3b = h::check_network_id(&body, &net);
            let wrong = matches!(net_val(body.network_id), Some(v) if v != net);
            kani::cover!(wrong, "R3 violated");
            kani::cover!(r3.is_ok() && body.network_id.is_some(), "R3 satisfied");
            if wrong {
                assert!(r3.is_err(), "tx network id != network => check_tx_network_id is Err");
                assert!(r3b.is_err(), "tx network id != network => check_network_id is Err");
            }
            // R5 max tx size
            let r5 = h::check_tx_size(&size, &pp);
            kani::cover!(size as u64 == pp.max_transaction_size as u64 + 1, "R5 violated by one byte");
            kani::cover!(r5.is_ok(), "R5 satisfied");
            if size > pp.max_transaction_size {
                assert!(r5.is_err(), "size > max => check_tx_size is Err");
            }
            // R6 min fee
            let r6 = h::check_min_fee(&body, &size, &pp);
            kani::cover!(minfee > 0 && body.fee == minfee - 1, "R6 violated by one lovelace");
            kani::cover!(r6.is_ok() && minfee > 1000, "R6 satisfied");
            if body.fee < minfee {
                assert!(r6.is_err(), "fee < b + a*size => check_min_fee is Err");
            }
            // R8 collateral count
            let cols = [input(), input()];
            let nc: usize = kani::any();
            kani::assume(nc <= 2);
            let r8 = h::check_collaterals_number(&cols[..nc], &pp);
            kani::cover!(nc == 0, "R8 violated: no collateral");
            kani::cover!(nc == 2 && pp.max_collateral_inputs == 1, "R8 violated: too many");
            kani::cover!(r8.is_ok(), "R8 satisfied");
            if nc == 0 || nc as u32 > pp.max_collateral_inputs {
                assert!(r8.is_err(), "0 or more than max collateral inputs => check_collaterals_number is Err");
            }
            core::mem::forget((r1, r2, r3, r3b, r5, r6, r8));
            core::mem::forget(pp);
            core::mem::forget(body);
        }
    };
}

// bound: built body with symbolic fee, ttl, validity start, tx network id, 0/1 inputs; symbolic slot, network id, size, minfee_a/b (b + a*size <= u32::MAX), max size, 0..=2 collateral inputs, max collateral inputs; unwind 5
scalar_rules!(c38_q_scalar_rules_conway, co, conway::verif_hooks, co::pp(), |b, s| conway::verif_hooks::check_tx_validity_interval(b, s), Set::from(vec![input()]));
scalar_rules!(c38_q_scalar_rules_babbage, ba, babbage::verif_hooks, ba::pp(), |b, s| babbage::verif_hooks::check_tx_validity_interval(b, s), vec![input()]);

/// bound: alonzo: as the other scalar-rule harnesses; unwind 5
#[kani::proof]
#[kani::unwind(5)]
#[kani::stub(std::fmt::format, crate::stubs::fmt_format_stub)]
fn c38_q_scalar_rules_alonzo() {
    use alonzo::verif_hooks as h;
    let raw = [0u8; 1];
    let mut body = al::body();
    body.fee = kani::any();
    body.ttl = kani::any();
    body.validity_interval_start = kani::any();
    body.network_id = any_network();
    let has_input: bool = kani::any();
    if has_input {
        body.inputs = vec![input()];
    }
    let mut pp = al::pp();
    pp.minfee_a = kani::any();
    pp.minfee_b = kani::any();
    pp.max_transaction_size = kani::any();
    pp.max_collateral_inputs = kani::any();
    let size: u32 = kani::any();
    let minfee = pp.minfee_b as u64 + pp.minfee_a as u64 * size as u64;
    kani::assume(minfee <= u32::MAX as u64);
    let slot: u64 = kani::any();
    let net: u8 = kani::any();
    let tx = al::Tx {
        transaction_body: KeepRaw::verif_from_parts(&raw, al::body()),
        transaction_witness_set: KeepRaw::verif_from_parts(&raw, al::wits()),
        success: true,
        auxiliary_data: Nullable::Null,
    };
    let r1 = h::check_ins_not_empty(&body);
    if !has_input {
        assert!(r1.is_err(), "no inputs => check_ins_not_empty is Err");
    }
    let r2 = h::check_tx_validity_interval(&body, &tx, &slot);
    let before = matches!(body.validity_interval_start, Some(s) if slot < s);
    let after = matches!(body.ttl, Some(t) if t < slot);
    kani::cover!(before && !after, "R2 violated: slot before the interval");
    kani::cover!(after && !before, "R2 violated: slot after the ttl");
    kani::cover!(r2.is_ok(), "R2 satisfied");
    if before || after {
        assert!(r2.is_err(), "slot outside [start, ttl] => check_tx_validity_interval is Err");
    }
    let r3 = h::check_tx_network_id(&body, &net);
    let r3b = h::check_network_id(&body, &net);
    let wrong = matches!(net_val(body.network_id), Some(v) if v != net);
    kani::cover!(wrong, "R3 violated");
    if wrong {
        assert!(r3.is_err(), "tx network id != network => check_tx_network_id is Err");
        assert!(r3b.is_err(), "tx network id != network => check_network_id is Err");
    }
    let r5 = h::check_tx_size(&size, &pp);
    kani::cover!(size as u64 == pp.max_transaction_size as u64 + 1, "R5 violated by one byte");
    if size > pp.max_transaction_size {
        assert!(r5.is_err(), "size > max => check_tx_size is Err");
    }
    let r6 = h::check_min_fee(&body, &size, &pp);
    kani::cover!(minfee > 0 && body.fee == minfee - 1, "R6 violated by one lovelace");
    kani::cover!(r6.is_ok() && minfee > 1000, "R6 satisfied");
    if body.fee < minfee {
        assert!(r6.is_err(), "fee < b + a*size => check_min_fee is Err");
    }
    let cols = [input(), input()];
    let nc: usize = kani::any();
    kani::assume(nc <= 2);
    let r8 = h::check_collaterals_number(&cols[..nc], &pp);
    kani::cover!(nc == 2 && pp.max_collateral_inputs == 1, "R8 violated: too many");
    kani::cover!(r8.is_ok(), "R8 satisfied");
    if nc == 0 || nc as u32 > pp.max_collateral_inputs {
        assert!(r8.is_err(), "0 or more than max collateral inputs => check_collaterals_number is Err");
    }
    core::mem::forget((r1, r2, r3, r3b, r5, r6, r8));
    core::mem::forget(pp);
    core::mem::forget(body);
    core::mem::forget(tx);
}

/// bound: shelley-ma body with symbolic fee, ttl (None allowed), 0/1 inputs; symbolic slot, size, minfee_a/b (no wrap), max size; unwind 5
#[kani::proof]
#[kani::unwind(5)]
#[kani::stub(std::fmt::format, crate::stubs::fmt_format_stub)]
fn c38_q_scalar_rules_shelley_ma() {
    use shelley_ma::verif_hooks as h;
    let mut body = al::body();
    body.fee = kani::any();
    body.ttl = kani::any();
    let has_input: bool = kani::any();
    if has_input {
        body.inputs = vec![input()];
    }
    let mut pp = al::spp();
    pp.minfee_a = kani::any();
    pp.minfee_b = kani::any();
    pp.max_transaction_size = kani::any();
    let size: u32 = kani::any();
    let minfee = pp.minfee_b as u64 + pp.minfee_a as u64 * size as u64;
    kani::assume(minfee <= u32::MAX as u64);
    let slot: u64 = kani::any();
    let r1 = h::check_ins_not_empty(&body);
    if !has_input {
        assert!(r1.is_err(), "shelley: no inputs => Err");
    }
    let r2 = h::check_ttl(&body, &slot);
    kani::cover!(matches!(body.ttl, Some(t) if t < slot), "ttl exceeded");
    kani::cover!(r2.is_ok(), "ttl fine");
    if matches!(body.ttl, Some(t) if t < slot) {
        assert!(r2.is_err(), "shelley: ttl < slot => check_ttl is Err");
    }
    let r5 = h::check_tx_size(&size, &pp);
    if size > pp.max_transaction_size {
        assert!(r5.is_err(), "shelley: size > max => check_tx_size is Err");
    }
    let r6 = h::check_fees(&body, &size, &pp);
    kani::cover!(minfee > 0 && body.fee == minfee - 1, "fee one lovelace short");
    kani::cover!(r6.is_ok() && minfee > 1000, "fee fine");
    if body.fee < minfee {
        assert!(r6.is_err(), "shelley: fee < b + a*size => check_fees is Err");
    }
    core::mem::forget((r1, r2, r5, r6));
    core::mem::forget(pp);
    core::mem::forget(body);
}

/// bound: byron: empty input / output lists (the violating side; with one element the validator's clone-and-drop of the heap-held list has no verdict in 280 s), one output with symbolic amount for the lovelace rule (stack-backed Vec, only iterated), symbolic size and max_tx_size; unwind 5
#[kani::proof]
#[kani::unwind(5)]
#[kani::stub(std::fmt::format, crate::stubs::fmt_format_stub)]
fn c38_q_scalar_rules_byron() {
    use pallas_primitives::byron as by;
    let amount: u64 = kani::any();
    let mut oa = [by::TxOut { address: by::Address { payload: TagWrap::new(Vec::new().into()), crc: kani::any() }, amount }];
    let outs = unsafe { Vec::from_raw_parts(oa.as_mut_ptr(), 1, 0) };
    let empty = by::Tx { inputs: MaybeIndefArray::Def(Vec::new()), outputs: MaybeIndefArray::Indef(Vec::new()), attributes: EmptyMap };
    let btx = by::Tx { inputs: MaybeIndefArray::Def(Vec::new()), outputs: MaybeIndefArray::Def(outs), attributes: EmptyMap };
    let q1 = byron::verif_hooks::check_ins_not_empty(&empty);
    let q2 = byron::verif_hooks::check_outs_not_empty(&empty);
    let q3 = byron::verif_hooks::check_outs_have_lovelace(&btx);
    kani::cover!(q3.is_ok(), "byron: output with lovelace accepted");
    kani::cover!(amount == 0, "byron: zero-lovelace output");
    assert!(q1.is_err(), "byron: no inputs => Err");
    assert!(q2.is_err(), "byron: no outputs => Err");
    if amount == 0 {
        assert!(q3.is_err(), "byron: output without lovelace => Err");
    }
    let mut bpp = byron_pp();
    bpp.max_tx_size = kani::any();
    let bsize: u64 = kani::any();
    let q4 = byron::verif_hooks::check_size(&bsize, &bpp);
    kani::cover!(q4.is_err(), "byron: too large");
    kani::cover!(q4.is_ok(), "byron: size fine");
    if bsize > bpp.max_tx_size {
        assert!(q4.is_err(), "byron: size > max => check_size is Err");
    }
    core::mem::forget((q1, q2, q3, q4));
    core::mem::forget((btx, empty));
    core::mem::forget(oa);
}

// ------------------------------------------------------------------ R4 output network id

/// `$k` = network nibble of the (concrete) address header; legacy-form output on a stack-backed Vec (see c33.rs)
macro_rules! out_net {
    ($name:ident, $m:ident, $k:expr, |$raw:ident| $mkout:expr, |$b:ident, $n:ident| $outs:expr, |$b2:ident, $n2:ident| $all:expr) => {
        #[kani::proof]
        #[kani::unwind(60)]
        #[kani::stub(std::fmt::format, crate::stubs::fmt_format_stub)]
        fn $name() {
            let raw0 = [0u8; 1];
            let $raw = &raw0;
            let mut body = $m::body();
            let mut arr = [$mkout];
            body.outputs = unsafe { Vec::from_raw_parts(arr.as_mut_ptr(), 1, 0) };
            let net: u8 = kani::any();
            let r = {
                let $b = &body;
                let $n = &net;
                $outs
            };
            let r2 = {
                let $b2 = &body;
                let $n2 = &net;
                $all
            };
            kani::cover!(net != $k, "R4 violated");
            kani::cover!(r.is_ok(), "R4 satisfied");
            if net != $k {
                assert!(r.is_err(), "output address network != network => outputs' network check is Err");
                assert!(r2.is_err(), "output address network != network => check_network_id is Err");
            }
            core::mem::forget((r, r2));
            core::mem::forget(body);
            core::mem::forget(arr);
        }
    };
}

// bound: one legacy-form coin-only output, address header concrete per harness (enterprise 0x61 / 0x60 / 0x65 with 29 bytes, base 0x01 with 57 bytes), payload symbolic, symbolic network id; unwind 60
out_net!(c38_q_out_net_conway, co, 1, |raw| co_legacy::<29>(raw, 0x61), |b, n| conway::verif_hooks::check_tx_outs_network_id(b, n), |b, n| conway::verif_hooks::check_network_id(b, n));
out_net!(c38_q_out_net_babbage, ba, 0, |raw| ba_legacy::<29>(raw, 0x60), |b, n| babbage::verif_hooks::check_tx_outs_network_id(b, n), |b, n| babbage::verif_hooks::check_network_id(b, n));
out_net!(c38_q_out_net_alonzo, al, 5, |raw| al_out::<29>(0x65), |b, n| alonzo::verif_hooks::check_tx_outs_network_id(b, n), |b, n| alonzo::verif_hooks::check_network_id(b, n));
out_net!(c38_q_out_net_shelley_ma, al, 1, |raw| al_out::<57>(0x01), |b, n| shelley_ma::verif_hooks::check_network_id(b, n), |b, n| shelley_ma::verif_hooks::check_network_id(b, n));

// ------------------------------------------------------------------ R7 ex-units

macro_rules! ex_units_vec {
    ($name:ident, $m:ident, $hook:path, $field:ident, $n:tt) => {
        #[kani::proof]
        #[kani::unwind(5)]
        #[kani::stub(std::fmt::format, crate::stubs::fmt_format_stub)]
        fn $name() {
            let raw = [0u8; 1];
            let mut w = $m::wits();
            w.$field = Some(vec![script()]);
            let mut reds = Vec::new();
            let mut sm: u128 = 0;
            let mut ss: u128 = 0;
            let mut i = 0;
            while i < $n {
                let r = al_redeemer(true);
                sm += r.ex_units.mem as u128;
                ss += r.ex_units.steps as u128;
                reds.push(r);
                i += 1;
            }
            w.redeemer = Some(reds);
            let tx = $m::Tx {
                transaction_body: KeepRaw::verif_from_parts(&raw, $m::body()),
                transaction_witness_set: KeepRaw::verif_from_parts(&raw, w),
                success: true,
                auxiliary_data: Nullable::Null,
            };
            let mut pp = $m::pp();
            pp.max_tx_ex_units = exu(kani::any(), kani::any());
            pp.max_block_ex_units = exu(kani::any(), kani::any()); // independent of the per-transaction limit
            let r = $hook(&tx, &pp);
            let over = sm > pp.max_tx_ex_units.mem as u128 || ss > pp.max_tx_ex_units.steps as u128;
            kani::cover!(over, "R7 violated");
            kani::cover!(r.is_ok(), "R7 satisfied");
            if over {
                assert!(r.is_err(), "sum of ex-units > max => check_tx_ex_units is Err");
            }
            core::mem::forget(r);
            core::mem::forget(pp);
            core::mem::forget(tx);
        }
    };
}
// bound: one Plutus script, 2 redeemers with symbolic ex-units < 2^63, symbolic limits; unwind 5
ex_units_vec!(c38_q_ex_units_alonzo, al, alonzo::verif_hooks::check_tx_ex_units, plutus_script, 2);
ex_units_vec!(c38_q_ex_units_babbage, ba, babbage::verif_hooks::check_tx_ex_units, plutus_v2_script, 2);

/// bound: conway, one PlutusV3 script, Redeemers::List of 1 redeemer with symbolic ex-units < 2^63, symbolic limits (stack-backed Vec, clone = alias: see c37.rs); unwind 5
/// finding: expected FAILED (C37: the budget is never summed in Conway)
#[kani::proof]
#[kani::unwind(5)]
#[kani::stub(std::fmt::format, crate::stubs::fmt_format_stub)]
#[kani::stub(<pallas_primitives::conway::Redeemers as std::clone::Clone>::clone, redeemers_alias_stub)]
fn c38_q_ex_units_conway() {
    let raw = [0u8; 1];
    let mut w = co::wits();
    w.plutus_v3_script = NonEmptySet::from_vec(vec![script()]);
    let mut arr = [co_redeemer(true)];
    let sm = arr[0].ex_units.mem;
    let ss = arr[0].ex_units.steps;
    let reds = unsafe { Vec::from_raw_parts(arr.as_mut_ptr(), 1, 0) };
    w.redeemer = Some(KeepRaw::verif_from_parts(&raw, co::Redeemers::List(reds)));
    let tx = co::Tx {
        transaction_body: KeepRaw::verif_from_parts(&raw, co::body()),
        transaction_witness_set: KeepRaw::verif_from_parts(&raw, w),
        success: true,
        auxiliary_data: Nullable::Null,
    };
    let mut pp = co::pp();
    pp.max_tx_ex_units = exu(kani::any(), kani::any());
            pp.max_block_ex_units = exu(kani::any(), kani::any()); // independent of the per-transaction limit
    let r = conway::verif_hooks::check_tx_ex_units(&tx, &pp);
    let over = sm > pp.max_tx_ex_units.mem || ss > pp.max_tx_ex_units.steps;
    kani::cover!(over, "R7 violated");
    kani::cover!(r.is_ok(), "accepted");
    if over {
        assert!(r.is_err(), "sum of ex-units > max => check_tx_ex_units is Err");
    }
    core::mem::forget(r);
    core::mem::forget(pp);
    core::mem::forget(tx);
    core::mem::forget(arr);
}

// ------------------------------------------------------------------ R9 auxiliary data hash

pub fn hash256_stub(bytes: &[u8]) -> Hash<32> {
    let mut d = [0u8; 32];
    let mut i = 0;
    while i < 31 {
        if i < bytes.len() {
            d[i] = bytes[i];
        }
        i += 1;
    }
    d[31] = bytes.len() as u8;
    Hash::new(d)
}
fn eq(a: &[u8], b: &[u8]) -> bool {
    if a.len() != b.len() {
        return false;
    }
    let mut i = 0;
    while i < a.len() {
        if a[i] != b[i] {
            return false;
        }
        i += 1;
    }
    true
}

macro_rules! aux_hash {
    ($name:ident, $m:ident, |$h:ident| $mkhash:expr, |$b:ident, $t:ident| $call:expr) => {
        #[kani::proof]
        #[kani::unwind(36)]
        #[kani::stub(std::fmt::format, crate::stubs::fmt_format_stub)]
        #[kani::stub(pallas_crypto::hash::Hasher::<256>::hash, hash256_stub)]
        fn $name() {
            let raw = [0u8; 1];
            let ab: [u8; 8] = kani::any();
            let alen: usize = kani::any();
            kani::assume(alen >= 1 && alen <= 8);
            let has_aux: bool = kani::any();
            let has_hash: bool = kani::any();
            let $h: [u8; 32] = kani::any();
            let mut body = $m::body();
            if has_hash {
                body.auxiliary_data_hash = Some($mkhash);
            }
            let tx = $m::Tx {
                transaction_body: KeepRaw::verif_from_parts(&raw, $m::body()),
                transaction_witness_set: KeepRaw::verif_from_parts(&raw, $m::wits()),
                success: true,
                auxiliary_data: if has_aux { Nullable::Some(KeepRaw::verif_from_parts(&ab[..alen], $m::aux())) } else { Nullable::Null },
            };
            let r = {
                let $b = &body;
                let $t = &tx;
                $call
            };
            let real = Hasher::<256>::hash(&ab[..alen]);
            let mismatch = has_aux && has_hash && !eq(&$h, real.as_ref());
            let violated = has_aux != has_hash || mismatch;
            kani::cover!(has_aux && !has_hash, "R9 violated: aux data without hash");
            kani::cover!(!has_aux && has_hash, "R9 violated: hash without aux data");
            kani::cover!(mismatch, "R9 violated: hash of something else");
            kani::cover!(r.is_ok() && has_aux, "R9 satisfied with aux data");
            kani::cover!(r.is_ok() && !has_aux, "R9 satisfied without");
            if violated {
                assert!(r.is_err(), "aux data / aux-data hash missing or mismatching => Err");
            }
            core::mem::forget(r);
            core::mem::forget(body);
            core::mem::forget(tx);
        }
    };
}

// bound: aux data Some(raw of symbolic length 1..=8) / Null, body hash None / Some(32 symbolic bytes); unwind 36
aux_hash!(c38_q_aux_hash_conway, co, |h| Hash::new(h), |b, t| conway::verif_hooks::check_auxiliary_data(b, t));
aux_hash!(c38_q_aux_hash_babbage, ba, |h| Bytes::from(h.to_vec()), |b, t| babbage::verif_hooks::check_auxiliary_data(b, t));
aux_hash!(c38_q_aux_hash_alonzo, al, |h| Hash::new(h), |b, t| alonzo::verif_hooks::check_auxiliary_data(b, t));
aux_hash!(c38_t_aux_hash_shelley_ma, al, |h| Hash::new(h), |b, t| shelley_ma::verif_hooks::check_metadata(b, t));

/// vacuity twin: must come back FAILED
#[kani::proof]
#[kani::unwind(5)]
#[kani::stub(std::fmt::format, crate::stubs::fmt_format_stub)]
fn c38_v_twin() {
    let mut body = co::body();
    body.network_id = any_network();
    let net: u8 = kani::any();
    let r = conway::verif_hooks::check_tx_network_id(&body, &net);
    assert!(r.is_err(), "twin: must fail");
    core::mem::forget(r);
    core::mem::forget(body);
}
