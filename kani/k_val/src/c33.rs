//! C33: phase-1 validation is total (no panic) -- the HashMap-free rule functions on built minimal bodies.
//! fn: pallas_validate::utils::verify_signature
//! fn: pallas_validate::phase1::{alonzo,babbage,conway}::{check_ins_not_empty,check_tx_validity_interval,check_min_fee,check_tx_size,check_network_id,check_min_lovelace,check_collaterals_number,check_tx_ex_units}
//! fn: pallas_validate::phase1::shelley_ma::{check_ins_not_empty,check_ttl,check_fees,check_tx_size,check_network_id,check_min_lovelace}, byron::check_size
//! stub: std::fmt::format -> empty String
//! stub: minicbor::encode::Error::write -> Error::message (check_min_lovelace encodes the value into a Vec<u8>)
//! stub: c33_q_verify_signature_* only: pallas_crypto::key::ed25519::PublicKey::verify -> arbitrary bool (Ed25519 arithmetic is not decidable here; trusted total, C11)
//! assume: well-known protocol parameters: minfee_b + minfee_a * size fits u32 (general harnesses; the wrap for mainnet's a = 44, b = 155381 and a size >= 97.6 MB is isolated in c33_q_min_fee_wrap_*), ada_per_utxo_byte < 2^32
//! assume: ex-units harnesses (c37_* family, shared): every redeemer's mem / steps < 2^63; unrestricted: c37_q_overflow_*
//! outside: everything that consults the UTxO HashMap or adds multi-asset values (check_preservation_of_value, collateral balance, minting, witnesses, script data hash: the unwraps in conway_coerce_to_coin are exactly there); outputs carrying assets, datums or scripts; more than one output; babbage/conway outputs in the post-alonzo (map) form (tried: no verdict in 280 s for either rule -- the niche-encoded Legacy/PostAlonzo discriminant is not resolved during symbolic execution; the legacy (array) form is decided); a symbolic address header (no verdict in 280 s: header byte concrete per harness); Byron address payloads (CBOR) in outputs; panic obligations inside validate_*_tx's own sequencing (engine M)
use crate::build::{al, ba, byron_pp, co};
use pallas_codec::utils::{Bytes, KeepRaw, Nullable, Set};
use pallas_primitives::alonzo::VKeyWitness;
use pallas_primitives::{Hash, NetworkId, TransactionInput};
use pallas_traverse::Era;
use pallas_validate::phase1::{alonzo, babbage, byron, conway, shelley_ma};
use pallas_validate::utils::verify_signature;

// ------------------------------------------------------------------ verify_signature

fn bytes_upto<const N: usize>() -> Bytes {
    let a: [u8; N] = kani::any();
    let n: usize = kani::any();
    kani::assume(n <= N);
    Bytes::from(a[..n].to_vec())
}

/// bound: verification key and signature of symbolic length 0..=40 each, symbolic content, 4-byte message; unwind 42
/// finding: expected FAILED (copy_from_slice panics unless the key has 32 and the signature 64 bytes)
#[kani::proof]
#[kani::unwind(42)]
#[kani::stub(std::fmt::format, crate::stubs::fmt_format_stub)]
#[kani::stub(pallas_crypto::key::ed25519::PublicKey::verify, pk_verify_stub)]
fn c33_q_verify_signature_len() {
    let w = VKeyWitness { vkey: bytes_upto::<40>(), signature: bytes_upto::<40>() };
    let data: [u8; 4] = kani::any();
    kani::cover!(w.vkey.len() == 32, "32-byte key");
    kani::cover!(w.vkey.len() == 0, "empty key");
    let r = verify_signature(&w, &data);
    core::mem::forget(r);
    core::mem::forget(w);
}

pub fn pk_verify_stub<T: AsRef<[u8]>>(
    _pk: &pallas_crypto::key::ed25519::PublicKey,
    _m: T,
    _s: &pallas_crypto::key::ed25519::Signature,
) -> bool {
    kani::any()
}

/// bound: 32-byte key, 64-byte signature (symbolic content), 4-byte message; Ed25519 itself replaced by an arbitrary bool; unwind 66
#[kani::proof]
#[kani::unwind(66)]
#[kani::stub(std::fmt::format, crate::stubs::fmt_format_stub)]
#[kani::stub(pallas_crypto::key::ed25519::PublicKey::verify, pk_verify_stub)]
fn c33_q_verify_signature_3264() {
    let k: [u8; 32] = kani::any();
    let s: [u8; 64] = kani::any();
    let w = VKeyWitness { vkey: Bytes::from(k.to_vec()), signature: Bytes::from(s.to_vec()) };
    let data: [u8; 4] = kani::any();
    let r = verify_signature(&w, &data);
    kani::cover!(r, "accepted");
    kani::cover!(!r, "rejected");
    core::mem::forget(w);
}

// ------------------------------------------------------------------ scalar rules

pub fn any_network() -> Option<NetworkId> {
    let k: u8 = kani::any();
    match k % 3 {
        0 => None,
        1 => Some(NetworkId::Testnet),
        _ => Some(NetworkId::Mainnet),
    }
}
pub fn input() -> TransactionInput {
    let h: [u8; 32] = kani::any();
    TransactionInput { transaction_id: Hash::new(h), index: kani::any() }
}

macro_rules! scalars {
    ($name:ident, $m:ident, $hooks:path, $mkpp:expr, |$b:ident, $slot:ident| $interval:expr, $inputs:expr) => {
        #[kani::proof]
        #[kani::unwind(5)]
        #[kani::stub(std::fmt::format, crate::stubs::fmt_format_stub)]
        fn $name() {
            use $hooks as h;
            let mut body = $m::body();
            body.fee = kani::any();
            body.ttl = kani::any();
            body.validity_interval_start = kani::any();
            body.network_id = any_network();
            if kani::any() {
                body.inputs = $inputs;
            }
            let mut pp = $mkpp;
            pp.minfee_a = kani::any();
            pp.minfee_b = kani::any();
            pp.max_transaction_size = kani::any();
            pp.max_collateral_inputs = kani::any();
            let size: u32 = kani::any();
            kani::assume(pp.minfee_b as u64 + pp.minfee_a as u64 * size as u64 <= u32::MAX as u64);
            let slot: u64 = kani::any();
            let net: u8 = kani::any();
            let r1 = h::check_ins_not_empty(&body);
            let r2 = {
                let $b = &body;
                let $slot = &slot;
                $interval
            };
            let r3 = h::check_min_fee(&body, &size, &pp);
            let r4 = h::check_tx_size(&size, &pp);
            let r5 = h::check_network_id(&body, &net);
            let cols = [input(), input()];
            let nc: usize = kani::any();
            kani::assume(nc <= 2);
            let r6 = h::check_collaterals_number(&cols[..nc], &pp);
            kani::cover!(r1.is_ok() && r2.is_ok() && r3.is_ok() && r4.is_ok() && r5.is_ok() && r6.is_ok(), "all accept");
            kani::cover!(r1.is_err(), "no inputs");
            kani::cover!(r2.is_err(), "outside the validity interval");
            kani::cover!(r3.is_err(), "fee too small");
            kani::cover!(r4.is_err(), "too large");
            kani::cover!(r5.is_err(), "wrong network");
            kani::cover!(r6.is_err(), "collateral count");
            core::mem::forget((r1, r2, r3, r4, r5, r6));
            core::mem::forget(pp);
            core::mem::forget(body);
        }
    };
}

// bound: body with symbolic fee, ttl, validity start, network id, 0/1 inputs, no outputs; symbolic minfee_a/b, size (b + a*size <= u32::MAX), max size, slot, network id, 0..=2 collateral inputs; unwind 5
scalars!(c33_q_scalars_conway, co, conway::verif_hooks, co::pp(), |b, s| conway::verif_hooks::check_tx_validity_interval(b, s), Set::from(vec![input()]));
scalars!(c33_q_scalars_babbage, ba, babbage::verif_hooks, ba::pp(), |b, s| babbage::verif_hooks::check_tx_validity_interval(b, s), vec![input()]);

/// bound: as the other scalar harnesses (alonzo's interval check takes the Tx as well); unwind 5
#[kani::proof]
#[kani::unwind(5)]
#[kani::stub(std::fmt::format, crate::stubs::fmt_format_stub)]
fn c33_q_scalars_alonzo() {
    use alonzo::verif_hooks as h;
    let raw = [0u8; 1];
    let mut body = al::body();
    body.fee = kani::any();
    body.ttl = kani::any();
    body.validity_interval_start = kani::any();
    body.network_id = any_network();
    if kani::any() {
        body.inputs = vec![input()];
    }
    let mut pp = al::pp();
    pp.minfee_a = kani::any();
    pp.minfee_b = kani::any();
    pp.max_transaction_size = kani::any();
    pp.max_collateral_inputs = kani::any();
    let size: u32 = kani::any();
    kani::assume(pp.minfee_b as u64 + pp.minfee_a as u64 * size as u64 <= u32::MAX as u64);
    let slot: u64 = kani::any();
    let net: u8 = kani::any();
    let tx = al::Tx {
        transaction_body: KeepRaw::verif_from_parts(&raw, al::body()),
        transaction_witness_set: KeepRaw::verif_from_parts(&raw, al::wits()),
        success: true,
        auxiliary_data: Nullable::Null,
    };
    let r1 = h::check_ins_not_empty(&body);
    let r2 = h::check_tx_validity_interval(&body, &tx, &slot);
    let r3 = h::check_min_fee(&body, &size, &pp);
    let r4 = h::check_tx_size(&size, &pp);
    let r5 = h::check_network_id(&body, &net);
    let cols = [input(), input()];
    let nc: usize = kani::any();
    kani::assume(nc <= 2);
    let r6 = h::check_collaterals_number(&cols[..nc], &pp);
    kani::cover!(r1.is_ok() && r2.is_ok() && r3.is_ok() && r4.is_ok() && r5.is_ok() && r6.is_ok(), "all accept");
    kani::cover!(r2.is_err(), "outside the validity interval");
    kani::cover!(r3.is_err(), "fee too small");
    kani::cover!(r6.is_err(), "collateral count");
    core::mem::forget((r1, r2, r3, r4, r5, r6));
    core::mem::forget(pp);
    core::mem::forget(body);
    core::mem::forget(tx);
}

/// bound: shelley-ma body with symbolic fee, ttl, 0/1 inputs, no outputs; symbolic minfee_a/b, size (b + a*size <= u32::MAX), max size, slot, network id; byron: symbolic size and max_tx_size; unwind 5
#[kani::proof]
#[kani::unwind(5)]
#[kani::stub(std::fmt::format, crate::stubs::fmt_format_stub)]
fn c33_q_scalars_shelley_byron() {
    use shelley_ma::verif_hooks as h;
    let mut body = al::body();
    body.fee = kani::any();
    body.ttl = kani::any();
    if kani::any() {
        body.inputs = vec![input()];
    }
    let mut pp = al::spp();
    pp.minfee_a = kani::any();
    pp.minfee_b = kani::any();
    pp.max_transaction_size = kani::any();
    let size: u32 = kani::any();
    kani::assume(pp.minfee_b as u64 + pp.minfee_a as u64 * size as u64 <= u32::MAX as u64);
    let slot: u64 = kani::any();
    let net: u8 = kani::any();
    let r1 = h::check_ins_not_empty(&body);
    let r2 = h::check_ttl(&body, &slot);
    let r3 = h::check_fees(&body, &size, &pp);
    let r4 = h::check_tx_size(&size, &pp);
    let r5 = h::check_network_id(&body, &net);
    let mut bpp = byron_pp();
    bpp.max_tx_size = kani::any();
    let bsize: u64 = kani::any();
    let r6 = byron::verif_hooks::check_size(&bsize, &bpp);
    kani::cover!(r1.is_ok() && r2.is_ok() && r3.is_ok() && r4.is_ok() && r5.is_ok() && r6.is_ok(), "all accept");
    kani::cover!(r2.is_err(), "ttl exceeded or missing");
    kani::cover!(r3.is_err(), "fee too small");
    kani::cover!(r6.is_err(), "byron: too large");
    core::mem::forget((r1, r2, r3, r4, r5, r6));
    core::mem::forget(pp);
    core::mem::forget(body);
}

// ------------------------------------------------------------------ the u32 fee product

macro_rules! fee_wrap {
    ($name:ident, $mkbody:expr, $mkpp:expr, |$b:ident, $s:ident, $p:ident| $call:expr) => {
        #[kani::proof]
        #[kani::unwind(5)]
        #[kani::stub(std::fmt::format, crate::stubs::fmt_format_stub)]
        fn $name() {
            let mut body = $mkbody;
            body.fee = kani::any();
            let mut pp = $mkpp;
            pp.minfee_a = 44;
            pp.minfee_b = 155381;
            let size: u32 = kani::any();
            kani::cover!(size == 16384, "a mainnet-sized transaction");
            let r = {
                let $b = &body;
                let $s = &size;
                let $p = &pp;
                $call
            };
            // also true natively in release (wrapping) builds: the verdict must be the one for the real product
            let min = 155381u64 + 44u64 * size as u64;
            assert!(r.is_ok() == (body.fee >= min), "min-fee verdict is the one for b + a*size computed without wrap-around");
            core::mem::forget(r);
            core::mem::forget(pp);
            core::mem::forget(body);
        }
    };
}

// bound: mainnet minfee_a = 44, minfee_b = 155381 (concrete), any u32 size, any fee; unwind 5
// finding: expected FAILED (u32 product b + a*size wraps / panics for size >= 97 612 894 bytes; check_tx_size runs only later in validate_*_tx)
fee_wrap!(c33_q_min_fee_wrap_conway, co::body(), co::pp(), |b, s, p| conway::verif_hooks::check_min_fee(b, s, p));
fee_wrap!(c33_t_min_fee_wrap_babbage, ba::body(), ba::pp(), |b, s, p| babbage::verif_hooks::check_min_fee(b, s, p));
fee_wrap!(c33_t_min_fee_wrap_alonzo, al::body(), al::pp(), |b, s, p| alonzo::verif_hooks::check_min_fee(b, s, p));
fee_wrap!(c33_t_min_fee_wrap_shelley_ma, al::body(), al::spp(), |b, s, p| shelley_ma::verif_hooks::check_fees(b, s, p));

// ------------------------------------------------------------------ one coin-only output

/// N bytes with a concrete header byte (address type and network concrete per harness: a symbolic
/// header gave no verdict in 280 s) and symbolic payload.
pub fn addr<const N: usize>(hdr: u8) -> Bytes {
    let mut a: [u8; N] = kani::any();
    a[0] = hdr;
    Bytes::from(a.to_vec())
}

/// One output; the outputs Vec is backed by a stack array (Vec::from_raw_parts, capacity 0, never freed):
/// CBMC loses the concrete enum discriminants of values it reads back from the heap and then explores
/// the multi-asset (BTreeMap) encode / clone / drop code of values that are plain coins.
macro_rules! outputs {
    ($name:ident, $m:ident, |$raw:ident| $mkout:expr, |$b:ident, $n:ident| $net:expr, |$b2:ident| $minl:expr, $setpp:expr) => {
        #[kani::proof]
        #[kani::unwind(60)]
        #[kani::stub(std::fmt::format, crate::stubs::fmt_format_stub)]
        #[kani::stub(pallas_codec::minicbor::encode::Error::write, crate::stubs::mcb_write_err_stub)]
        fn $name() {
            let raw0 = [0u8; 1];
            let $raw = &raw0;
            let mut body = $m::body();
            let mut arr = [$mkout];
            body.outputs = unsafe { Vec::from_raw_parts(arr.as_mut_ptr(), 1, 0) };
            let net: u8 = kani::any();
            let r1 = {
                let $b = &body;
                let $n = &net;
                $net
            };
            let r2 = {
                let $b2 = &body;
                $minl
            };
            kani::cover!(r1.is_err(), "output rejected by the network rule");
            kani::cover!(r2.is_ok(), "enough lovelace");
            kani::cover!(r2.is_err(), "below the minimum");
            core::mem::forget((r1, r2));
            core::mem::forget(body);
            core::mem::forget(arr);
        }
    };
}

fn al_pp_sym() -> pallas_validate::utils::AlonzoProtParams {
    let mut pp = al::pp();
    pp.ada_per_utxo_byte = kani::any();
    kani::assume(pp.ada_per_utxo_byte < (1 << 32));
    pp
}
fn ba_pp_sym() -> pallas_validate::utils::BabbageProtParams {
    let mut pp = ba::pp();
    pp.ada_per_utxo_byte = kani::any();
    kani::assume(pp.ada_per_utxo_byte < (1 << 32));
    pp
}
fn co_pp_sym() -> pallas_validate::utils::ConwayProtParams {
    let mut pp = co::pp();
    pp.ada_per_utxo_byte = kani::any();
    kani::assume(pp.ada_per_utxo_byte < (1 << 32));
    pp
}
fn sh_pp_sym() -> pallas_validate::utils::ShelleyProtParams {
    let mut pp = al::spp();
    pp.min_utxo_value = kani::any();
    pp
}
fn any_era() -> Era {
    let k: u8 = kani::any();
    match k & 3 {
        0 => Era::Shelley,
        1 => Era::Allegra,
        2 => Era::Mary,
        _ => Era::Alonzo,
    }
}
pub fn al_out<const N: usize>(hdr: u8) -> al::TransactionOutput {
    let dh: Option<[u8; 32]> = kani::any();
    al::TransactionOutput { address: addr::<N>(hdr), amount: al::Value::Coin(kani::any()), datum_hash: dh.map(Hash::new) }
}
pub fn ba_post<'a, const N: usize>(raw: &'a [u8; 1], hdr: u8) -> KeepRaw<'a, ba::TransactionOutput<'a>> {
    KeepRaw::verif_from_parts(
        raw,
        ba::TransactionOutput::PostAlonzo(KeepRaw::verif_from_parts(
            raw,
            ba::PostAlonzoTransactionOutput { address: addr::<N>(hdr), value: ba::Value::Coin(kani::any()), datum_option: None, script_ref: None },
        )),
    )
}
pub fn ba_legacy<'a, const N: usize>(raw: &'a [u8; 1], hdr: u8) -> KeepRaw<'a, ba::TransactionOutput<'a>> {
    KeepRaw::verif_from_parts(raw, ba::TransactionOutput::Legacy(KeepRaw::verif_from_parts(raw, al_out::<N>(hdr))))
}
pub fn co_post<'a, const N: usize>(raw: &'a [u8; 1], hdr: u8) -> co::TransactionOutput<'a> {
    co::TransactionOutput::PostAlonzo(KeepRaw::verif_from_parts(
        raw,
        co::PostAlonzoTransactionOutput { address: addr::<N>(hdr), value: co::Value::Coin(kani::any()), datum_option: None, script_ref: None },
    ))
}
pub fn co_legacy<'a, const N: usize>(raw: &'a [u8; 1], hdr: u8) -> co::TransactionOutput<'a> {
    co::TransactionOutput::Legacy(KeepRaw::verif_from_parts(raw, al_out::<N>(hdr)))
}

// bound: one coin-only output (form, address length N and header byte concrete per harness: enterprise 0x61/0x65 N=29, base 0x00 N=57, stake 0xe1, truncated N=20, invalid header 0x90), symbolic payload, coin, optional datum hash (legacy), network id, ada_per_utxo_byte < 2^32 / min_utxo_value; unwind 60
outputs!(c33_q_output_alonzo_ent, al, |raw| al_out::<29>(0x61), |b, n| alonzo::verif_hooks::check_network_id(b, n), |b| alonzo::verif_hooks::check_min_lovelace(b, &al_pp_sym()), ());
outputs!(c33_t_output_alonzo_base, al, |raw| al_out::<57>(0x00), |b, n| alonzo::verif_hooks::check_network_id(b, n), |b| alonzo::verif_hooks::check_min_lovelace(b, &al_pp_sym()), ());
outputs!(c33_q_output_shelley_stake, al, |raw| al_out::<29>(0xe1), |b, n| shelley_ma::verif_hooks::check_network_id(b, n), |b| shelley_ma::verif_hooks::check_min_lovelace(b, &sh_pp_sym(), &any_era()), ());
outputs!(c33_t_output_shelley_ent, al, |raw| al_out::<29>(0x60), |b, n| shelley_ma::verif_hooks::check_network_id(b, n), |b| shelley_ma::verif_hooks::check_min_lovelace(b, &sh_pp_sym(), &any_era()), ());
outputs!(c33_q_output_babbage_legacy_trunc, ba, |raw| ba_legacy::<20>(raw, 0x61), |b, n| babbage::verif_hooks::check_network_id(b, n), |b| babbage::verif_hooks::check_min_lovelace(b, &ba_pp_sym()), ());
outputs!(c33_t_output_conway_legacy_base, co, |raw| co_legacy::<57>(raw, 0x00), |b, n| conway::verif_hooks::check_network_id(b, n), |b| conway::verif_hooks::check_min_lovelace(b, &co_pp_sym()), ());
outputs!(c33_q_output_conway_legacy_ent, co, |raw| co_legacy::<29>(raw, 0x65), |b, n| conway::verif_hooks::check_network_id(b, n), |b| conway::verif_hooks::check_min_lovelace(b, &co_pp_sym()), ());
outputs!(c33_t_output_conway_legacy_badhdr, co, |raw| co_legacy::<29>(raw, 0x90), |b, n| conway::verif_hooks::check_network_id(b, n), |b| conway::verif_hooks::check_min_lovelace(b, &co_pp_sym()), ());

/// vacuity twin: must come back FAILED
#[kani::proof]
#[kani::unwind(5)]
#[kani::stub(std::fmt::format, crate::stubs::fmt_format_stub)]
fn c33_v_twin() {
    let mut body = co::body();
    body.ttl = kani::any();
    let slot: u64 = kani::any();
    let r = conway::verif_hooks::check_tx_validity_interval(&body, &slot);
    assert!(r.is_ok(), "twin: must fail");
    core::mem::forget(r);
    core::mem::forget(body);
}
