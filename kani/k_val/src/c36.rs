//! C36: fee and size limits use the ledger's transaction size.
//! fn: pallas_validate::utils::{get_alonzo_comp_tx_size,get_babbage_tx_size,get_conway_tx_size}
//! fn: pallas_traverse::MultiEraTx::size
//! fn: pallas_validate::phase1::{alonzo,babbage,conway}::{check_min_fee,check_tx_size}, shelley_ma::{check_fees,check_tx_size} (via verif_hooks)
//! stub: std::fmt::format -> empty String
//! stub: minicbor::encode::Error::write -> Error::message (babbage/conway sizes re-encode the Tx into a Vec<u8>)
//! assume: every raw part (body, witness set, auxiliary data) has 1..=8 bytes: a decoded KeepRaw never has an empty raw slice (KeepRaw::encode re-encodes the inner value when raw is empty, a state the decoder cannot produce)
//! assume: fee/size boundary harnesses: minfee_a < 2^16, minfee_b < 2^20, size < 2^15 so that the validator's u32 product b + a*size cannot wrap (the wrap itself is reported under C33)
//! outside: raw parts longer than 8 bytes each; the content of the parts (sizes depend on lengths only: KeepRaw writes its raw bytes back verbatim); Byron; the reference-script fee of Conway (consults the UTxO HashMap); check_fee's collateral leg (UTxO HashMap)
use crate::build::{al, ba, co};
use pallas_codec::utils::{KeepRaw, Nullable};
use pallas_traverse::{Era, MultiEraTx};
use pallas_validate::phase1::{alonzo, babbage, conway, shelley_ma};
use pallas_validate::utils::{get_alonzo_comp_tx_size, get_babbage_tx_size, get_conway_tx_size};
use std::borrow::Cow;

fn part() -> ([u8; 8], usize) {
    let b: [u8; 8] = kani::any();
    let n: usize = kani::any();
    kani::assume(n >= 1 && n <= 8);
    (b, n)
}

/// Build a hook-built Tx of era module `$m` with symbolic raw parts; `$aux` is `some` or `null`.
macro_rules! mk_tx {
    ($m:ident, some, $bb:ident, $bl:ident, $wb:ident, $wl:ident, $ab:ident, $al:ident, $fee:expr) => {{
        let mut body = $m::body();
        body.fee = $fee;
        $m::Tx {
            transaction_body: KeepRaw::verif_from_parts(&$bb[..$bl], body),
            transaction_witness_set: KeepRaw::verif_from_parts(&$wb[..$wl], $m::wits()),
            success: kani::any(),
            auxiliary_data: Nullable::Some(KeepRaw::verif_from_parts(&$ab[..$al], $m::aux())),
        }
    }};
    ($m:ident, null, $bb:ident, $bl:ident, $wb:ident, $wl:ident, $ab:ident, $al:ident, $fee:expr) => {{
        let mut body = $m::body();
        body.fee = $fee;
        $m::Tx {
            transaction_body: KeepRaw::verif_from_parts(&$bb[..$bl], body),
            transaction_witness_set: KeepRaw::verif_from_parts(&$wb[..$wl], $m::wits()),
            success: kani::any(),
            auxiliary_data: Nullable::Null,
        }
    }};
}

macro_rules! multi {
    (al, $tx:ident, $era:expr) => {
        MultiEraTx::AlonzoCompatible(Box::new(Cow::Borrowed(&$tx)), $era)
    };
    (ba, $tx:ident, $era:expr) => {
        MultiEraTx::Babbage(Box::new(Cow::Borrowed(&$tx)))
    };
    (co, $tx:ident, $era:expr) => {
        MultiEraTx::Conway(Box::new(Cow::Borrowed(&$tx)))
    };
}

macro_rules! got_size {
    (al, $tx:ident) => {
        Some(get_alonzo_comp_tx_size(&$tx))
    };
    (ba, $tx:ident) => {
        get_babbage_tx_size(&$tx)
    };
    (co, $tx:ident) => {
        get_conway_tx_size(&$tx)
    };
}

/// The isolated comparison: the size the validator feeds to its fee and size rules vs the
/// traversal size (= the ledger's size: 3-element array head + body + witnesses + aux-or-null,
/// no validity flag).
macro_rules! size_eq {
    ($name:ident, $m:ident, $aux:ident, $era:expr) => {
        #[kani::proof]
        #[kani::unwind(10)]
        #[kani::stub(std::fmt::format, crate::stubs::fmt_format_stub)]
        #[kani::stub(pallas_codec::minicbor::encode::Error::write, crate::stubs::mcb_write_err_stub)]
        fn $name() {
            let (bb, bl) = part();
            let (wb, wl) = part();
            let (ab, al_) = part();
            let tx = mk_tx!($m, $aux, bb, bl, wb, wl, ab, al_, 0);
            let got = got_size!($m, tx);
            let me = multi!($m, tx, $era);
            let want = me.size();
            kani::cover!(got.is_some() && bl == 8 && wl == 1, "size computed, 8-byte body, 1-byte witness set");
            assert!(got.is_some(), "validator can compute the size");
            // characterisation of the tree as it is (holds): the two sizes never differ by more than two bytes
            let g = got.unwrap() as usize;
            assert!(g <= want + 1 && want <= g + 2, "characterisation: |validator size - size()| <= 2");
            assert!(g == want, "size used by validation = MultiEraTx::size()");
            core::mem::forget(me);
            core::mem::forget(tx);
        }
    };
}

// bound: body, witness-set and aux raw parts of symbolic length 1..=8 and symbolic content, aux = Some / Null concrete per harness, validity flag symbolic; unwind 10
// finding: expected FAILED on the unchanged tree (isolated size comparison)
size_eq!(c36_q_size_eq_conway_some, co, some, Era::Conway);
size_eq!(c36_q_size_eq_conway_null, co, null, Era::Conway);
size_eq!(c36_q_size_eq_babbage_some, ba, some, Era::Babbage);
size_eq!(c36_t_size_eq_babbage_null, ba, null, Era::Babbage);
size_eq!(c36_q_size_eq_alonzo_some, al, some, Era::Alonzo);
size_eq!(c36_q_size_eq_alonzo_null, al, null, Era::Alonzo);
size_eq!(c36_t_size_eq_mary_null, al, null, Era::Mary);

/// End to end on one hook-built tx: the validator's own size goes into its own fee / size rules,
/// the reference is MultiEraTx::size().
macro_rules! e2e {
    ($name:ident, $m:ident, $aux:ident, $era:expr, $mkpp:expr, |$b:ident, $s:ident, $p:ident| $fee:expr, |$s2:ident, $p2:ident| $size:expr) => {
        #[kani::proof]
        #[kani::unwind(10)]
        #[kani::stub(std::fmt::format, crate::stubs::fmt_format_stub)]
        #[kani::stub(pallas_codec::minicbor::encode::Error::write, crate::stubs::mcb_write_err_stub)]
        fn $name() {
            let (bb, bl) = part();
            let (wb, wl) = part();
            let (ab, al_) = part();
            let fee: u64 = kani::any();
            let tx = mk_tx!($m, $aux, bb, bl, wb, wl, ab, al_, fee);
            let me = multi!($m, tx, $era);
            let want = me.size() as u64;
            let a: u32 = kani::any();
            let b: u32 = kani::any();
            kani::assume(a < (1 << 20) && b < (1 << 20));
            let minfee = b as u64 + a as u64 * want;
            let at_min: bool = kani::any();
            // fee is either exactly the ledger minimum or one lovelace less
            kani::assume(if at_min { fee == minfee } else { minfee > 0 && fee == minfee - 1 });
            let mut pp = $mkpp;
            pp.minfee_a = a;
            pp.minfee_b = b;
            let sz = got_size!($m, tx);
            assert!(sz.is_some(), "validator can compute the size");
            let sz: u32 = sz.unwrap();
            let r = {
                let $b = &*tx.transaction_body;
                let $s = &sz;
                let $p = &pp;
                $fee
            };
            kani::cover!(at_min && a > 0, "fee exactly b + a*size()");
            kani::cover!(!at_min && a > 0, "fee one lovelace below");
            if at_min {
                assert!(r.is_ok(), "fee = b + a*size() is accepted");
            } else {
                assert!(r.is_err(), "fee = b + a*size() - 1 is rejected");
            }
            core::mem::forget(r);
            // size limit exactly size() / one byte less
            let at_max: bool = kani::any();
            pp.max_transaction_size = if at_max { want as u32 } else { want as u32 - 1 };
            let r2 = {
                let $s2 = &sz;
                let $p2 = &pp;
                $size
            };
            if at_max {
                assert!(r2.is_ok(), "max_transaction_size = size() is accepted");
            } else {
                assert!(r2.is_err(), "max_transaction_size = size() - 1 is rejected");
            }
            core::mem::forget(r2);
            core::mem::forget(pp);
            core::mem::forget(me);
            core::mem::forget(tx);
        }
    };
}

// bound: raw parts of symbolic length 1..=8, aux Some/Null concrete per harness, minfee_a, minfee_b < 2^20 symbolic, fee in {min, min-1}, max size in {size(), size()-1}; unwind 10
// finding: expected FAILED on the unchanged tree (follows from the size comparison)
e2e!(c36_q_e2e_conway_some, co, some, Era::Conway, co::pp(), |b, s, p| conway::verif_hooks::check_min_fee(b, s, p), |s, p| conway::verif_hooks::check_tx_size(s, p));
e2e!(c36_t_e2e_conway_null, co, null, Era::Conway, co::pp(), |b, s, p| conway::verif_hooks::check_min_fee(b, s, p), |s, p| conway::verif_hooks::check_tx_size(s, p));
e2e!(c36_t_e2e_babbage_some, ba, some, Era::Babbage, ba::pp(), |b, s, p| babbage::verif_hooks::check_min_fee(b, s, p), |s, p| babbage::verif_hooks::check_tx_size(s, p));
e2e!(c36_q_e2e_babbage_null, ba, null, Era::Babbage, ba::pp(), |b, s, p| babbage::verif_hooks::check_min_fee(b, s, p), |s, p| babbage::verif_hooks::check_tx_size(s, p));
e2e!(c36_q_e2e_alonzo_some, al, some, Era::Alonzo, al::pp(), |b, s, p| alonzo::verif_hooks::check_min_fee(b, s, p), |s, p| alonzo::verif_hooks::check_tx_size(s, p));
e2e!(c36_t_e2e_alonzo_null, al, null, Era::Alonzo, al::pp(), |b, s, p| alonzo::verif_hooks::check_min_fee(b, s, p), |s, p| alonzo::verif_hooks::check_tx_size(s, p));
e2e!(c36_t_e2e_mary_null, al, null, Era::Mary, al::spp(), |b, s, p| shelley_ma::verif_hooks::check_fees(b, s, p), |s, p| shelley_ma::verif_hooks::check_tx_size(s, p));

/// The rules themselves, for any size handed to them: exact thresholds.
macro_rules! bounds {
    ($name:ident, $mkbody:expr, $mkpp:expr, |$b:ident, $s:ident, $p:ident| $fee:expr, |$s2:ident, $p2:ident| $size:expr) => {
        #[kani::proof]
        #[kani::unwind(4)]
        #[kani::stub(std::fmt::format, crate::stubs::fmt_format_stub)]
        fn $name() {
            let a: u32 = kani::any();
            let b: u32 = kani::any();
            let sz: u32 = kani::any();
            kani::assume(a < (1 << 16) && b < (1 << 20) && sz < (1 << 15));
            let mut body = $mkbody;
            body.fee = kani::any();
            let mut pp = $mkpp;
            pp.minfee_a = a;
            pp.minfee_b = b;
            let min = b as u64 + a as u64 * sz as u64;
            let r = {
                let $b = &body;
                let $s = &sz;
                let $p = &pp;
                $fee
            };
            kani::cover!(body.fee == min && a > 1 && sz > 1, "fee exactly at the minimum");
            kani::cover!(min > 0 && body.fee == min - 1 && a > 1 && sz > 1, "fee one lovelace below");
            assert!(r.is_ok() == (body.fee >= min), "check_min_fee = Ok iff fee >= b + a*size");
            core::mem::forget(r);
            let sz2: u32 = kani::any();
            pp.max_transaction_size = kani::any();
            let r2 = {
                let $s2 = &sz2;
                let $p2 = &pp;
                $size
            };
            kani::cover!(sz2 == pp.max_transaction_size, "size exactly at the limit");
            kani::cover!(sz2 as u64 == pp.max_transaction_size as u64 + 1, "size one byte above");
            assert!(r2.is_ok() == (sz2 <= pp.max_transaction_size), "check_tx_size = Ok iff size <= max");
            core::mem::forget(r2);
            core::mem::forget(pp);
            core::mem::forget(body);
        }
    };
}

// bound: minfee_a < 2^16, minfee_b < 2^20, size < 2^15, fee any u64; size2 and max_transaction_size any u32; unwind 4
bounds!(c36_q_bounds_conway, co::body(), co::pp(), |b, s, p| conway::verif_hooks::check_min_fee(b, s, p), |s, p| conway::verif_hooks::check_tx_size(s, p));
bounds!(c36_q_bounds_babbage, ba::body(), ba::pp(), |b, s, p| babbage::verif_hooks::check_min_fee(b, s, p), |s, p| babbage::verif_hooks::check_tx_size(s, p));
bounds!(c36_q_bounds_alonzo, al::body(), al::pp(), |b, s, p| alonzo::verif_hooks::check_min_fee(b, s, p), |s, p| alonzo::verif_hooks::check_tx_size(s, p));
bounds!(c36_q_bounds_shelley_ma, al::body(), al::spp(), |b, s, p| shelley_ma::verif_hooks::check_fees(b, s, p), |s, p| shelley_ma::verif_hooks::check_tx_size(s, p));

/// vacuity twin: must come back FAILED
#[kani::proof]
#[kani::unwind(4)]
fn c36_v_twin() {
    let mut body = co::body();
    body.fee = kani::any();
    let mut pp = co::pp();
    pp.minfee_b = kani::any();
    let sz: u32 = 0;
    let r = conway::verif_hooks::check_min_fee(&body, &sz, &pp);
    assert!(r.is_ok(), "twin: must fail");
    core::mem::forget(r);
    core::mem::forget(pp);
    core::mem::forget(body);
}
