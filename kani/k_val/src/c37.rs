//! C37: accepted script transactions respect the execution-unit budget.
//! fn: pallas_validate::phase1::{alonzo,babbage,conway}::check_tx_ex_units (via verif_hooks)
//! stub: std::fmt::format -> empty String
//! assume: general harnesses: every redeemer's mem and steps < 2^63, so that the validator's own u64 running sums cannot wrap with <= 2 redeemers; the wrap itself is isolated in c37_q_overflow_*
//! stub: conway only: <conway::Redeemers as Clone>::clone -> bitwise alias of the argument (the validator clones the redeemers, never mutates the clone and drops it; recursive PlutusData clone/drop glue on heap data has no verdict); the Vec<Redeemer> buffer is a stack array (Vec::from_raw_parts, capacity 0)
//! outside: more than 2 redeemers (list); conway Redeemers::Map with >= 1 entries (tried: no verdict in 240 s, BTreeMap leaves are heap-held and the validator drops its clone; by reading the Map arm has the same never-driven `map` as the List arm); redeemer data other than an empty byte string; that validate_*_tx actually calls this check (sequencing, engine M)
use crate::build::{al, ba, co, exu};
use pallas_codec::utils::{Bytes, KeepRaw, NonEmptySet, Nullable};
use pallas_primitives::{BoundedBytes, ExUnits, PlutusData, PlutusScript};
use pallas_validate::phase1::{alonzo, babbage, conway};
use std::collections::BTreeMap;

pub fn data() -> PlutusData {
    PlutusData::BoundedBytes(BoundedBytes::from(Vec::new()))
}
pub fn script<const V: usize>() -> PlutusScript<V> {
    let b: u8 = kani::any();
    PlutusScript::<V>(Bytes::from(vec![b]))
}
pub fn units(small: bool) -> ExUnits {
    let e = exu(kani::any(), kani::any());
    if small {
        kani::assume(e.mem < (1 << 63) && e.steps < (1 << 63));
    }
    e
}
pub fn any_alonzo_tag() -> al::RedeemerTag {
    let t: u8 = kani::any();
    match t & 3 {
        0 => al::RedeemerTag::Spend,
        1 => al::RedeemerTag::Mint,
        2 => al::RedeemerTag::Cert,
        _ => al::RedeemerTag::Reward,
    }
}
pub fn al_redeemer(small: bool) -> al::Redeemer {
    al::Redeemer { tag: any_alonzo_tag(), index: kani::any(), data: data(), ex_units: units(small) }
}
pub fn co_redeemer(small: bool) -> co::Redeemer {
    co::Redeemer { tag: co::RedeemerTag::Spend, index: kani::any(), data: data(), ex_units: units(small) }
}

/// shared tail: Ok => both sums within the limits (sums in u128: the *mathematical* sum)
macro_rules! conclude {
    (0, $r:ident, $sum_mem:expr, $sum_steps:expr, $max:expr) => {{
        kani::cover!($r.is_ok(), "accepted");
        conclude!(@tail $r, $sum_mem, $sum_steps, $max)
    }};
    ($n:tt, $r:ident, $sum_mem:expr, $sum_steps:expr, $max:expr) => {{
        let sm: u128 = $sum_mem;
        let ss: u128 = $sum_steps;
        kani::cover!($r.is_ok(), "accepted");
        kani::cover!($r.is_err(), "rejected");
        kani::cover!($r.is_ok() && sm == $max.mem as u128 && ss == $max.steps as u128 && sm > 0, "accepted exactly at the limit");
        conclude!(@tail $r, $sum_mem, $sum_steps, $max)
    }};
    (@tail $r:ident, $sum_mem:expr, $sum_steps:expr, $max:expr) => {{
        let sm: u128 = $sum_mem;
        let ss: u128 = $sum_steps;
        if $r.is_ok() {
            assert!(sm <= $max.mem as u128, "Ok => sum of redeemer mem <= max_tx_ex_units.mem");
            assert!(ss <= $max.steps as u128, "Ok => sum of redeemer steps <= max_tx_ex_units.steps");
        }
    }};
}

/// alonzo / babbage: redeemers are a Vec; `$n` redeemers, concrete per harness
macro_rules! vec_era {
    ($name:ident, $m:ident, $hook:path, $field:ident, $n:tt, $small:expr, $unw:expr) => {
        #[kani::proof]
        #[kani::unwind($unw)]
        #[kani::stub(std::fmt::format, crate::stubs::fmt_format_stub)]
        fn $name() {
            let raw = [0u8; 1];
            let mut w = $m::wits();
            w.$field = Some(vec![script()]);
            let mut reds = Vec::new();
            let mut sm: u128 = 0;
            let mut ss: u128 = 0;
            let mut i = 0;
            while i < $n {
                let r = al_redeemer($small);
                sm += r.ex_units.mem as u128;
                ss += r.ex_units.steps as u128;
                reds.push(r);
                i += 1;
            }
            w.redeemer = Some(reds);
            let tx = $m::Tx {
                transaction_body: KeepRaw::verif_from_parts(&raw, $m::body()),
                transaction_witness_set: KeepRaw::verif_from_parts(&raw, w),
                success: true,
                auxiliary_data: Nullable::Null,
            };
            let mut pp = $m::pp();
            pp.max_tx_ex_units = exu(kani::any(), kani::any());
            pp.max_block_ex_units = exu(kani::any(), kani::any()); // independent of the per-transaction limit
            let r = $hook(&tx, &pp);
            conclude!($n, r, sm, ss, pp.max_tx_ex_units);
            core::mem::forget(r);
            core::mem::forget(pp);
            core::mem::forget(tx);
        }
    };
}

// bound: one Plutus script (1 symbolic byte), N redeemers (N concrete per harness: 0,1,2) with symbolic tag/index and symbolic ex-units < 2^63, symbolic max_tx_ex_units (full u64); unwind 5
vec_era!(c37_q_alonzo_list0, al, alonzo::verif_hooks::check_tx_ex_units, plutus_script, 0, true, 5);
vec_era!(c37_q_alonzo_list1, al, alonzo::verif_hooks::check_tx_ex_units, plutus_script, 1, true, 5);
vec_era!(c37_q_alonzo_list2, al, alonzo::verif_hooks::check_tx_ex_units, plutus_script, 2, true, 5);
vec_era!(c37_q_babbage_list1_v1, ba, babbage::verif_hooks::check_tx_ex_units, plutus_v1_script, 1, true, 5);
vec_era!(c37_q_babbage_list2_v2, ba, babbage::verif_hooks::check_tx_ex_units, plutus_v2_script, 2, true, 5);
vec_era!(c37_t_babbage_list0_v2, ba, babbage::verif_hooks::check_tx_ex_units, plutus_v2_script, 0, true, 5);
// bound: as above with 2 redeemers and unrestricted u64 ex-units (the validator's running u64 sums can wrap); unwind 5
// finding: expected FAILED (u64 `+=` overflow: panic in dev, silent wrap + acceptance in release)
vec_era!(c37_q_overflow_alonzo, al, alonzo::verif_hooks::check_tx_ex_units, plutus_script, 2, false, 5);
vec_era!(c37_q_overflow_babbage, ba, babbage::verif_hooks::check_tx_ex_units, plutus_v2_script, 2, false, 5);

/// `<Redeemers as Clone>::clone` -> bitwise alias of the argument.  conway::check_tx_ex_units clones the
/// redeemers and drops the clone; CBMC cannot decide the recursive clone / drop glue of a PlutusData
/// that is read back from the heap (measured: a 1-element Vec<Redeemer> clone or drop alone: no
/// verdict in 200 s).  A clone is by contract an equal value; the alias is only read and dropped.
pub fn redeemers_alias_stub(r: &co::Redeemers) -> co::Redeemers {
    unsafe { core::ptr::read(r) }
}

/// conway, redeemers as a list of `$n`.  The Vec<Redeemer> buffer is a stack array handed to
/// Vec::from_raw_parts with capacity 0 (so neither the validator's drop of its "clone" nor anything
/// else frees it): symex keeps stack objects field-sensitive, the drop glue then sees the concrete
/// PlutusData variant.  The validator only iterates / clones / drops this Vec.
macro_rules! conway_list {
    ($name:ident, $field:ident, $n:tt, $small:expr, $unw:expr) => {
        #[kani::proof]
        #[kani::unwind($unw)]
        #[kani::stub(std::fmt::format, crate::stubs::fmt_format_stub)]
        #[kani::stub(<pallas_primitives::conway::Redeemers as std::clone::Clone>::clone, redeemers_alias_stub)]
        fn $name() {
            let raw = [0u8; 1];
            let mut w = co::wits();
            w.$field = NonEmptySet::from_vec(vec![script()]);
            let mut arr: [co::Redeemer; $n] = core::array::from_fn(|_| co_redeemer($small));
            let mut sm: u128 = 0;
            let mut ss: u128 = 0;
            let mut i = 0;
            while i < $n {
                sm += arr[i].ex_units.mem as u128;
                ss += arr[i].ex_units.steps as u128;
                i += 1;
            }
            let reds = unsafe { Vec::from_raw_parts(arr.as_mut_ptr(), $n, 0) };
            w.redeemer = Some(KeepRaw::verif_from_parts(&raw, co::Redeemers::List(reds)));
            let tx = co::Tx {
                transaction_body: KeepRaw::verif_from_parts(&raw, co::body()),
                transaction_witness_set: KeepRaw::verif_from_parts(&raw, w),
                success: true,
                auxiliary_data: Nullable::Null,
            };
            let mut pp = co::pp();
            pp.max_tx_ex_units = exu(kani::any(), kani::any());
            pp.max_block_ex_units = exu(kani::any(), kani::any()); // independent of the per-transaction limit
            let r = conway::verif_hooks::check_tx_ex_units(&tx, &pp);
            conclude!($n, r, sm, ss, pp.max_tx_ex_units);
            core::mem::forget(r);
            core::mem::forget(pp);
            core::mem::forget(tx);
            core::mem::forget(arr);
        }
    };
}

// bound: conway, one Plutus script (version concrete per harness), Redeemers::List of N = 0 redeemers, symbolic limits; unwind 5
conway_list!(c37_q_conway_list0, plutus_v3_script, 0, true, 5);
// bound: conway, one Plutus script (version concrete per harness), Redeemers::List of N = 1 / 2 redeemers with symbolic ex-units < 2^63, symbolic limits; unwind 5
// finding: expected FAILED (lazy `map` closures are never driven: the sums stay 0)
conway_list!(c37_q_conway_list1, plutus_v1_script, 1, true, 5);
conway_list!(c37_q_conway_list2, plutus_v2_script, 2, true, 5);

/// conway, redeemers as an empty map (a one-entry map was tried: no verdict in 240 s -- the BTreeMap leaf is
/// heap-held and the validator drops its clone, see `outside`)
/// bound: conway, one PlutusV3 script, Redeemers::Map with 0 entries, symbolic limits; unwind 5
#[kani::proof]
#[kani::unwind(5)]
#[kani::stub(std::fmt::format, crate::stubs::fmt_format_stub)]
#[kani::stub(<pallas_primitives::conway::Redeemers as std::clone::Clone>::clone, redeemers_alias_stub)]
fn c37_q_conway_map0() {
    let raw = [0u8; 1];
    let mut w = co::wits();
    w.plutus_v3_script = NonEmptySet::from_vec(vec![script()]);
    w.redeemer = Some(KeepRaw::verif_from_parts(&raw, co::Redeemers::Map(BTreeMap::new())));
    let tx = co::Tx {
        transaction_body: KeepRaw::verif_from_parts(&raw, co::body()),
        transaction_witness_set: KeepRaw::verif_from_parts(&raw, w),
        success: true,
        auxiliary_data: Nullable::Null,
    };
    let mut pp = co::pp();
    pp.max_tx_ex_units = exu(kani::any(), kani::any());
            pp.max_block_ex_units = exu(kani::any(), kani::any()); // independent of the per-transaction limit
    let r = conway::verif_hooks::check_tx_ex_units(&tx, &pp);
    conclude!(0, r, 0, 0, pp.max_tx_ex_units);
    core::mem::forget(r);
    core::mem::forget(pp);
    core::mem::forget(tx);
}

/// no Plutus script at all: the rule does not apply, redeemers absent: Ok; script present but no redeemers: Err
/// bound: conway / babbage / alonzo witness sets without any Plutus script and without redeemers; one script and `redeemer: None`; unwind 5
#[kani::proof]
#[kani::unwind(5)]
#[kani::stub(std::fmt::format, crate::stubs::fmt_format_stub)]
fn c37_q_presence() {
    let raw = [0u8; 1];
    let mut pp = co::pp();
    pp.max_tx_ex_units = exu(kani::any(), kani::any());
            pp.max_block_ex_units = exu(kani::any(), kani::any()); // independent of the per-transaction limit
    let with_script: bool = kani::any();
    let mut w = co::wits();
    if with_script {
        w.plutus_v2_script = NonEmptySet::from_vec(vec![script()]);
    }
    let tx = co::Tx {
        transaction_body: KeepRaw::verif_from_parts(&raw, co::body()),
        transaction_witness_set: KeepRaw::verif_from_parts(&raw, w),
        success: true,
        auxiliary_data: Nullable::Null,
    };
    let r = conway::verif_hooks::check_tx_ex_units(&tx, &pp);
    kani::cover!(r.is_ok(), "no script: accepted");
    kani::cover!(r.is_err(), "script without redeemers: rejected");
    assert!(r.is_ok() == !with_script, "conway: a Plutus script without any redeemer structure is rejected, no script is accepted");
    assert!(conway::verif_hooks::presence_of_plutus_scripts(&tx) == with_script, "conway: presence_of_plutus_scripts sees the script");
    core::mem::forget(r);
    core::mem::forget(pp);
    core::mem::forget(tx);
}

/// vacuity twin: must come back FAILED
#[kani::proof]
#[kani::unwind(5)]
#[kani::stub(std::fmt::format, crate::stubs::fmt_format_stub)]
fn c37_v_twin() {
    let raw = [0u8; 1];
    let mut w = al::wits();
    w.plutus_script = Some(vec![script()]);
    w.redeemer = Some(vec![al_redeemer(true)]);
    let tx = al::Tx {
        transaction_body: KeepRaw::verif_from_parts(&raw, al::body()),
        transaction_witness_set: KeepRaw::verif_from_parts(&raw, w),
        success: true,
        auxiliary_data: Nullable::Null,
    };
    let mut pp = al::pp();
    pp.max_tx_ex_units = exu(kani::any(), kani::any());
            pp.max_block_ex_units = exu(kani::any(), kani::any()); // independent of the per-transaction limit
    let r = alonzo::verif_hooks::check_tx_ex_units(&tx, &pp);
    assert!(r.is_ok(), "twin: must fail");
    core::mem::forget(r);
    core::mem::forget(pp);
    core::mem::forget(tx);
}
