use crate::build::{al, ba, co, exu};
use crate::c33::*;
use pallas_codec::utils::{Bytes, KeepRaw, NonEmptySet, Nullable};
use pallas_primitives::Hash;
use pallas_validate::phase1::{alonzo, babbage, conway};

#[kani::proof]
#[kani::unwind(60)]
#[kani::stub(std::fmt::format, crate::stubs::fmt_format_stub)]
fn probe_post_net() {
    let raw = [0u8; 1];
    let mut body = ba::body();
    let mut arr = [ba_post::<29>(&raw, 0x71)];
    body.outputs = unsafe { Vec::from_raw_parts(arr.as_mut_ptr(), 1, 0) };
    let net: u8 = kani::any();
    let r1 = babbage::verif_hooks::check_network_id(&body, &net);
    kani::cover!(r1.is_err(), "output rejected by the network rule");
    core::mem::forget(r1);
    core::mem::forget(body);
    core::mem::forget(arr);
}

#[kani::proof]
#[kani::unwind(60)]
#[kani::stub(std::fmt::format, crate::stubs::fmt_format_stub)]
#[kani::stub(pallas_codec::minicbor::encode::Error::write, crate::stubs::mcb_write_err_stub)]
fn probe_post_minl() {
    let raw = [0u8; 1];
    let mut body = ba::body();
    let mut arr = [ba_post::<29>(&raw, 0x71)];
    body.outputs = unsafe { Vec::from_raw_parts(arr.as_mut_ptr(), 1, 0) };
    let mut pp = ba::pp();
    pp.ada_per_utxo_byte = kani::any();
    kani::assume(pp.ada_per_utxo_byte < (1 << 32));
    let r2 = babbage::verif_hooks::check_min_lovelace(&body, &pp);
    kani::cover!(r2.is_ok(), "enough lovelace");
    core::mem::forget(r2);
    core::mem::forget(pp);
    core::mem::forget(body);
    core::mem::forget(arr);
}

#[kani::proof]
#[kani::unwind(60)]
fn probe_post_build_only() {
    let raw = [0u8; 1];
    let mut arr = [ba_post::<29>(&raw, 0x71)];
    assert!(arr.len() == 1);
    core::mem::forget(arr);
}
