use crate::build::{al, ba, co, exu};
use pallas_codec::utils::{Bytes, KeepRaw, NonEmptySet, Nullable};
use pallas_primitives::Hash;
use pallas_validate::phase1::{alonzo, babbage, conway};

fn addr<const N: usize>(hdr: u8) -> Bytes {
    let mut a: [u8; N] = kani::any();
    a[0] = hdr;
    Bytes::from(a.to_vec())
}

macro_rules! p {
    ($name:ident, $n:expr, $ty:expr) => {
#[kani::proof]
#[kani::unwind(60)]
#[kani::stub(std::fmt::format, crate::stubs::fmt_format_stub)]
fn $name() {
    let mut body = al::body();
    let mut arr = [al::TransactionOutput { address: addr::<$n>($ty), amount: al::Value::Coin(kani::any()), datum_hash: None }];
    body.outputs = unsafe { Vec::from_raw_parts(arr.as_mut_ptr(), 1, 0) };
    let net: u8 = kani::any();
    let r1 = alonzo::verif_hooks::check_network_id(&body, &net);
    kani::cover!(r1.is_ok(), "output on the right network");
    kani::cover!(r1.is_err(), "output rejected (network / undecodable address)");
    core::mem::forget(r1);
    core::mem::forget(body);
    core::mem::forget(arr);
}
    };
}
p!(probe_net_t6_k1, 29, 0x61);
p!(probe_net_t6_k5, 29, 0x65);
p!(probe_net_t0_k0, 57, 0x00);
p!(probe_net_t6_short, 20, 0x61);
