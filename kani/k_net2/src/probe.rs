//! scratch experiments (not part of any property)
use crate::c24::*;

#[kani::proof]
#[kani::unwind(3)]
fn probe_lf_p1() {
    set_vlen(0);
    let st = lf::state_k(any_kind(0, 6));
    let msg = lf::msg_k(4);
    let r = st.apply(&msg);
    kani::cover!(r.is_ok(), "ok");
    core::mem::forget(r);
    core::mem::forget(st);
    core::mem::forget(msg);
}
#[kani::proof]
#[kani::unwind(3)]
fn probe_lf_p2() {
    set_vlen(0);
    let k = any_kind(0, 6);
    kani::assume(k != 4);
    let st = match k { 0 => lf::state_k(0), 1 => lf::state_k(1), 2 => lf::state_k(2), 3 => lf::state_k(3), _ => lf::state_k(5) };
    let msg = lf::msg_k(4);
    let r = st.apply(&msg);
    kani::cover!(r.is_ok(), "ok");
    core::mem::forget(r);
    core::mem::forget(st);
    core::mem::forget(msg);
}
#[kani::proof]
#[kani::unwind(3)]
fn probe_lf_p3() {
    set_vlen(0);
    let st = lf::state_k(4);
    let msg = lf::msg_k(4);
    let r = st.apply(&msg);
    kani::cover!(r.is_err(), "err");
    core::mem::forget(r);
    core::mem::forget(st);
    core::mem::forget(msg);
}
#[kani::proof]
#[kani::unwind(3)]
fn probe_lf_p4() {
    set_vlen(0);
    let st = lf::state_k(any_kind(0, 6));
    kani::cover!(lf::cls(&st) == lf::Cls::Done, "done");
    core::mem::forget(st);
}
#[kani::proof]
#[kani::unwind(3)]
fn probe_lf_p5() {
    any_vlen();
    let st = lf::state_k(any_kind(0, 6));
    let msg = lf::msg_k(4);
    let r = st.apply(&msg);
    kani::cover!(r.is_ok(), "ok");
    core::mem::forget(r);
    core::mem::forget(st);
    core::mem::forget(msg);
}
#[kani::proof]
#[kani::unwind(3)]
fn probe_lf_p6() {
    set_vlen(1);
    let st = lf::state_k(any_kind(0, 6));
    let msg = lf::msg_k(4);
    let want = lf::spec(lf::cls(&st), &msg);
    let r = st.apply(&msg);
    assert!(r.is_ok() == want.is_some(), "accepted exactly when the specification allows the message in this state");
    if let Ok(n) = &r {
        assert!(Some(lf::cls(n)) == want, "next state class is the prescribed one");
    }
    kani::cover!(r.is_ok(), "ok");
    core::mem::forget(r);
    core::mem::forget(st);
    core::mem::forget(msg);
}
#[kani::proof]
#[kani::unwind(3)]
fn probe_lf_p7() {
    set_vlen(1);
    let st = lf::state_k(any_kind(0, 6));
    let msg = lf::msg_k(any_kind(0, 5));
    let want = lf::spec(lf::cls(&st), &msg);
    let r = st.apply(&msg);
    assert!(r.is_ok() == want.is_some(), "accepted exactly when the specification allows the message in this state");
    if let Ok(n) = &r {
        assert!(Some(lf::cls(n)) == want, "next state class is the prescribed one");
    }
    kani::cover!(r.is_ok(), "ok");
    core::mem::forget(r);
    core::mem::forget(st);
    core::mem::forget(msg);
}
