//! scratch experiments (not part of any property)
