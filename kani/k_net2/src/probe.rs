//! scratch experiments (not part of any property)
use crate::c22::*;
use crate::cborwf::walk;
use pallas_codec::minicbor::Decoder;

#[kani::proof]
#[kani::unwind(10)]
#[kani::stub(std::fmt::format, crate::stubs::fmt_format_stub)]
fn probe_ka_enc_only() {
    let msg = ka::Message::KeepAlive(kani::any());
    let mut buf = [0u8; 8];
    let (ok, len) = encode_into(&msg, &mut buf[..]);
    assert!(ok && len >= 2 && len <= 4);
}
#[kani::proof]
#[kani::unwind(10)]
#[kani::stub(std::fmt::format, crate::stubs::fmt_format_stub)]
fn probe_ka_enc_walk() {
    let msg = ka::Message::KeepAlive(kani::any());
    let mut buf = [0u8; 8];
    let (ok, len) = encode_into(&msg, &mut buf[..]);
    let w = walk(&buf, len, 4);
    assert!(w == Some(len));
}
#[kani::proof]
#[kani::unwind(10)]
#[kani::stub(std::fmt::format, crate::stubs::fmt_format_stub)]
fn probe_ka_enc_dec() {
    let msg = ka::Message::KeepAlive(kani::any());
    let mut buf = [0u8; 8];
    let (ok, len) = encode_into(&msg, &mut buf[..]);
    let mut d = Decoder::new(&buf[..len]);
    let back: Result<ka::Message, _> = d.decode();
    match &back {
        Ok(m2) => assert!(ka::eq(&msg, m2)),
        Err(_) => assert!(false),
    }
    core::mem::forget(back);
}
