//! C22 (network2): every message value encodes to exactly one well-formed CBOR item and decodes back to an equal value.
//! fn: <pallas_network2::protocol::keepalive::Message as Encode/Decode>
//! fn: <pallas_network2::protocol::blockfetch::Message as Encode/Decode>, <Point as Encode/Decode>
//! fn: <pallas_network2::protocol::chainsync::Message<HeaderContent> as Encode/Decode>, <Tip>, <HeaderContent>
//! fn: <pallas_network2::protocol::txsubmission::Message as Encode/Decode>, <EraTxId>, <EraTxBody>, <TxIdAndSize<EraTxId>>
//! fn: <pallas_network2::protocol::peersharing::Message as Encode/Decode>, <PeerAddress as Encode/Decode>
//! fn: minicbor::Encoder over encode::write::Cursor<&mut [u8]>, minicbor::Decoder
//! stub: std::fmt::format -> empty String
//! outside: mixtures of CBOR head classes inside one message: all integer scalars of a message are symbolic within the same head class (1/2/3/5/9-byte encoding, clamped to the scalar's type); quick tier = widest class, well-formedness half (`_wf`) for one to three variants per protocol incl. every container shape and decoder half (`_rt`) for the scalar-light variants; thorough = both halves for every variant, plus the other head classes for one variant per scalar shape
//! outside: variants owning a HashMap version table (handshake Propose/QueryReply) and the remaining handshake / leios messages; vectors longer than 2 elements; byte strings longer than 3 bytes (1 byte inside the nested variants)
//! outside: chainsync HeaderContent values that the type allows but the wire format cannot represent (variant 0 without byron prefix: encode returns Err; variant != 0 with a prefix: prefix is not written) -- "representable field combinations" in the property text
//! assume: the well-formedness oracle is the hand-written walker in cborwf.rs (strict: declared container lengths must be met, reserved heads rejected); trusted, small, same file in both crates
use crate::cborwf::walk;
use pallas_codec::minicbor::encode::write::Cursor;
use pallas_codec::minicbor::{Decoder, Encoder};
use pallas_network2::protocol::{self as proto, Point};

// ---------------------------------------------------------------------------------------------
// builders: lengths concrete, contents symbolic
// ---------------------------------------------------------------------------------------------
/// CBOR head class of every integer scalar built below, concrete per harness: class k = encoding of 1, 2, 3, 5, 9 bytes
/// (k = 0..4; a scalar whose type is too narrow for the class uses its own widest class). All values of the class are
/// symbolic. (measured: with the head class symbolic every later offset is symbolic and a bare Point round trip costs
/// 130-250 s instead of seconds.)
static mut CLASS: u8 = 4;
pub fn set_class(k: u8) {
    unsafe { CLASS = k }
}
fn in_class(x: u64, k: u8) -> bool {
    match k {
        0 => x < 24,
        1 => 24 <= x && x <= 0xff,
        2 => 0xff < x && x <= 0xffff,
        3 => 0xffff < x && x <= 0xffff_ffff,
        _ => 0xffff_ffff < x,
    }
}
pub fn any_u64() -> u64 {
    let x: u64 = kani::any();
    kani::assume(in_class(x, unsafe { CLASS }));
    x
}
pub fn any_u32() -> u32 {
    let x: u32 = kani::any();
    kani::assume(in_class(x as u64, unsafe { CLASS }.min(3)));
    x
}
pub fn any_u16() -> u16 {
    let x: u16 = kani::any();
    kani::assume(in_class(x as u64, unsafe { CLASS }.min(2)));
    x
}
pub fn any_u8() -> u8 {
    let x: u8 = kani::any();
    kani::assume(in_class(x as u64, unsafe { CLASS }.min(1)));
    x
}
pub fn bytes_n(n: usize) -> Vec<u8> {
    match n {
        0 => Vec::new(),
        1 => vec![kani::any()],
        2 => vec![kani::any(), kani::any()],
        _ => vec![kani::any(), kani::any(), kani::any()],
    }
}

/// byte strings of concrete, equal, small length
pub fn eq_bytes(a: &[u8], b: &[u8]) -> bool {
    if a.len() != b.len() || a.len() > 3 {
        return false;
    }
    let mut i = 0;
    let mut ok = true;
    while i < 3 {
        if i < a.len() && a[i] != b[i] {
            ok = false;
        }
        i += 1;
    }
    ok
}

/// point kinds: 0 = Origin, 1 = Specific(any slot, hash of `h` bytes)
pub fn point_k(k: u8, h: usize) -> Point {
    if k == 0 {
        Point::Origin
    } else {
        Point::Specific(any_u64(), bytes_n(h))
    }
}

pub fn eq_point(a: &Point, b: &Point) -> bool {
    match (a, b) {
        (Point::Origin, Point::Origin) => true,
        (Point::Specific(s, h), Point::Specific(s2, h2)) => *s == *s2 && eq_bytes(h, h2),
        _ => false,
    }
}

/// encodes `x` at the start of `buf`; returns (ok, number of bytes written)
pub fn encode_into<T: pallas_codec::minicbor::Encode<()>>(x: &T, buf: &mut [u8]) -> (bool, usize) {
    let mut e = Encoder::new(Cursor::new(buf));
    let r = e.encode(x);
    let ok = r.is_ok();
    core::mem::forget(r);
    (ok, e.writer().position())
}

/// The property, for any `T: Encode + Decode`, in two halves (measured: the decoder half costs 5-20x the walker half
/// because every integer head read by minicbor fans out into its allocation-carrying error paths):
/// `wf!`: the real encoder's output is exactly one well-formed CBOR item (strict walker);
/// `rt!`: the real decoder returns a field-wise equal value from it and stops at its end.
/// `$mk` builds the value, `$eq` compares two values field-wise, `$n` = buffer size, `$steps` = upper bound on the
/// number of CBOR heads of the encoding (walker bound), `$class` = head class of the integer scalars.
macro_rules! wf {
    ($name:ident, $t:ty, $n:expr, $steps:expr, $unw:expr, $mk:expr, $eq:path) => {
        wf!($name, $t, $n, $steps, $unw, $mk, $eq, 4);
    };
    ($name:ident, $t:ty, $n:expr, $steps:expr, $unw:expr, $mk:expr, $eq:path, $class:expr) => {
        #[kani::proof]
        #[kani::unwind($unw)]
        #[kani::stub(std::fmt::format, crate::stubs::fmt_format_stub)]
        fn $name() {
            set_class($class);
            let msg: $t = $mk;
            let mut buf = [0u8; $n];
            let (enc_ok, len) = encode_into(&msg, &mut buf[..]);
            assert!(enc_ok, "the value encodes (buffer is large enough)");
            assert!(len > 0 && len <= $n, "something was written, inside the buffer");
            let w = walk(&buf, len, $steps);
            assert!(w.is_some(), "the encoding is a well-formed CBOR item: every declared container length is met");
            assert!(w == Some(len), "the encoding is exactly one item: the strict walker ends where the encoder stopped");
            kani::cover!(w == Some(len), "walker reached the end of the encoding");
            core::mem::forget(msg);
        }
    };
}
macro_rules! rt {
    ($name:ident, $t:ty, $n:expr, $steps:expr, $unw:expr, $mk:expr, $eq:path) => {
        rt!($name, $t, $n, $steps, $unw, $mk, $eq, 4);
    };
    ($name:ident, $t:ty, $n:expr, $steps:expr, $unw:expr, $mk:expr, $eq:path, $class:expr) => {
        #[kani::proof]
        #[kani::unwind($unw)]
        #[kani::stub(std::fmt::format, crate::stubs::fmt_format_stub)]
        fn $name() {
            set_class($class);
            let msg: $t = $mk;
            let mut buf = [0u8; $n];
            let (enc_ok, len) = encode_into(&msg, &mut buf[..]);
            assert!(enc_ok, "the value encodes (buffer is large enough)");
            // decoded from the whole zero-padded buffer (a slice of symbolic length costs 5x): stopping exactly at `len` is asserted below
            let mut d = Decoder::new(&buf[..]);
            let back: Result<$t, _> = d.decode();
            match &back {
                Ok(m2) => {
                    assert!($eq(&msg, m2), "decoding the encoding returns an equal value");
                    assert!(d.position() == len, "the decoder stops exactly at the end of the encoding");
                }
                Err(_) => assert!(false, "the encoding decodes"),
            }
            kani::cover!(back.is_ok(), "round trip completed");
            core::mem::forget(back);
            core::mem::forget(msg);
        }
    };
}

// ---------------------------------------------------------------------------------------------
// keepalive
// ---------------------------------------------------------------------------------------------
pub mod ka {
    use super::*;
    pub use proto::keepalive::Message;
    pub fn eq(a: &Message, b: &Message) -> bool {
        match (a, b) {
            (Message::KeepAlive(x), Message::KeepAlive(y)) => *x == *y,
            (Message::ResponseKeepAlive(x), Message::ResponseKeepAlive(y)) => *x == *y,
            (Message::Done, Message::Done) => true,
            _ => false,
        }
    }
}
// bound: keepalive, variant concrete, cookie any u16 of the 3-byte head class; 8-byte buffer, walker <= 4 heads; unwind 10
wf!(c22_q_ka_keepalive_wf, ka::Message, 8, 4, 10, ka::Message::KeepAlive(any_u16()), ka::eq);
rt!(c22_q_ka_keepalive_rt, ka::Message, 8, 4, 10, ka::Message::KeepAlive(any_u16()), ka::eq);
wf!(c22_q_ka_response_wf, ka::Message, 8, 4, 10, ka::Message::ResponseKeepAlive(any_u16()), ka::eq);
rt!(c22_q_ka_response_rt, ka::Message, 8, 4, 10, ka::Message::ResponseKeepAlive(any_u16()), ka::eq);
wf!(c22_q_ka_done_wf, ka::Message, 8, 4, 10, ka::Message::Done, ka::eq);
rt!(c22_q_ka_done_rt, ka::Message, 8, 4, 10, ka::Message::Done, ka::eq);

// ---------------------------------------------------------------------------------------------
// Point
// ---------------------------------------------------------------------------------------------
// bound: Point::Origin / Point::Specific(any u64 slot, hash of 0 / 3 symbolic bytes); 16-byte buffer, walker <= 4 heads; unwind 10
wf!(c22_q_point_origin_wf, Point, 16, 4, 10, point_k(0, 0), eq_point);
rt!(c22_q_point_origin_rt, Point, 16, 4, 10, point_k(0, 0), eq_point);
wf!(c22_t_point_specific0_wf, Point, 16, 4, 10, point_k(1, 0), eq_point);
rt!(c22_t_point_specific0_rt, Point, 16, 4, 10, point_k(1, 0), eq_point);
wf!(c22_q_point_specific3_wf, Point, 16, 4, 10, point_k(1, 3), eq_point);
rt!(c22_t_point_specific3_rt, Point, 16, 4, 10, point_k(1, 3), eq_point);

// ---------------------------------------------------------------------------------------------
// blockfetch
// ---------------------------------------------------------------------------------------------
pub mod bf {
    use super::*;
    pub use proto::blockfetch::Message;
    pub fn eq(a: &Message, b: &Message) -> bool {
        match (a, b) {
            (Message::RequestRange((p, q)), Message::RequestRange((p2, q2))) => eq_point(p, p2) && eq_point(q, q2),
            (Message::ClientDone, Message::ClientDone) => true,
            (Message::StartBatch, Message::StartBatch) => true,
            (Message::NoBlocks, Message::NoBlocks) => true,
            (Message::Block(x), Message::Block(y)) => eq_bytes(x, y),
            (Message::BatchDone, Message::BatchDone) => true,
            _ => false,
        }
    }
}
// bound: blockfetch, variant concrete; RequestRange with (Specific, Specific) 1-byte hashes / (Origin, Specific) / (Origin, Origin), slots any u64; Block body of 0 / 3 symbolic bytes; 32-byte buffer, walker <= 10 heads; unwind 12
wf!(c22_q_bf_range_ss_wf, bf::Message, 32, 10, 12, bf::Message::RequestRange((point_k(1, 1), point_k(1, 1))), bf::eq);
rt!(c22_t_bf_range_ss_rt, bf::Message, 32, 10, 12, bf::Message::RequestRange((point_k(1, 1), point_k(1, 1))), bf::eq);
wf!(c22_t_bf_range_os_wf, bf::Message, 32, 10, 12, bf::Message::RequestRange((point_k(0, 0), point_k(1, 1))), bf::eq);
rt!(c22_t_bf_range_os_rt, bf::Message, 32, 10, 12, bf::Message::RequestRange((point_k(0, 0), point_k(1, 1))), bf::eq);
wf!(c22_t_bf_range_oo_wf, bf::Message, 32, 10, 12, bf::Message::RequestRange((point_k(0, 0), point_k(0, 0))), bf::eq);
rt!(c22_t_bf_range_oo_rt, bf::Message, 32, 10, 12, bf::Message::RequestRange((point_k(0, 0), point_k(0, 0))), bf::eq);
wf!(c22_t_bf_clientdone_wf, bf::Message, 32, 10, 12, bf::Message::ClientDone, bf::eq);
rt!(c22_t_bf_clientdone_rt, bf::Message, 32, 10, 12, bf::Message::ClientDone, bf::eq);
wf!(c22_q_bf_startbatch_wf, bf::Message, 32, 10, 12, bf::Message::StartBatch, bf::eq);
rt!(c22_q_bf_startbatch_rt, bf::Message, 32, 10, 12, bf::Message::StartBatch, bf::eq);
wf!(c22_t_bf_noblocks_wf, bf::Message, 32, 10, 12, bf::Message::NoBlocks, bf::eq);
rt!(c22_t_bf_noblocks_rt, bf::Message, 32, 10, 12, bf::Message::NoBlocks, bf::eq);
wf!(c22_t_bf_block0_wf, bf::Message, 32, 10, 12, bf::Message::Block(bytes_n(0)), bf::eq);
rt!(c22_t_bf_block0_rt, bf::Message, 32, 10, 12, bf::Message::Block(bytes_n(0)), bf::eq);
wf!(c22_q_bf_block3_wf, bf::Message, 32, 10, 12, bf::Message::Block(bytes_n(3)), bf::eq);
rt!(c22_q_bf_block3_rt, bf::Message, 32, 10, 12, bf::Message::Block(bytes_n(3)), bf::eq);
wf!(c22_t_bf_batchdone_wf, bf::Message, 32, 10, 12, bf::Message::BatchDone, bf::eq);
rt!(c22_t_bf_batchdone_rt, bf::Message, 32, 10, 12, bf::Message::BatchDone, bf::eq);

// ---------------------------------------------------------------------------------------------
// chainsync (HeaderContent)
// ---------------------------------------------------------------------------------------------
pub mod cs {
    use super::*;
    pub use proto::chainsync::{HeaderContent, Tip};
    pub type Message = proto::chainsync::Message<HeaderContent>;

    pub fn tip_k(k: u8, h: usize) -> Tip {
        Tip(point_k(k, h), any_u64())
    }
    pub fn eq_tip(a: &Tip, b: &Tip) -> bool {
        eq_point(&a.0, &b.0) && a.1 == b.1
    }
    /// representable header contents: byron (variant 0 with prefix) or later eras (variant != 0, no prefix)
    pub fn content(byron: bool, n: usize) -> HeaderContent {
        if byron {
            HeaderContent { variant: 0, byron_prefix: Some((any_u8(), any_u64())), cbor: bytes_n(n) }
        } else {
            let v: u8 = any_u8();
            kani::assume(v != 0);
            HeaderContent { variant: v, byron_prefix: None, cbor: bytes_n(n) }
        }
    }
    pub fn eq_content(a: &HeaderContent, b: &HeaderContent) -> bool {
        a.variant == b.variant && a.byron_prefix == b.byron_prefix && eq_bytes(&a.cbor, &b.cbor)
    }
    pub fn points(n: usize) -> Vec<Point> {
        match n {
            0 => Vec::new(),
            1 => vec![point_k(1, 1)],
            _ => vec![point_k(1, 1), point_k(0, 0)],
        }
    }
    pub fn eq(a: &Message, b: &Message) -> bool {
        match (a, b) {
            (Message::RequestNext, Message::RequestNext) => true,
            (Message::AwaitReply, Message::AwaitReply) => true,
            (Message::RollForward(c, t), Message::RollForward(c2, t2)) => eq_content(c, c2) && eq_tip(t, t2),
            (Message::RollBackward(p, t), Message::RollBackward(p2, t2)) => eq_point(p, p2) && eq_tip(t, t2),
            (Message::FindIntersect(v), Message::FindIntersect(w)) => {
                if v.len() != w.len() || v.len() > 2 {
                    return false;
                }
                let mut ok = true;
                let mut i = 0;
                while i < 2 {
                    if i < v.len() && !eq_point(&v[i], &w[i]) {
                        ok = false;
                    }
                    i += 1;
                }
                ok
            }
            (Message::IntersectFound(p, t), Message::IntersectFound(p2, t2)) => eq_point(p, p2) && eq_tip(t, t2),
            (Message::IntersectNotFound(t), Message::IntersectNotFound(t2)) => eq_tip(t, t2),
            (Message::Done, Message::Done) => true,
            _ => false,
        }
    }
}
// bound: chainsync<HeaderContent>, variant concrete; slots / block numbers any u64; point hashes 0..1 byte; header cbor 0..1 byte (nested CBOR-in-CBOR variants); FindIntersect with 0, 1, 2 points; 48-byte buffer, walker <= 16 heads; unwind 18
wf!(c22_t_cs_requestnext_wf, cs::Message, 48, 16, 18, cs::Message::RequestNext, cs::eq);
rt!(c22_t_cs_requestnext_rt, cs::Message, 48, 16, 18, cs::Message::RequestNext, cs::eq);
wf!(c22_t_cs_awaitreply_wf, cs::Message, 48, 16, 18, cs::Message::AwaitReply, cs::eq);
rt!(c22_t_cs_awaitreply_rt, cs::Message, 48, 16, 18, cs::Message::AwaitReply, cs::eq);
wf!(c22_t_cs_rollforward_shelley_wf, cs::Message, 48, 16, 18, cs::Message::RollForward(cs::content(false, 1), cs::tip_k(1, 1)), cs::eq);
rt!(c22_x_cs_rollforward_shelley_rt, cs::Message, 48, 16, 18, cs::Message::RollForward(cs::content(false, 1), cs::tip_k(1, 1)), cs::eq);
wf!(c22_t_cs_rollforward_byron_wf, cs::Message, 48, 16, 18, cs::Message::RollForward(cs::content(true, 1), cs::tip_k(1, 0)), cs::eq);
rt!(c22_x_cs_rollforward_byron_rt, cs::Message, 48, 16, 18, cs::Message::RollForward(cs::content(true, 1), cs::tip_k(1, 0)), cs::eq);
wf!(c22_t_cs_rollforward_shelley_origin_wf, cs::Message, 48, 16, 18, cs::Message::RollForward(cs::content(false, 0), cs::tip_k(0, 0)), cs::eq);
rt!(c22_x_cs_rollforward_shelley_origin_rt, cs::Message, 48, 16, 18, cs::Message::RollForward(cs::content(false, 0), cs::tip_k(0, 0)), cs::eq);
wf!(c22_q_cs_rollbackward_wf, cs::Message, 48, 16, 18, cs::Message::RollBackward(point_k(1, 1), cs::tip_k(1, 1)), cs::eq);
rt!(c22_x_cs_rollbackward_rt, cs::Message, 48, 16, 18, cs::Message::RollBackward(point_k(1, 1), cs::tip_k(1, 1)), cs::eq);
wf!(c22_t_cs_rollbackward_origin_wf, cs::Message, 48, 16, 18, cs::Message::RollBackward(point_k(0, 0), cs::tip_k(1, 0)), cs::eq);
rt!(c22_x_cs_rollbackward_origin_rt, cs::Message, 48, 16, 18, cs::Message::RollBackward(point_k(0, 0), cs::tip_k(1, 0)), cs::eq);
wf!(c22_t_cs_findintersect0_wf, cs::Message, 48, 16, 18, cs::Message::FindIntersect(cs::points(0)), cs::eq);
rt!(c22_t_cs_findintersect0_rt, cs::Message, 48, 16, 18, cs::Message::FindIntersect(cs::points(0)), cs::eq);
wf!(c22_q_cs_findintersect1_wf, cs::Message, 48, 16, 18, cs::Message::FindIntersect(cs::points(1)), cs::eq);
rt!(c22_x_cs_findintersect1_rt, cs::Message, 48, 16, 18, cs::Message::FindIntersect(cs::points(1)), cs::eq);
wf!(c22_t_cs_findintersect2_wf, cs::Message, 48, 16, 18, cs::Message::FindIntersect(cs::points(2)), cs::eq);
rt!(c22_x_cs_findintersect2_rt, cs::Message, 48, 16, 18, cs::Message::FindIntersect(cs::points(2)), cs::eq);
wf!(c22_t_cs_intersectfound_wf, cs::Message, 48, 16, 18, cs::Message::IntersectFound(point_k(1, 1), cs::tip_k(1, 1)), cs::eq);
rt!(c22_x_cs_intersectfound_rt, cs::Message, 48, 16, 18, cs::Message::IntersectFound(point_k(1, 1), cs::tip_k(1, 1)), cs::eq);
wf!(c22_t_cs_intersectnotfound_wf, cs::Message, 48, 16, 18, cs::Message::IntersectNotFound(cs::tip_k(1, 1)), cs::eq);
rt!(c22_x_cs_intersectnotfound_rt, cs::Message, 48, 16, 18, cs::Message::IntersectNotFound(cs::tip_k(1, 1)), cs::eq);
wf!(c22_t_cs_intersectnotfound_origin_wf, cs::Message, 48, 16, 18, cs::Message::IntersectNotFound(cs::tip_k(0, 0)), cs::eq);
rt!(c22_t_cs_intersectnotfound_origin_rt, cs::Message, 48, 16, 18, cs::Message::IntersectNotFound(cs::tip_k(0, 0)), cs::eq);
wf!(c22_q_cs_done_wf, cs::Message, 48, 16, 18, cs::Message::Done, cs::eq);
rt!(c22_q_cs_done_rt, cs::Message, 48, 16, 18, cs::Message::Done, cs::eq);

// ---------------------------------------------------------------------------------------------
// txsubmission
// ---------------------------------------------------------------------------------------------
pub mod tx {
    use super::*;
    pub use proto::txsubmission::{EraTxBody, EraTxId, Message, TxIdAndSize};

    pub fn id(n: usize) -> EraTxId {
        EraTxId(any_u16(), bytes_n(n))
    }
    pub fn eq_id(a: &EraTxId, b: &EraTxId) -> bool {
        a.0 == b.0 && eq_bytes(&a.1, &b.1)
    }
    pub fn body(n: usize) -> EraTxBody {
        EraTxBody(any_u16(), bytes_n(n))
    }
    pub fn eq_body(a: &EraTxBody, b: &EraTxBody) -> bool {
        a.0 == b.0 && eq_bytes(&a.1, &b.1)
    }
    pub fn ids(n: usize) -> Vec<EraTxId> {
        match n {
            0 => Vec::new(),
            1 => vec![id(1)],
            _ => vec![id(1), id(0)],
        }
    }
    pub fn idsizes(n: usize) -> Vec<TxIdAndSize<EraTxId>> {
        match n {
            0 => Vec::new(),
            1 => vec![TxIdAndSize(id(1), any_u32())],
            _ => vec![TxIdAndSize(id(1), any_u32()), TxIdAndSize(id(0), any_u32())],
        }
    }
    pub fn bodies(n: usize) -> Vec<EraTxBody> {
        match n {
            0 => Vec::new(),
            1 => vec![body(1)],
            _ => vec![body(1), body(0)],
        }
    }
    pub fn eq(a: &Message, b: &Message) -> bool {
        match (a, b) {
            (Message::Init, Message::Init) => true,
            (Message::RequestTxIds(x, y, z), Message::RequestTxIds(x2, y2, z2)) => *x == *x2 && *y == *y2 && *z == *z2,
            (Message::ReplyTxIds(v), Message::ReplyTxIds(w)) => {
                if v.len() != w.len() || v.len() > 2 {
                    return false;
                }
                let mut ok = true;
                let mut i = 0;
                while i < 2 {
                    if i < v.len() && !(eq_id(&v[i].0, &w[i].0) && v[i].1 == w[i].1) {
                        ok = false;
                    }
                    i += 1;
                }
                ok
            }
            (Message::RequestTxs(v), Message::RequestTxs(w)) => {
                if v.len() != w.len() || v.len() > 2 {
                    return false;
                }
                let mut ok = true;
                let mut i = 0;
                while i < 2 {
                    if i < v.len() && !eq_id(&v[i], &w[i]) {
                        ok = false;
                    }
                    i += 1;
                }
                ok
            }
            (Message::ReplyTxs(v), Message::ReplyTxs(w)) => {
                if v.len() != w.len() || v.len() > 2 {
                    return false;
                }
                let mut ok = true;
                let mut i = 0;
                while i < 2 {
                    if i < v.len() && !eq_body(&v[i], &w[i]) {
                        ok = false;
                    }
                    i += 1;
                }
                ok
            }
            (Message::Done, Message::Done) => true,
            _ => false,
        }
    }
}
// bound: txsubmission, variant concrete; blocking flag / counts / eras / sizes symbolic; lists of 0, 1, 2 elements; tx ids and bodies 0..1 byte; 40-byte buffer, walker <= 16 heads; unwind 18
wf!(c22_t_tx_init_wf, tx::Message, 40, 16, 18, tx::Message::Init, tx::eq);
rt!(c22_q_tx_init_rt, tx::Message, 40, 16, 18, tx::Message::Init, tx::eq);
wf!(c22_q_tx_requesttxids_wf, tx::Message, 40, 16, 18, tx::Message::RequestTxIds(kani::any(), any_u16(), any_u16()), tx::eq);
rt!(c22_x_tx_requesttxids_rt, tx::Message, 40, 16, 18, tx::Message::RequestTxIds(kani::any(), any_u16(), any_u16()), tx::eq);
wf!(c22_t_tx_replytxids0_wf, tx::Message, 40, 16, 18, tx::Message::ReplyTxIds(tx::idsizes(0)), tx::eq);
rt!(c22_t_tx_replytxids0_rt, tx::Message, 40, 16, 18, tx::Message::ReplyTxIds(tx::idsizes(0)), tx::eq);
wf!(c22_q_tx_replytxids1_wf, tx::Message, 40, 16, 18, tx::Message::ReplyTxIds(tx::idsizes(1)), tx::eq);
rt!(c22_x_tx_replytxids1_rt, tx::Message, 40, 16, 18, tx::Message::ReplyTxIds(tx::idsizes(1)), tx::eq);
wf!(c22_t_tx_replytxids2_wf, tx::Message, 40, 16, 18, tx::Message::ReplyTxIds(tx::idsizes(2)), tx::eq);
rt!(c22_x_tx_replytxids2_rt, tx::Message, 40, 16, 18, tx::Message::ReplyTxIds(tx::idsizes(2)), tx::eq);
wf!(c22_t_tx_requesttxs0_wf, tx::Message, 40, 16, 18, tx::Message::RequestTxs(tx::ids(0)), tx::eq);
rt!(c22_t_tx_requesttxs0_rt, tx::Message, 40, 16, 18, tx::Message::RequestTxs(tx::ids(0)), tx::eq);
wf!(c22_t_tx_requesttxs1_wf, tx::Message, 40, 16, 18, tx::Message::RequestTxs(tx::ids(1)), tx::eq);
rt!(c22_x_tx_requesttxs1_rt, tx::Message, 40, 16, 18, tx::Message::RequestTxs(tx::ids(1)), tx::eq);
wf!(c22_t_tx_requesttxs2_wf, tx::Message, 40, 16, 18, tx::Message::RequestTxs(tx::ids(2)), tx::eq);
rt!(c22_x_tx_requesttxs2_rt, tx::Message, 40, 16, 18, tx::Message::RequestTxs(tx::ids(2)), tx::eq);
wf!(c22_t_tx_replytxs0_wf, tx::Message, 40, 16, 18, tx::Message::ReplyTxs(tx::bodies(0)), tx::eq);
rt!(c22_t_tx_replytxs0_rt, tx::Message, 40, 16, 18, tx::Message::ReplyTxs(tx::bodies(0)), tx::eq);
wf!(c22_q_tx_replytxs1_wf, tx::Message, 40, 16, 18, tx::Message::ReplyTxs(tx::bodies(1)), tx::eq);
rt!(c22_x_tx_replytxs1_rt, tx::Message, 40, 16, 18, tx::Message::ReplyTxs(tx::bodies(1)), tx::eq);
wf!(c22_t_tx_replytxs2_wf, tx::Message, 40, 16, 18, tx::Message::ReplyTxs(tx::bodies(2)), tx::eq);
rt!(c22_x_tx_replytxs2_rt, tx::Message, 40, 16, 18, tx::Message::ReplyTxs(tx::bodies(2)), tx::eq);
wf!(c22_t_tx_done_wf, tx::Message, 40, 16, 18, tx::Message::Done, tx::eq);
rt!(c22_t_tx_done_rt, tx::Message, 40, 16, 18, tx::Message::Done, tx::eq);

// ---------------------------------------------------------------------------------------------
// peersharing
// ---------------------------------------------------------------------------------------------
pub mod ps {
    use super::*;
    pub use proto::peersharing::{Message, PeerAddress};
    use std::net::{Ipv4Addr, Ipv6Addr};

    /// four 32-bit words, each in the head class of the harness
    pub fn any_v6_bits() -> u128 {
        ((any_u32() as u128) << 96) | ((any_u32() as u128) << 64) | ((any_u32() as u128) << 32) | (any_u32() as u128)
    }
    pub fn any_port() -> proto::peersharing::Port {
        any_u16()
    }
    pub fn v4() -> PeerAddress {
        PeerAddress::V4(Ipv4Addr::from_bits(any_u32()), any_port())
    }
    pub fn v6() -> PeerAddress {
        PeerAddress::V6(Ipv6Addr::from_bits(any_v6_bits()), any_port())
    }
    pub fn eq_addr(a: &PeerAddress, b: &PeerAddress) -> bool {
        match (a, b) {
            (PeerAddress::V4(x, p), PeerAddress::V4(y, q)) => x.to_bits() == y.to_bits() && *p == *q,
            (PeerAddress::V6(x, p), PeerAddress::V6(y, q)) => x.to_bits() == y.to_bits() && *p == *q,
            _ => false,
        }
    }
    pub fn eq(a: &Message, b: &Message) -> bool {
        match (a, b) {
            (Message::ShareRequest(x), Message::ShareRequest(y)) => *x == *y,
            (Message::SharePeers(v), Message::SharePeers(w)) => {
                if v.len() != w.len() || v.len() > 2 {
                    return false;
                }
                let mut ok = true;
                let mut i = 0;
                while i < 2 {
                    if i < v.len() && !eq_addr(&v[i], &w[i]) {
                        ok = false;
                    }
                    i += 1;
                }
                ok
            }
            (Message::Done, Message::Done) => true,
            _ => false,
        }
    }
}
// bound: peersharing, variant concrete; amount any u8; SharePeers with 0 / 1 / 2 IPv4 peers, every address and port; 40-byte buffer, walker <= 12 heads; unwind 14
wf!(c22_q_ps_sharerequest_wf, ps::Message, 40, 12, 14, ps::Message::ShareRequest(any_u8()), ps::eq);
rt!(c22_q_ps_sharerequest_rt, ps::Message, 40, 12, 14, ps::Message::ShareRequest(any_u8()), ps::eq);
wf!(c22_t_ps_sharepeers0_wf, ps::Message, 40, 12, 14, ps::Message::SharePeers(Vec::new()), ps::eq);
rt!(c22_x_ps_sharepeers0_rt, ps::Message, 40, 12, 14, ps::Message::SharePeers(Vec::new()), ps::eq);
wf!(c22_q_ps_sharepeers1_v4_wf, ps::Message, 40, 12, 14, ps::Message::SharePeers(vec![ps::v4()]), ps::eq);
rt!(c22_x_ps_sharepeers1_v4_rt, ps::Message, 40, 12, 14, ps::Message::SharePeers(vec![ps::v4()]), ps::eq);
wf!(c22_t_ps_sharepeers2_v4_wf, ps::Message, 40, 12, 14, ps::Message::SharePeers(vec![ps::v4(), ps::v4()]), ps::eq);
rt!(c22_x_ps_sharepeers2_v4_rt, ps::Message, 40, 12, 14, ps::Message::SharePeers(vec![ps::v4(), ps::v4()]), ps::eq);
wf!(c22_t_ps_done_wf, ps::Message, 40, 12, 14, ps::Message::Done, ps::eq);
rt!(c22_q_ps_done_rt, ps::Message, 40, 12, 14, ps::Message::Done, ps::eq);
wf!(c22_q_ps_addr_v4_wf, ps::PeerAddress, 40, 12, 14, ps::v4(), ps::eq_addr);
rt!(c22_t_ps_addr_v4_rt, ps::PeerAddress, 40, 12, 14, ps::v4(), ps::eq_addr);
// bound: peersharing IPv6 peer address, every address and port, alone and as the single element of SharePeers; 40-byte buffer, walker <= 12 heads; unwind 14
// finding: c22_q_ps_addr_v6_wf / c22_q_ps_sharepeers1_v6_wf are expected FAILED on the current tree (array(8) head followed by 6 items)
wf!(c22_q_ps_addr_v6_wf, ps::PeerAddress, 40, 12, 14, ps::v6(), ps::eq_addr);
rt!(c22_t_ps_addr_v6_rt, ps::PeerAddress, 40, 12, 14, ps::v6(), ps::eq_addr);
wf!(c22_q_ps_sharepeers1_v6_wf, ps::Message, 40, 12, 14, ps::Message::SharePeers(vec![ps::v6()]), ps::eq);
rt!(c22_x_ps_sharepeers1_v6_rt, ps::Message, 40, 12, 14, ps::Message::SharePeers(vec![ps::v6()]), ps::eq);

// bound: head-class sweep (classes 0..3 = 1, 2, 3, 5-byte integer encodings; class 4 is the default of every harness above): keepalive cookie, Point slot; unwind 10
wf!(c22_t_ka_keepalive_k0_wf, ka::Message, 8, 4, 10, ka::Message::KeepAlive(any_u16()), ka::eq, 0);
rt!(c22_t_ka_keepalive_k0_rt, ka::Message, 8, 4, 10, ka::Message::KeepAlive(any_u16()), ka::eq, 0);
wf!(c22_t_ka_keepalive_k1_wf, ka::Message, 8, 4, 10, ka::Message::KeepAlive(any_u16()), ka::eq, 1);
rt!(c22_t_ka_keepalive_k1_rt, ka::Message, 8, 4, 10, ka::Message::KeepAlive(any_u16()), ka::eq, 1);
wf!(c22_t_point_specific3_k0_wf, Point, 16, 4, 10, point_k(1, 3), eq_point, 0);
rt!(c22_t_point_specific3_k0_rt, Point, 16, 4, 10, point_k(1, 3), eq_point, 0);
wf!(c22_t_point_specific3_k1_wf, Point, 16, 4, 10, point_k(1, 3), eq_point, 1);
rt!(c22_t_point_specific3_k1_rt, Point, 16, 4, 10, point_k(1, 3), eq_point, 1);
wf!(c22_t_point_specific3_k2_wf, Point, 16, 4, 10, point_k(1, 3), eq_point, 2);
rt!(c22_t_point_specific3_k2_rt, Point, 16, 4, 10, point_k(1, 3), eq_point, 2);
wf!(c22_t_point_specific3_k3_wf, Point, 16, 4, 10, point_k(1, 3), eq_point, 3);
rt!(c22_t_point_specific3_k3_rt, Point, 16, 4, 10, point_k(1, 3), eq_point, 3);

// bound: head-class sweep (classes 0..3) for one variant per scalar shape: blockfetch RequestRange, chainsync RollForward(byron) / RollBackward, txsubmission RequestTxIds / ReplyTxIds(1), peersharing ShareRequest / SharePeers(1 IPv4); buffers and walker bounds as in the class-4 harness of the same variant
wf!(c22_t_bf_range_ss_k0_wf, bf::Message, 32, 10, 12, bf::Message::RequestRange((point_k(1, 1), point_k(1, 1))), bf::eq, 0);
rt!(c22_t_bf_range_ss_k0_rt, bf::Message, 32, 10, 12, bf::Message::RequestRange((point_k(1, 1), point_k(1, 1))), bf::eq, 0);
wf!(c22_t_bf_range_ss_k1_wf, bf::Message, 32, 10, 12, bf::Message::RequestRange((point_k(1, 1), point_k(1, 1))), bf::eq, 1);
rt!(c22_t_bf_range_ss_k1_rt, bf::Message, 32, 10, 12, bf::Message::RequestRange((point_k(1, 1), point_k(1, 1))), bf::eq, 1);
wf!(c22_t_bf_range_ss_k2_wf, bf::Message, 32, 10, 12, bf::Message::RequestRange((point_k(1, 1), point_k(1, 1))), bf::eq, 2);
rt!(c22_x_bf_range_ss_k2_rt, bf::Message, 32, 10, 12, bf::Message::RequestRange((point_k(1, 1), point_k(1, 1))), bf::eq, 2);
wf!(c22_t_bf_range_ss_k3_wf, bf::Message, 32, 10, 12, bf::Message::RequestRange((point_k(1, 1), point_k(1, 1))), bf::eq, 3);
rt!(c22_x_bf_range_ss_k3_rt, bf::Message, 32, 10, 12, bf::Message::RequestRange((point_k(1, 1), point_k(1, 1))), bf::eq, 3);
wf!(c22_t_cs_rollforward_byron_k0_wf, cs::Message, 48, 16, 18, cs::Message::RollForward(cs::content(true, 1), cs::tip_k(1, 0)), cs::eq, 0);
rt!(c22_x_cs_rollforward_byron_k0_rt, cs::Message, 48, 16, 18, cs::Message::RollForward(cs::content(true, 1), cs::tip_k(1, 0)), cs::eq, 0);
wf!(c22_t_cs_rollforward_byron_k1_wf, cs::Message, 48, 16, 18, cs::Message::RollForward(cs::content(true, 1), cs::tip_k(1, 0)), cs::eq, 1);
rt!(c22_x_cs_rollforward_byron_k1_rt, cs::Message, 48, 16, 18, cs::Message::RollForward(cs::content(true, 1), cs::tip_k(1, 0)), cs::eq, 1);
wf!(c22_t_cs_rollforward_byron_k2_wf, cs::Message, 48, 16, 18, cs::Message::RollForward(cs::content(true, 1), cs::tip_k(1, 0)), cs::eq, 2);
rt!(c22_x_cs_rollforward_byron_k2_rt, cs::Message, 48, 16, 18, cs::Message::RollForward(cs::content(true, 1), cs::tip_k(1, 0)), cs::eq, 2);
wf!(c22_t_cs_rollforward_byron_k3_wf, cs::Message, 48, 16, 18, cs::Message::RollForward(cs::content(true, 1), cs::tip_k(1, 0)), cs::eq, 3);
rt!(c22_x_cs_rollforward_byron_k3_rt, cs::Message, 48, 16, 18, cs::Message::RollForward(cs::content(true, 1), cs::tip_k(1, 0)), cs::eq, 3);
wf!(c22_t_cs_rollbackward_k0_wf, cs::Message, 48, 16, 18, cs::Message::RollBackward(point_k(1, 1), cs::tip_k(1, 1)), cs::eq, 0);
rt!(c22_x_cs_rollbackward_k0_rt, cs::Message, 48, 16, 18, cs::Message::RollBackward(point_k(1, 1), cs::tip_k(1, 1)), cs::eq, 0);
wf!(c22_t_cs_rollbackward_k1_wf, cs::Message, 48, 16, 18, cs::Message::RollBackward(point_k(1, 1), cs::tip_k(1, 1)), cs::eq, 1);
rt!(c22_x_cs_rollbackward_k1_rt, cs::Message, 48, 16, 18, cs::Message::RollBackward(point_k(1, 1), cs::tip_k(1, 1)), cs::eq, 1);
wf!(c22_t_cs_rollbackward_k2_wf, cs::Message, 48, 16, 18, cs::Message::RollBackward(point_k(1, 1), cs::tip_k(1, 1)), cs::eq, 2);
rt!(c22_x_cs_rollbackward_k2_rt, cs::Message, 48, 16, 18, cs::Message::RollBackward(point_k(1, 1), cs::tip_k(1, 1)), cs::eq, 2);
wf!(c22_t_cs_rollbackward_k3_wf, cs::Message, 48, 16, 18, cs::Message::RollBackward(point_k(1, 1), cs::tip_k(1, 1)), cs::eq, 3);
rt!(c22_x_cs_rollbackward_k3_rt, cs::Message, 48, 16, 18, cs::Message::RollBackward(point_k(1, 1), cs::tip_k(1, 1)), cs::eq, 3);
wf!(c22_t_tx_requesttxids_k0_wf, tx::Message, 40, 16, 18, tx::Message::RequestTxIds(kani::any(), any_u16(), any_u16()), tx::eq, 0);
rt!(c22_x_tx_requesttxids_k0_rt, tx::Message, 40, 16, 18, tx::Message::RequestTxIds(kani::any(), any_u16(), any_u16()), tx::eq, 0);
wf!(c22_t_tx_requesttxids_k1_wf, tx::Message, 40, 16, 18, tx::Message::RequestTxIds(kani::any(), any_u16(), any_u16()), tx::eq, 1);
rt!(c22_x_tx_requesttxids_k1_rt, tx::Message, 40, 16, 18, tx::Message::RequestTxIds(kani::any(), any_u16(), any_u16()), tx::eq, 1);
wf!(c22_t_tx_requesttxids_k2_wf, tx::Message, 40, 16, 18, tx::Message::RequestTxIds(kani::any(), any_u16(), any_u16()), tx::eq, 2);
rt!(c22_x_tx_requesttxids_k2_rt, tx::Message, 40, 16, 18, tx::Message::RequestTxIds(kani::any(), any_u16(), any_u16()), tx::eq, 2);
wf!(c22_t_tx_requesttxids_k3_wf, tx::Message, 40, 16, 18, tx::Message::RequestTxIds(kani::any(), any_u16(), any_u16()), tx::eq, 3);
rt!(c22_x_tx_requesttxids_k3_rt, tx::Message, 40, 16, 18, tx::Message::RequestTxIds(kani::any(), any_u16(), any_u16()), tx::eq, 3);
wf!(c22_t_tx_replytxids1_k0_wf, tx::Message, 40, 16, 18, tx::Message::ReplyTxIds(tx::idsizes(1)), tx::eq, 0);
rt!(c22_x_tx_replytxids1_k0_rt, tx::Message, 40, 16, 18, tx::Message::ReplyTxIds(tx::idsizes(1)), tx::eq, 0);
wf!(c22_t_tx_replytxids1_k1_wf, tx::Message, 40, 16, 18, tx::Message::ReplyTxIds(tx::idsizes(1)), tx::eq, 1);
rt!(c22_x_tx_replytxids1_k1_rt, tx::Message, 40, 16, 18, tx::Message::ReplyTxIds(tx::idsizes(1)), tx::eq, 1);
wf!(c22_t_tx_replytxids1_k2_wf, tx::Message, 40, 16, 18, tx::Message::ReplyTxIds(tx::idsizes(1)), tx::eq, 2);
rt!(c22_x_tx_replytxids1_k2_rt, tx::Message, 40, 16, 18, tx::Message::ReplyTxIds(tx::idsizes(1)), tx::eq, 2);
wf!(c22_t_tx_replytxids1_k3_wf, tx::Message, 40, 16, 18, tx::Message::ReplyTxIds(tx::idsizes(1)), tx::eq, 3);
rt!(c22_x_tx_replytxids1_k3_rt, tx::Message, 40, 16, 18, tx::Message::ReplyTxIds(tx::idsizes(1)), tx::eq, 3);
wf!(c22_t_ps_sharerequest_k0_wf, ps::Message, 40, 12, 14, ps::Message::ShareRequest(any_u8()), ps::eq, 0);
rt!(c22_t_ps_sharerequest_k0_rt, ps::Message, 40, 12, 14, ps::Message::ShareRequest(any_u8()), ps::eq, 0);
wf!(c22_t_ps_sharerequest_k1_wf, ps::Message, 40, 12, 14, ps::Message::ShareRequest(any_u8()), ps::eq, 1);
rt!(c22_t_ps_sharerequest_k1_rt, ps::Message, 40, 12, 14, ps::Message::ShareRequest(any_u8()), ps::eq, 1);
wf!(c22_t_ps_sharerequest_k2_wf, ps::Message, 40, 12, 14, ps::Message::ShareRequest(any_u8()), ps::eq, 2);
rt!(c22_t_ps_sharerequest_k2_rt, ps::Message, 40, 12, 14, ps::Message::ShareRequest(any_u8()), ps::eq, 2);
wf!(c22_t_ps_sharerequest_k3_wf, ps::Message, 40, 12, 14, ps::Message::ShareRequest(any_u8()), ps::eq, 3);
rt!(c22_t_ps_sharerequest_k3_rt, ps::Message, 40, 12, 14, ps::Message::ShareRequest(any_u8()), ps::eq, 3);
wf!(c22_t_ps_sharepeers1_v4_k0_wf, ps::Message, 40, 12, 14, ps::Message::SharePeers(vec![ps::v4()]), ps::eq, 0);
rt!(c22_x_ps_sharepeers1_v4_k0_rt, ps::Message, 40, 12, 14, ps::Message::SharePeers(vec![ps::v4()]), ps::eq, 0);
wf!(c22_t_ps_sharepeers1_v4_k1_wf, ps::Message, 40, 12, 14, ps::Message::SharePeers(vec![ps::v4()]), ps::eq, 1);
rt!(c22_x_ps_sharepeers1_v4_k1_rt, ps::Message, 40, 12, 14, ps::Message::SharePeers(vec![ps::v4()]), ps::eq, 1);
wf!(c22_t_ps_sharepeers1_v4_k2_wf, ps::Message, 40, 12, 14, ps::Message::SharePeers(vec![ps::v4()]), ps::eq, 2);
rt!(c22_x_ps_sharepeers1_v4_k2_rt, ps::Message, 40, 12, 14, ps::Message::SharePeers(vec![ps::v4()]), ps::eq, 2);
wf!(c22_t_ps_sharepeers1_v4_k3_wf, ps::Message, 40, 12, 14, ps::Message::SharePeers(vec![ps::v4()]), ps::eq, 3);
rt!(c22_x_ps_sharepeers1_v4_k3_rt, ps::Message, 40, 12, 14, ps::Message::SharePeers(vec![ps::v4()]), ps::eq, 3);

/// vacuity twin: must come back FAILED
#[kani::proof]
#[kani::unwind(10)]
fn c22_v_twin() {
    let msg = ka::Message::KeepAlive(any_u16());
    let mut buf = [0u8; 8];
    let (_ok, len) = encode_into(&msg, &mut buf[..]);
    let w = walk(&buf, len, 4);
    assert!(w != Some(len), "twin: must fail");
}
