//! C21 (P2P stack): reassembly lemma for `try_decode_msg`, the incremental decode step behind
//! `AnyMessage::from_payload`, on a hand-laid stream of two keep-alive messages cut at every position.
//! fn: pallas_network2::behavior::try_decode_msg::<keepalive::Message> (through behavior::verif_hooks)
//! stub: std::fmt::format -> empty String; std::panic::catch_unwind -> Ok(f()) (tracing::error! is reachable)
//! outside: the per-protocol dispatch of AnyMessage::from_payload and the bearer read loop; streams of more than two messages / more than one cut reduce to this lemma by induction on the number of segments (every strict prefix => incomplete and nothing consumed => retry after append), which is not machine-checked
//! outside: message types other than keepalive (their decoders are the subject of C22/C09); payload-carrying messages
use pallas_network2::protocol::keepalive::Message;
use pallas_network2::behavior::verif_hooks::try_decode_msg;
use std::panic::catch_unwind as cu;

/// KeepAlive(c1) || ResponseKeepAlive(c2), cookies in the 3-byte head class: 82 00 19 hi lo  82 01 19 hi lo
fn stream(c1: u16, c2: u16) -> [u8; 10] {
    [0x82, 0x00, 0x19, (c1 >> 8) as u8, c1 as u8, 0x82, 0x01, 0x19, (c2 >> 8) as u8, c2 as u8]
}

/// network2's step cannot signal an error (a decode error and an incomplete message both give None)
fn step(buf: &mut Vec<u8>) -> (bool, Option<Message>) {
    (false, try_decode_msg::<Message>(buf))
}

fn is_ka(m: &Option<Message>, c: u16) -> bool {
    matches!(m, Some(Message::KeepAlive(x)) if *x == c)
}
fn is_resp(m: &Option<Message>, c: u16) -> bool {
    matches!(m, Some(Message::ResponseKeepAlive(x)) if *x == c)
}

/// the stream is delivered in two segments bytes[..C] and bytes[C..]
fn body<const C: usize>() {
    let c1: u16 = kani::any();
    let c2: u16 = kani::any();
    let bytes = stream(c1, c2);
    let mut buf: Vec<u8> = Vec::with_capacity(16);
    buf.extend_from_slice(&bytes[..C]);
    let mut got = 0;
    // first segment: exactly the messages wholly inside it come out, the rest stays
    let (e, m) = step(&mut buf);
    assert!(!e, "prefix: no error is signalled");
    if C >= 5 {
        assert!(is_ka(&m, c1), "prefix: first message is returned unchanged");
        assert!(buf.len() == C - 5, "prefix: exactly the first message's bytes are consumed");
        got = 1;
        let (e, m) = step(&mut buf);
        assert!(!e, "prefix: no error is signalled");
        if C == 10 {
            assert!(is_resp(&m, c2), "prefix: second message is returned unchanged");
            assert!(buf.is_empty(), "prefix: buffer empty after both messages");
            got = 2;
        } else {
            assert!(m.is_none(), "prefix: an incomplete message is not returned");
            assert!(buf.len() == C - 5, "prefix: nothing of an incomplete message is consumed");
        }
        core::mem::forget(m);
    } else {
        assert!(m.is_none(), "prefix: an incomplete message is not returned");
        assert!(buf.len() == C, "prefix: nothing of an incomplete message is consumed");
    }
    core::mem::forget(m);
    // second segment appended: the remaining messages come out, in order, and nothing is left over
    buf.extend_from_slice(&bytes[C..]);
    if got == 0 {
        let (e, m) = step(&mut buf);
        assert!(!e && is_ka(&m, c1), "after append: first message is returned unchanged");
        core::mem::forget(m);
        got = 1;
    }
    if got == 1 {
        let (e, m) = step(&mut buf);
        assert!(!e && is_resp(&m, c2), "after append: second message is returned unchanged");
        core::mem::forget(m);
    }
    assert!(buf.is_empty(), "after append: no left-over bytes");
    let (e, m) = step(&mut buf);
    assert!(!e && m.is_none(), "empty buffer: nothing more, no error");
    kani::cover!(c1 != c2, "distinct cookies");
    core::mem::forget(m);
    core::mem::forget(buf);
}

macro_rules! cut {
    ($name:ident, $c:expr) => {
        #[kani::proof]
        #[kani::unwind(12)]
        #[kani::stub(std::fmt::format, crate::stubs::fmt_format_stub)]
        #[kani::stub(cu, crate::stubs::catch_unwind_stub)]
        fn $name() {
            body::<$c>();
        }
    };
}
// bound: two keep-alive messages with symbolic 16-bit cookies (3-byte head class), stream of 10 bytes cut at the concrete position C (one harness per C in 0..=10, i.e. every split into two segments); unwind 12
cut!(c21_q_n2_cut00, 0);
cut!(c21_q_n2_cut01, 1);
cut!(c21_q_n2_cut02, 2);
cut!(c21_q_n2_cut03, 3);
cut!(c21_q_n2_cut04, 4);
cut!(c21_q_n2_cut05, 5);
cut!(c21_q_n2_cut06, 6);
cut!(c21_q_n2_cut07, 7);
cut!(c21_q_n2_cut08, 8);
cut!(c21_q_n2_cut09, 9);
cut!(c21_q_n2_cut10, 10);

/// vacuity twin: must come back FAILED
#[kani::proof]
#[kani::unwind(12)]
#[kani::stub(std::fmt::format, crate::stubs::fmt_format_stub)]
#[kani::stub(cu, crate::stubs::catch_unwind_stub)]
fn c21_v_n2_twin() {
    let bytes = stream(kani::any(), kani::any());
    let mut buf: Vec<u8> = Vec::with_capacity(16);
    buf.extend_from_slice(&bytes[..4]);
    let (e, m) = step(&mut buf);
    assert!(m.is_some(), "twin: must fail");
    core::mem::forget(m);
    core::mem::forget(buf);
}
