//! C09 (network part, network2): decoding arbitrary bytes as a mini-protocol message never panics.
//! fn: minicbor::decode::<T> for T in keepalive / blockfetch / chainsync<HeaderContent> / txsubmission / peersharing / leiosnotify / leiosfetch ::Message, Point, chainsync::Tip, peersharing::PeerAddress
//! stub: std::fmt::format -> empty String
//! outside: buffers longer than 3 bytes (quick) / 5 bytes (thorough); handshake messages (decoding a version table runs HashMap::new(), not executable under CBMC)
use pallas_network2::protocol as proto;

macro_rules! total {
    ($name:ident, $t:ty, $n:expr, $unw:expr) => {
        #[kani::proof]
        #[kani::unwind($unw)]
        #[kani::stub(std::fmt::format, crate::stubs::fmt_format_stub)]
        fn $name() {
            let b: [u8; $n] = kani::any();
            let len: usize = kani::any();
            kani::assume(len <= $n);
            let r: Result<$t, _> = pallas_codec::minicbor::decode(&b[..len]);
            kani::cover!(r.is_ok(), "some input decodes");
            kani::cover!(r.is_err(), "some input is rejected");
            core::mem::forget(r);
        }
    };
}

type CsMsg = proto::chainsync::Message<proto::chainsync::HeaderContent>;

// bound: arbitrary buffer of symbolic length 0..=3; Kani's panic / bounds / overflow checks; unwind 8
total!(c09_q_n2_keepalive, proto::keepalive::Message, 3, 8);
total!(c09_x_n2_blockfetch_b3, proto::blockfetch::Message, 3, 8);
total!(c09_x_n2_chainsync_b3, CsMsg, 3, 8);
total!(c09_x_n2_txsubmission_b3, proto::txsubmission::Message, 3, 8);
total!(c09_x_n2_peersharing_b3, proto::peersharing::Message, 3, 8);
total!(c09_x_n2_leiosnotify_b3, proto::leiosnotify::Message, 3, 8);
total!(c09_x_n2_leiosfetch_b3, proto::leiosfetch::Message, 3, 8);
total!(c09_q_n2_point, proto::Point, 3, 8);
total!(c09_q_n2_tip, proto::chainsync::Tip, 3, 8);
total!(c09_x_n2_peeraddress_b3, proto::peersharing::PeerAddress, 3, 8);
// bound: arbitrary buffer of symbolic length 0..=5; unwind 10
total!(c09_t_n2_keepalive, proto::keepalive::Message, 5, 10);
total!(c09_x_n2_blockfetch_b5, proto::blockfetch::Message, 5, 10);
total!(c09_x_n2_chainsync_b5, CsMsg, 5, 10);
total!(c09_x_n2_txsubmission_b5, proto::txsubmission::Message, 5, 10);
total!(c09_x_n2_peersharing_b5, proto::peersharing::Message, 5, 10);
total!(c09_x_n2_leiosnotify_b5, proto::leiosnotify::Message, 5, 10);
total!(c09_x_n2_leiosfetch_b5, proto::leiosfetch::Message, 5, 10);
total!(c09_t_n2_point, proto::Point, 5, 10);
total!(c09_t_n2_tip, proto::chainsync::Tip, 5, 10);
total!(c09_x_n2_peeraddress_b5, proto::peersharing::PeerAddress, 5, 10);

/// vacuity twin: must come back FAILED
#[kani::proof]
#[kani::unwind(8)]
#[kani::stub(std::fmt::format, crate::stubs::fmt_format_stub)]
fn c09_v_n2_twin() {
    let b: [u8; 3] = kani::any();
    let r: Result<proto::keepalive::Message, _> = pallas_codec::minicbor::decode(&b[..]);
    assert!(r.is_err(), "twin: must fail");
    core::mem::forget(r);
}
