//! C24: network2 mini-protocol state machines (`State::apply`) vs the specification tables of DESIGN.md Appendix A.
//! fn: pallas_network2::protocol::keepalive::State::apply
//! fn: pallas_network2::protocol::chainsync::State::<HeaderContent>::apply
//! fn: pallas_network2::protocol::blockfetch::State::apply
//! fn: pallas_network2::protocol::peersharing::State::apply
//! fn: pallas_network2::protocol::txsubmission::State::apply
//! fn: pallas_network2::protocol::leiosnotify::State::apply
//! fn: pallas_network2::protocol::leiosfetch::State::apply
//! fn: pallas_network2::protocol::handshake::State::<n2n::VersionData>::apply (Accept/Refuse messages only)
//! outside: sequences are covered by one step from an arbitrary state because `apply(&self, &msg)` is a pure function of (state, message); that composition argument is not machine-checked
//! outside: Vec payloads longer than 1 element / byte strings longer than 1 byte inside states and messages (apply only clones them)
//! outside: handshake Propose/QueryReply messages and the Confirm state holding a non-empty version table (HashMap is not executable under CBMC); keepalive cookie equality between request and response is not part of the transition table
//! outside: leios-notify / leios-fetch tables are transcribed from the module documentation of pallas-network2/src/protocol/leios*.rs (cardano-blueprint submodule is empty in this tree): weaker oracle
//! assume: spec tables = DESIGN.md Appendix A (trusted, hand-transcribed from the Ouroboros network specification)
use pallas_network2::protocol::{self as proto, Point};

// ---------------------------------------------------------------------------------------------
// symbolic builders (vectors: empty or one symbolic element) and field-wise comparisons
// ---------------------------------------------------------------------------------------------
fn any_bytes1() -> Vec<u8> {
    if kani::any() {
        Vec::new()
    } else {
        let b: u8 = kani::any();
        vec![b]
    }
}

fn eq_bytes1(a: &[u8], b: &[u8]) -> bool {
    // lengths are <= 1 by construction
    a.len() == b.len() && (a.len() == 0 || (a.len() == 1 && a[0] == b[0]))
}

fn any_point() -> Point {
    if kani::any() {
        Point::Origin
    } else {
        Point::Specific(kani::any(), any_bytes1())
    }
}

fn eq_point(a: &Point, b: &Point) -> bool {
    match (a, b) {
        (Point::Origin, Point::Origin) => true,
        (Point::Specific(s, h), Point::Specific(s2, h2)) => *s == *s2 && eq_bytes1(h, h2),
        _ => false,
    }
}

fn any_points1() -> Vec<Point> {
    if kani::any() {
        Vec::new()
    } else {
        vec![any_point()]
    }
}

fn eq_points1(a: &[Point], b: &[Point]) -> bool {
    a.len() == b.len() && (a.len() == 0 || (a.len() == 1 && eq_point(&a[0], &b[0])))
}

// ---------------------------------------------------------------------------------------------
// keepalive
// ---------------------------------------------------------------------------------------------
mod ka {
    use super::*;
    use proto::keepalive::{ClientState, Message, State};

    #[derive(Clone, Copy, PartialEq, Eq)]
    pub enum Cls {
        Client,
        Server,
        Done,
    }

    pub fn cls(s: &State) -> Cls {
        match s {
            State::Client(_) => Cls::Client,
            State::Server(_) => Cls::Server,
            State::Done => Cls::Done,
        }
    }

    pub fn any_state() -> State {
        let k: u8 = kani::any();
        kani::assume(k < 4);
        match k {
            0 => State::Client(ClientState::Empty),
            1 => State::Client(ClientState::Response(kani::any())),
            2 => State::Server(kani::any()),
            _ => State::Done,
        }
    }

    pub fn any_msg() -> Message {
        let k: u8 = kani::any();
        kani::assume(k < 3);
        match k {
            0 => Message::KeepAlive(kani::any()),
            1 => Message::ResponseKeepAlive(kani::any()),
            _ => Message::Done,
        }
    }

    /// Appendix A, keepalive rows.
    pub fn spec(s: Cls, m: &Message) -> Option<Cls> {
        match (s, m) {
            (Cls::Client, Message::KeepAlive(_)) => Some(Cls::Server),
            (Cls::Client, Message::Done) => Some(Cls::Done),
            (Cls::Server, Message::ResponseKeepAlive(_)) => Some(Cls::Client),
            _ => None,
        }
    }

    pub fn check(st: &State, msg: &Message) {
        let want = spec(cls(st), msg);
        let r = st.apply(msg);
        assert!(r.is_ok() == want.is_some(), "accepted exactly when the specification allows the message in this state");
        if let Ok(n) = &r {
            assert!(Some(cls(n)) == want, "next state class is the prescribed one");
            match (msg, n) {
                (Message::KeepAlive(c), State::Server(c2)) => assert!(*c == *c2, "Server state carries the request cookie"),
                (Message::ResponseKeepAlive(c), State::Client(ClientState::Response(c2))) => {
                    assert!(*c == *c2, "Client state carries the response cookie")
                }
                (Message::Done, State::Done) => {}
                _ => assert!(false, "carried payload has the prescribed shape"),
            }
        }
        kani::cover!(r.is_ok() && matches!(msg, Message::KeepAlive(_)), "KeepAlive accepted");
        kani::cover!(r.is_ok() && matches!(msg, Message::ResponseKeepAlive(_)), "Response accepted");
        kani::cover!(r.is_err() && matches!(st, State::Done), "Done accepts nothing");
        kani::cover!(r.is_err() && matches!(st, State::Server(_)), "wrong message refused in Server");
        core::mem::forget(r);
    }
}

/// keepalive: whole (state, message) table except the one pair reported by c24_q_keepalive_client_done
/// bound: state in {Client(Empty), Client(Response(c)), Server(c), Done}, message in {KeepAlive(c), ResponseKeepAlive(c), Done}, cookies any u16; unwind 2 (no loops)
/// assume: (state class Client, message Done) excluded here -- decided by c24_q_keepalive_client_done (known finding)
#[kani::proof]
#[kani::unwind(2)]
fn c24_q_keepalive() {
    let st = ka::any_state();
    let msg = ka::any_msg();
    kani::assume(!(ka::cls(&st) == ka::Cls::Client && matches!(msg, proto::keepalive::Message::Done)));
    ka::check(&st, &msg);
}

/// keepalive finding: the specification lets the client terminate (`Done`) while it has agency
/// bound: state Client(Empty) or Client(Response(c)), c any u16; message Done; unwind 2
/// finding: expected FAILED on the current tree (apply returns Err(InvalidOutbound))
#[kani::proof]
#[kani::unwind(2)]
fn c24_q_keepalive_client_done() {
    let st = ka::any_state();
    kani::assume(ka::cls(&st) == ka::Cls::Client);
    let msg = proto::keepalive::Message::Done;
    let r = st.apply(&msg);
    kani::cover!(true, "Client state reached");
    assert!(r.is_ok(), "spec: Client --Done--> Done is accepted");
    if let Ok(n) = &r {
        assert!(ka::cls(n) == ka::Cls::Done, "spec: Client --Done--> Done ends in Done");
    }
    core::mem::forget(r);
}

// ---------------------------------------------------------------------------------------------
// peersharing
// ---------------------------------------------------------------------------------------------
mod ps {
    use super::*;
    use proto::peersharing::{IdleState, Message, PeerAddress, State};
    use std::net::{Ipv4Addr, Ipv6Addr};

    #[derive(Clone, Copy, PartialEq, Eq)]
    pub enum Cls {
        Idle,
        Busy,
        Done,
    }

    pub fn cls(s: &State) -> Cls {
        match s {
            State::Idle(_) => Cls::Idle,
            State::Busy(_) => Cls::Busy,
            State::Done => Cls::Done,
        }
    }

    pub fn any_addr() -> PeerAddress {
        if kani::any() {
            PeerAddress::V4(Ipv4Addr::from_bits(kani::any()), kani::any())
        } else {
            PeerAddress::V6(Ipv6Addr::from_bits(kani::any()), kani::any())
        }
    }

    pub fn eq_addr(a: &PeerAddress, b: &PeerAddress) -> bool {
        match (a, b) {
            (PeerAddress::V4(x, p), PeerAddress::V4(y, q)) => x.to_bits() == y.to_bits() && *p == *q,
            (PeerAddress::V6(x, p), PeerAddress::V6(y, q)) => x.to_bits() == y.to_bits() && *p == *q,
            _ => false,
        }
    }

    pub fn any_addrs1() -> Vec<PeerAddress> {
        if kani::any() {
            Vec::new()
        } else {
            vec![any_addr()]
        }
    }

    pub fn any_state() -> State {
        let k: u8 = kani::any();
        kani::assume(k < 4);
        match k {
            0 => State::Idle(IdleState::Empty),
            1 => State::Idle(IdleState::Response(any_addrs1())),
            2 => State::Busy(kani::any()),
            _ => State::Done,
        }
    }

    pub fn any_msg() -> Message {
        let k: u8 = kani::any();
        kani::assume(k < 3);
        match k {
            0 => Message::ShareRequest(kani::any()),
            1 => Message::SharePeers(any_addrs1()),
            _ => Message::Done,
        }
    }

    /// Appendix A, peersharing rows.
    pub fn spec(s: Cls, m: &Message) -> Option<Cls> {
        match (s, m) {
            (Cls::Idle, Message::ShareRequest(_)) => Some(Cls::Busy),
            (Cls::Idle, Message::Done) => Some(Cls::Done),
            (Cls::Busy, Message::SharePeers(_)) => Some(Cls::Idle),
            _ => None,
        }
    }

    pub fn check(st: &State, msg: &Message) {
        let want = spec(cls(st), msg);
        let r = st.apply(msg);
        assert!(r.is_ok() == want.is_some(), "accepted exactly when the specification allows the message in this state");
        if let Ok(n) = &r {
            assert!(Some(cls(n)) == want, "next state class is the prescribed one");
            match (msg, n) {
                (Message::ShareRequest(a), State::Busy(b)) => assert!(*a == *b, "Busy carries the requested amount"),
                (Message::SharePeers(v), State::Idle(IdleState::Response(w))) => {
                    assert!(v.len() == w.len(), "Idle carries as many peers as were received");
                    if v.len() == 1 {
                        assert!(eq_addr(&v[0], &w[0]), "Idle carries the received peer");
                    }
                }
                (Message::Done, State::Done) => {}
                _ => assert!(false, "carried payload has the prescribed shape"),
            }
        }
        kani::cover!(r.is_ok() && matches!(msg, Message::ShareRequest(_)), "ShareRequest accepted");
        kani::cover!(r.is_ok() && matches!(msg, Message::SharePeers(v) if v.len() == 1), "SharePeers with one peer accepted");
        kani::cover!(r.is_err() && matches!(st, State::Done), "Done accepts nothing");
        kani::cover!(r.is_err() && matches!(st, State::Busy(_)), "wrong message refused in Busy");
        core::mem::forget(r);
    }
}

/// peersharing: whole (state, message) table except the pair reported by c24_q_peersharing_idle_done
/// bound: state in {Idle(Empty), Idle(Response(0..1 peers)), Busy(n), Done}, message in {ShareRequest(n), SharePeers(0..1 peers, V4/V6 any address and port), Done}; unwind 3
/// assume: (state class Idle, message Done) excluded here -- decided by c24_q_peersharing_idle_done (finding)
#[kani::proof]
#[kani::unwind(3)]
fn c24_q_peersharing() {
    let st = ps::any_state();
    let msg = ps::any_msg();
    kani::assume(!(ps::cls(&st) == ps::Cls::Idle && matches!(msg, proto::peersharing::Message::Done)));
    ps::check(&st, &msg);
    core::mem::forget(st);
    core::mem::forget(msg);
}

/// peersharing finding: the specification lets the client terminate (`Done`) while idle
/// bound: state Idle(Empty) or Idle(Response(0..1 peers)); message Done; unwind 3
/// finding: expected FAILED on the current tree (apply returns Err(InvalidOutbound))
#[kani::proof]
#[kani::unwind(3)]
fn c24_q_peersharing_idle_done() {
    let st = ps::any_state();
    kani::assume(ps::cls(&st) == ps::Cls::Idle);
    let msg = proto::peersharing::Message::Done;
    let r = st.apply(&msg);
    kani::cover!(true, "Idle state reached");
    assert!(r.is_ok(), "spec: Idle --Done--> Done is accepted");
    if let Ok(n) = &r {
        assert!(ps::cls(n) == ps::Cls::Done, "spec: Idle --Done--> Done ends in Done");
    }
    core::mem::forget(r);
    core::mem::forget(st);
}

// ---------------------------------------------------------------------------------------------
// blockfetch
// ---------------------------------------------------------------------------------------------
mod bf {
    use super::*;
    use proto::blockfetch::{Message, State};

    #[derive(Clone, Copy, PartialEq, Eq)]
    pub enum Cls {
        Idle,
        Busy,
        Streaming,
        Done,
    }

    pub fn cls(s: &State) -> Cls {
        match s {
            State::Idle => Cls::Idle,
            State::Busy(_) => Cls::Busy,
            State::Streaming(_) => Cls::Streaming,
            State::Done => Cls::Done,
        }
    }

    pub fn any_state() -> State {
        let k: u8 = kani::any();
        kani::assume(k < 5);
        match k {
            0 => State::Idle,
            1 => State::Busy((any_point(), any_point())),
            2 => State::Streaming(None),
            3 => State::Streaming(Some(any_bytes1())),
            _ => State::Done,
        }
    }

    pub fn any_msg() -> Message {
        let k: u8 = kani::any();
        kani::assume(k < 6);
        match k {
            0 => Message::RequestRange((any_point(), any_point())),
            1 => Message::ClientDone,
            2 => Message::StartBatch,
            3 => Message::NoBlocks,
            4 => Message::Block(any_bytes1()),
            _ => Message::BatchDone,
        }
    }

    /// Appendix A, blockfetch rows.
    pub fn spec(s: Cls, m: &Message) -> Option<Cls> {
        match (s, m) {
            (Cls::Idle, Message::RequestRange(_)) => Some(Cls::Busy),
            (Cls::Idle, Message::ClientDone) => Some(Cls::Done),
            (Cls::Busy, Message::StartBatch) => Some(Cls::Streaming),
            (Cls::Busy, Message::NoBlocks) => Some(Cls::Idle),
            (Cls::Streaming, Message::Block(_)) => Some(Cls::Streaming),
            (Cls::Streaming, Message::BatchDone) => Some(Cls::Idle),
            _ => None,
        }
    }

    pub fn check(st: &State, msg: &Message) {
        let want = spec(cls(st), msg);
        let r = st.apply(msg);
        assert!(r.is_ok() == want.is_some(), "accepted exactly when the specification allows the message in this state");
        if let Ok(n) = &r {
            assert!(Some(cls(n)) == want, "next state class is the prescribed one");
            match (msg, n) {
                (Message::RequestRange((a, b)), State::Busy((a2, b2))) => {
                    assert!(eq_point(a, a2) && eq_point(b, b2), "Busy carries the requested range")
                }
                (Message::Block(b), State::Streaming(Some(b2))) => assert!(eq_bytes1(b, b2), "Streaming carries the received block"),
                (Message::StartBatch, State::Streaming(None)) => {}
                (Message::ClientDone, State::Done) => {}
                (Message::NoBlocks, State::Idle) | (Message::BatchDone, State::Idle) => {}
                _ => assert!(false, "carried payload has the prescribed shape"),
            }
        }
        kani::cover!(r.is_ok() && matches!(msg, Message::RequestRange((Point::Specific(_, h), _)) if h.len() == 1), "RequestRange with a hash accepted");
        kani::cover!(r.is_ok() && matches!(msg, Message::Block(b) if b.len() == 1), "Block accepted");
        kani::cover!(r.is_ok() && matches!(msg, Message::BatchDone), "BatchDone accepted");
        kani::cover!(r.is_ok() && matches!(msg, Message::ClientDone), "ClientDone accepted");
        kani::cover!(r.is_err() && matches!(st, State::Done), "Done accepts nothing");
        kani::cover!(r.is_err() && matches!(st, State::Busy(_)), "wrong message refused in Busy");
        core::mem::forget(r);
    }
}

/// blockfetch: whole (state, message) table
/// bound: state in {Idle, Busy(range), Streaming(None), Streaming(Some(0..1 byte)), Done}, all 6 message variants, points Origin or Specific(any u64, 0..1 byte hash), block body 0..1 byte; unwind 3
#[kani::proof]
#[kani::unwind(3)]
fn c24_q_blockfetch() {
    let st = bf::any_state();
    let msg = bf::any_msg();
    bf::check(&st, &msg);
    core::mem::forget(st);
    core::mem::forget(msg);
}

// ---------------------------------------------------------------------------------------------
// chainsync (content type = HeaderContent, the instantiation used by AnyMessage)
// ---------------------------------------------------------------------------------------------
mod cs {
    use super::*;
    use proto::chainsync::{Data, HeaderContent, Tip};
    pub type Message = proto::chainsync::Message<HeaderContent>;
    pub type State = proto::chainsync::State<HeaderContent>;

    #[derive(Clone, Copy, PartialEq, Eq)]
    pub enum Cls {
        Idle,
        CanAwait,
        MustReply,
        Intersect,
        Done,
    }

    pub fn cls(s: &State) -> Cls {
        match s {
            State::Idle(_) => Cls::Idle,
            State::CanAwait => Cls::CanAwait,
            State::MustReply => Cls::MustReply,
            State::Intersect(_) => Cls::Intersect,
            State::Done => Cls::Done,
        }
    }

    pub fn any_tip() -> Tip {
        Tip(any_point(), kani::any())
    }

    pub fn eq_tip(a: &Tip, b: &Tip) -> bool {
        eq_point(&a.0, &b.0) && a.1 == b.1
    }

    pub fn any_content() -> HeaderContent {
        let byron_prefix = if kani::any() { Some((kani::any(), kani::any())) } else { None };
        HeaderContent { variant: kani::any(), byron_prefix, cbor: any_bytes1() }
    }

    pub fn eq_content(a: &HeaderContent, b: &HeaderContent) -> bool {
        a.variant == b.variant && a.byron_prefix == b.byron_prefix && eq_bytes1(&a.cbor, &b.cbor)
    }

    /// state kinds lo..hi (0..=3 Idle(..), 4 CanAwait, 5 MustReply, 6 Intersect, 7 Done)
    pub fn any_state_in(lo: u8, hi: u8) -> State {
        let k: u8 = kani::any();
        kani::assume(lo <= k && k < hi);
        match k {
            0 => State::Idle(Data::New),
            1 => State::Idle(Data::Drained),
            2 => State::Idle(Data::NoIntersection(any_tip())),
            3 => State::Idle(Data::Content(any_content(), any_tip())),
            4 => State::CanAwait,
            5 => State::MustReply,
            6 => State::Intersect(any_points1()),
            _ => State::Done,
        }
    }

    pub fn any_msg() -> Message {
        let k: u8 = kani::any();
        kani::assume(k < 8);
        match k {
            0 => Message::RequestNext,
            1 => Message::AwaitReply,
            2 => Message::RollForward(any_content(), any_tip()),
            3 => Message::RollBackward(any_point(), any_tip()),
            4 => Message::FindIntersect(any_points1()),
            5 => Message::IntersectFound(any_point(), any_tip()),
            6 => Message::IntersectNotFound(any_tip()),
            _ => Message::Done,
        }
    }

    /// Appendix A, chainsync rows.
    pub fn spec(s: Cls, m: &Message) -> Option<Cls> {
        match (s, m) {
            (Cls::Idle, Message::RequestNext) => Some(Cls::CanAwait),
            (Cls::Idle, Message::FindIntersect(_)) => Some(Cls::Intersect),
            (Cls::Idle, Message::Done) => Some(Cls::Done),
            (Cls::CanAwait, Message::AwaitReply) => Some(Cls::MustReply),
            (Cls::CanAwait, Message::RollForward(..)) => Some(Cls::Idle),
            (Cls::CanAwait, Message::RollBackward(..)) => Some(Cls::Idle),
            (Cls::MustReply, Message::RollForward(..)) => Some(Cls::Idle),
            (Cls::MustReply, Message::RollBackward(..)) => Some(Cls::Idle),
            (Cls::Intersect, Message::IntersectFound(..)) => Some(Cls::Idle),
            (Cls::Intersect, Message::IntersectNotFound(_)) => Some(Cls::Idle),
            _ => None,
        }
    }

    pub fn check(st: &State, msg: &Message) {
        let r = check_nocover(st, msg);
        kani::cover!(r && matches!(msg, Message::RollForward(c, _) if c.cbor.len() == 1) && matches!(st, State::MustReply), "RollForward accepted in MustReply");
        kani::cover!(r && matches!(msg, Message::RollBackward(..)) && matches!(st, State::CanAwait), "RollBackward accepted in CanAwait");
        kani::cover!(r && matches!(msg, Message::FindIntersect(p) if p.len() == 1), "FindIntersect with one point accepted");
        kani::cover!(r && matches!(msg, Message::IntersectFound(..)), "IntersectFound accepted");
        kani::cover!(r && matches!(msg, Message::Done), "Done accepted");
        kani::cover!(!r && matches!(st, State::Done), "Done accepts nothing");
        kani::cover!(!r && matches!(st, State::MustReply) && matches!(msg, Message::AwaitReply), "AwaitReply refused in MustReply");
    }

    /// returns whether the message was accepted
    pub fn check_nocover(st: &State, msg: &Message) -> bool {
        let want = spec(cls(st), msg);
        let r = st.apply(msg);
        assert!(r.is_ok() == want.is_some(), "accepted exactly when the specification allows the message in this state");
        if let Ok(n) = &r {
            assert!(Some(cls(n)) == want, "next state class is the prescribed one");
            match (msg, n) {
                (Message::RequestNext, State::CanAwait) => {}
                (Message::AwaitReply, State::MustReply) => {}
                (Message::Done, State::Done) => {}
                (Message::FindIntersect(p), State::Intersect(q)) => assert!(eq_points1(p, q), "Intersect carries the requested points"),
                (Message::RollForward(c, t), State::Idle(Data::Content(c2, t2))) => {
                    assert!(eq_content(c, c2) && eq_tip(t, t2), "Idle carries the received content and tip")
                }
                (Message::RollBackward(p, t), State::Idle(Data::Rollback(p2, t2))) => {
                    assert!(eq_point(p, p2) && eq_tip(t, t2), "Idle carries the rollback point and tip")
                }
                (Message::IntersectFound(p, t), State::Idle(Data::Intersection(p2, t2))) => {
                    assert!(eq_point(p, p2) && eq_tip(t, t2), "Idle carries the intersection and tip")
                }
                (Message::IntersectNotFound(t), State::Idle(Data::NoIntersection(t2))) => assert!(eq_tip(t, t2), "Idle carries the tip"),
                _ => assert!(false, "carried payload has the prescribed shape"),
            }
        }
        let ok = r.is_ok();
        core::mem::forget(r);
        ok
    }
}

macro_rules! cs_class {
    ($name:ident, $lo:expr, $hi:expr) => {
        #[kani::proof]
        #[kani::unwind(3)]
        fn $name() {
            let st = cs::any_state_in($lo, $hi);
            let msg = cs::any_msg();
            cs::check_nocover(&st, &msg);
            kani::cover!(cs::spec(cs::cls(&st), &msg).is_none(), "a refused pair is reached");
            kani::cover!(matches!(&msg, cs::Message::RollForward(c, _) if c.cbor.len() == 1), "RollForward with content reached");
            kani::cover!(matches!(&msg, cs::Message::FindIntersect(p) if p.len() == 1), "FindIntersect with one point reached");
            core::mem::forget(st);
            core::mem::forget(msg);
        }
    };
}
// bound: chainsync, state class concrete per harness (Idle: New|Drained|NoIntersection(tip)|Content(c,tip) symbolic; Intersect: 0..1 points), all 8 message variants symbolic; points Origin or Specific(any u64, 0..1 byte hash); header content: any variant byte, any optional byron prefix, 0..1 cbor byte; FindIntersect 0..1 points; unwind 3
cs_class!(c24_q_chainsync_idle, 0, 4);
cs_class!(c24_q_chainsync_canawait, 4, 5);
cs_class!(c24_q_chainsync_mustreply, 5, 6);
cs_class!(c24_q_chainsync_intersect, 6, 7);
cs_class!(c24_q_chainsync_done, 7, 8);

/// chainsync: whole (state, message) table in one query (state class symbolic as well)
/// bound: as the c24_q_chainsync_* family with the state class symbolic; unwind 3
#[kani::proof]
#[kani::unwind(3)]
fn c24_t_chainsync() {
    let st = cs::any_state_in(0, 8);
    let msg = cs::any_msg();
    cs::check(&st, &msg);
    core::mem::forget(st);
    core::mem::forget(msg);
}

// ---------------------------------------------------------------------------------------------
// txsubmission
// ---------------------------------------------------------------------------------------------
mod tx {
    use super::*;
    use proto::txsubmission::{EraTxBody, EraTxId, Message, State, TxIdAndSize};

    #[derive(Clone, Copy, PartialEq, Eq)]
    pub enum Cls {
        Init,
        Idle,
        TxIdsNonBlocking,
        TxIdsBlocking,
        Txs,
        Done,
    }

    pub fn cls(s: &State) -> Cls {
        match s {
            State::Init => Cls::Init,
            State::Idle => Cls::Idle,
            State::TxIdsNonBlocking => Cls::TxIdsNonBlocking,
            State::TxIdsBlocking => Cls::TxIdsBlocking,
            State::Txs(_) => Cls::Txs,
            State::Done => Cls::Done,
        }
    }

    pub fn any_bodies1() -> Vec<EraTxBody> {
        if kani::any() {
            Vec::new()
        } else {
            vec![EraTxBody(kani::any(), any_bytes1())]
        }
    }

    pub fn any_ids1() -> Vec<EraTxId> {
        if kani::any() {
            Vec::new()
        } else {
            vec![EraTxId(kani::any(), any_bytes1())]
        }
    }

    pub fn any_idsizes1() -> Vec<TxIdAndSize<EraTxId>> {
        if kani::any() {
            Vec::new()
        } else {
            vec![TxIdAndSize(EraTxId(kani::any(), any_bytes1()), kani::any())]
        }
    }

    pub fn any_state() -> State {
        let k: u8 = kani::any();
        kani::assume(k < 6);
        match k {
            0 => State::Init,
            1 => State::Idle,
            2 => State::TxIdsNonBlocking,
            3 => State::TxIdsBlocking,
            4 => State::Txs(any_bodies1()),
            _ => State::Done,
        }
    }

    pub fn any_msg() -> Message {
        let k: u8 = kani::any();
        kani::assume(k < 6);
        match k {
            0 => Message::Init,
            1 => Message::RequestTxIds(kani::any(), kani::any(), kani::any()),
            2 => Message::ReplyTxIds(any_idsizes1()),
            3 => Message::RequestTxs(any_ids1()),
            4 => Message::ReplyTxs(any_bodies1()),
            _ => Message::Done,
        }
    }

    /// Appendix A, txsubmission2 rows.
    pub fn spec(s: Cls, m: &Message) -> Option<Cls> {
        match (s, m) {
            (Cls::Init, Message::Init) => Some(Cls::Idle),
            (Cls::Idle, Message::RequestTxIds(true, _, _)) => Some(Cls::TxIdsBlocking),
            (Cls::Idle, Message::RequestTxIds(false, _, _)) => Some(Cls::TxIdsNonBlocking),
            (Cls::Idle, Message::RequestTxs(_)) => Some(Cls::Txs),
            (Cls::TxIdsBlocking, Message::ReplyTxIds(_)) => Some(Cls::Idle),
            (Cls::TxIdsBlocking, Message::Done) => Some(Cls::Done),
            (Cls::TxIdsNonBlocking, Message::ReplyTxIds(_)) => Some(Cls::Idle),
            (Cls::Txs, Message::ReplyTxs(_)) => Some(Cls::Idle),
            _ => None,
        }
    }

    /// the five (state class, message) pairs on which the current tree is known to deviate; each has its own harness
    pub fn is_finding_case(s: Cls, m: &Message) -> bool {
        match (s, m) {
            (Cls::Idle, Message::RequestTxIds(false, _, _)) => true,
            (Cls::TxIdsNonBlocking, Message::ReplyTxIds(_)) => true,
            (Cls::TxIdsBlocking, Message::ReplyTxIds(_)) => true,
            (Cls::TxIdsBlocking, Message::Done) => true,
            (Cls::Txs, Message::ReplyTxs(_)) => true,
            _ => false,
        }
    }

    pub fn check(st: &State, msg: &Message) {
        let want = spec(cls(st), msg);
        let r = st.apply(msg);
        assert!(r.is_ok() == want.is_some(), "accepted exactly when the specification allows the message in this state");
        if let Ok(n) = &r {
            assert!(Some(cls(n)) == want, "next state class is the prescribed one");
        }
        kani::cover!(r.is_ok(), "some message accepted");
        kani::cover!(r.is_err(), "some message refused");
        core::mem::forget(r);
    }
}

/// txsubmission: whole (state, message) table except the five pairs that have their own harness
/// bound: all 6 state classes (Txs with 0..1 bodies), all 6 message variants (flag/ack/req any, vectors 0..1 elements, ids/bodies 0..1 byte, era any u16); unwind 3
/// assume: excluded here and decided by c24_q_txsub_*: (Idle, RequestTxIds(non-blocking)), (TxIdsNonBlocking, ReplyTxIds), (TxIdsBlocking, ReplyTxIds), (TxIdsBlocking, Done), (Txs, ReplyTxs)
#[kani::proof]
#[kani::unwind(3)]
fn c24_q_txsubmission() {
    let st = tx::any_state();
    let msg = tx::any_msg();
    kani::assume(!tx::is_finding_case(tx::cls(&st), &msg));
    tx::check(&st, &msg);
    use proto::txsubmission::Message;
    kani::cover!(matches!(&st, proto::txsubmission::State::Idle) && matches!(&msg, Message::RequestTxIds(true, _, _)), "blocking request in Idle reached");
    kani::cover!(matches!(&st, proto::txsubmission::State::Idle) && matches!(&msg, Message::RequestTxs(v) if v.len() == 1), "RequestTxs in Idle reached");
    kani::cover!(matches!(&st, proto::txsubmission::State::Init) && matches!(&msg, Message::Init), "Init in Init reached");
    kani::cover!(matches!(&st, proto::txsubmission::State::Txs(_)) && matches!(&msg, Message::ReplyTxIds(_)), "ReplyTxIds in Txs reached");
    core::mem::forget(st);
    core::mem::forget(msg);
}

macro_rules! txsub_case {
    ($name:ident, $st:expr, $msg:expr) => {
        #[kani::proof]
        #[kani::unwind(3)]
        fn $name() {
            let st: proto::txsubmission::State = $st;
            let msg: proto::txsubmission::Message = $msg;
            kani::cover!(tx::is_finding_case(tx::cls(&st), &msg), "this is one of the excluded pairs");
            tx::check(&st, &msg);
            core::mem::forget(st);
            core::mem::forget(msg);
        }
    };
}
// bound: one (state class, message variant) pair of the txsubmission table, scalars symbolic, vectors 0..1 elements; unwind 3. finding: expected FAILED on the current tree
txsub_case!(c24_q_txsub_idle_nonblocking, proto::txsubmission::State::Idle, proto::txsubmission::Message::RequestTxIds(false, kani::any(), kani::any()));
txsub_case!(c24_q_txsub_nonblocking_reply, proto::txsubmission::State::TxIdsNonBlocking, proto::txsubmission::Message::ReplyTxIds(tx::any_idsizes1()));
txsub_case!(c24_q_txsub_blocking_reply, proto::txsubmission::State::TxIdsBlocking, proto::txsubmission::Message::ReplyTxIds(tx::any_idsizes1()));
txsub_case!(c24_q_txsub_blocking_done, proto::txsubmission::State::TxIdsBlocking, proto::txsubmission::Message::Done);
txsub_case!(c24_q_txsub_txs_reply, proto::txsubmission::State::Txs(tx::any_bodies1()), proto::txsubmission::Message::ReplyTxs(tx::any_bodies1()));

// ---------------------------------------------------------------------------------------------
// leios-notify (oracle: module documentation)
// ---------------------------------------------------------------------------------------------
fn any_cbor1() -> proto::AnyCbor {
    proto::AnyCbor::from_raw_bytes(any_bytes1())
}

fn any_cbors1() -> Vec<proto::AnyCbor> {
    if kani::any() {
        Vec::new()
    } else {
        vec![any_cbor1()]
    }
}

fn eq_cbors1(a: &[proto::AnyCbor], b: &[proto::AnyCbor]) -> bool {
    a.len() == b.len() && (a.len() == 0 || (a.len() == 1 && eq_bytes1(a[0].raw_bytes(), b[0].raw_bytes())))
}

mod ln {
    use super::*;
    use proto::leiosnotify::{Message, Notification, State};

    #[derive(Clone, Copy, PartialEq, Eq)]
    pub enum Cls {
        Idle,
        Busy,
        Done,
    }

    pub fn cls(s: &State) -> Cls {
        match s {
            State::Idle(_) => Cls::Idle,
            State::Busy => Cls::Busy,
            State::Done => Cls::Done,
        }
    }

    pub fn any_state() -> State {
        let k: u8 = kani::any();
        kani::assume(k < 5);
        match k {
            0 => State::Idle(None),
            1 => State::Idle(Some(Notification::BlockOffer(any_point(), kani::any()))),
            2 => State::Idle(Some(Notification::Votes(any_cbors1()))),
            3 => State::Busy,
            _ => State::Done,
        }
    }

    pub fn any_msg() -> Message {
        let k: u8 = kani::any();
        kani::assume(k < 6);
        match k {
            0 => Message::RequestNext,
            1 => Message::BlockAnnouncement(any_cbor1()),
            2 => Message::BlockOffer(any_point(), kani::any()),
            3 => Message::BlockTxsOffer(any_point()),
            4 => Message::Votes(any_cbors1()),
            _ => Message::Done,
        }
    }

    /// module documentation of leiosnotify.rs: Idle (client) --RequestNext--> Busy, --Done--> Done; Busy (server) --any one announcement/offer--> Idle
    pub fn spec(s: Cls, m: &Message) -> Option<Cls> {
        match (s, m) {
            (Cls::Idle, Message::RequestNext) => Some(Cls::Busy),
            (Cls::Idle, Message::Done) => Some(Cls::Done),
            (Cls::Busy, Message::BlockAnnouncement(_)) => Some(Cls::Idle),
            (Cls::Busy, Message::BlockOffer(..)) => Some(Cls::Idle),
            (Cls::Busy, Message::BlockTxsOffer(_)) => Some(Cls::Idle),
            (Cls::Busy, Message::Votes(_)) => Some(Cls::Idle),
            _ => None,
        }
    }

    pub fn check(st: &State, msg: &Message) {
        let want = spec(cls(st), msg);
        let r = st.apply(msg);
        assert!(r.is_ok() == want.is_some(), "accepted exactly when the specification allows the message in this state");
        if let Ok(n) = &r {
            assert!(Some(cls(n)) == want, "next state class is the prescribed one");
            match (msg, n) {
                (Message::RequestNext, State::Busy) => {}
                (Message::Done, State::Done) => {}
                (Message::BlockAnnouncement(h), State::Idle(Some(Notification::BlockAnnouncement(h2)))) => {
                    assert!(eq_bytes1(h.raw_bytes(), h2.raw_bytes()), "Idle carries the announced header")
                }
                (Message::BlockOffer(p, s), State::Idle(Some(Notification::BlockOffer(p2, s2)))) => {
                    assert!(eq_point(p, p2) && *s == *s2, "Idle carries the offered EB and size")
                }
                (Message::BlockTxsOffer(p), State::Idle(Some(Notification::BlockTxsOffer(p2)))) => assert!(eq_point(p, p2), "Idle carries the offered EB"),
                (Message::Votes(v), State::Idle(Some(Notification::Votes(v2)))) => assert!(eq_cbors1(v, v2), "Idle carries the votes"),
                _ => assert!(false, "carried payload has the prescribed shape"),
            }
        }
        kani::cover!(r.is_ok() && matches!(msg, Message::BlockAnnouncement(h) if h.raw_bytes().len() == 1), "announcement accepted");
        kani::cover!(r.is_ok() && matches!(msg, Message::Votes(v) if v.len() == 1), "votes accepted");
        kani::cover!(r.is_ok() && matches!(msg, Message::BlockOffer(..)), "offer accepted");
        kani::cover!(r.is_ok() && matches!(msg, Message::Done), "Done accepted");
        kani::cover!(r.is_err() && matches!(st, State::Done), "Done accepts nothing");
        kani::cover!(r.is_err() && matches!(st, State::Busy), "wrong message refused in Busy");
        core::mem::forget(r);
    }
}

/// leios-notify: whole (state, message) table
/// bound: state in {Idle(None), Idle(Some(BlockOffer)), Idle(Some(Votes 0..1)), Busy, Done}, all 6 message variants, raw CBOR payloads 0..1 byte, votes 0..1 elements; unwind 3
#[kani::proof]
#[kani::unwind(3)]
fn c24_q_leiosnotify() {
    let st = ln::any_state();
    let msg = ln::any_msg();
    ln::check(&st, &msg);
    core::mem::forget(st);
    core::mem::forget(msg);
}

// ---------------------------------------------------------------------------------------------
// leios-fetch (oracle: module documentation)
// ---------------------------------------------------------------------------------------------
mod lf {
    use super::*;
    use proto::leiosfetch::{Bitmaps, Message, Response, State};
    use std::collections::BTreeMap;

    #[derive(Clone, Copy, PartialEq, Eq)]
    pub enum Cls {
        Idle,
        AwaitingBlock,
        AwaitingBlockTxs,
        Done,
    }

    pub fn cls(s: &State) -> Cls {
        match s {
            State::Idle(_) => Cls::Idle,
            State::AwaitingBlock(_) => Cls::AwaitingBlock,
            State::AwaitingBlockTxs(..) => Cls::AwaitingBlockTxs,
            State::Done => Cls::Done,
        }
    }

    /// BTreeMap: empty or exactly one entry (engineering rule)
    pub fn any_bitmaps(one: bool) -> Bitmaps {
        let mut m = BTreeMap::new();
        if one {
            let k: u16 = kani::any();
            let v: u64 = kani::any();
            m.insert(k, v);
        }
        Bitmaps(m)
    }

    pub fn eq_bitmaps(a: &Bitmaps, b: &Bitmaps) -> bool {
        if a.0.len() != b.0.len() {
            return false;
        }
        match (a.0.first_key_value(), b.0.first_key_value()) {
            (None, None) => true,
            (Some((k, v)), Some((k2, v2))) => *k == *k2 && *v == *v2,
            _ => false,
        }
    }

    /// state kinds lo..hi (0..=2 Idle(..), 3 AwaitingBlock, 4 AwaitingBlockTxs, 5 Done)
    pub fn any_state_in(lo: u8, hi: u8, one: bool) -> State {
        let k: u8 = kani::any();
        kani::assume(lo <= k && k < hi);
        match k {
            0 => State::Idle(None),
            1 => State::Idle(Some((any_point(), Response::Block(any_cbor1())))),
            2 => State::Idle(Some((any_point(), Response::BlockTxs { txs: any_cbors1() }))),
            3 => State::AwaitingBlock(any_point()),
            4 => State::AwaitingBlockTxs(any_point(), any_bitmaps(one)),
            _ => State::Done,
        }
    }

    pub fn any_msg(one: bool) -> Message {
        let k: u8 = kani::any();
        kani::assume(k < 5);
        match k {
            0 => Message::BlockRequest(any_point()),
            1 => Message::Block(any_cbor1()),
            2 => Message::BlockTxsRequest(any_point(), any_bitmaps(one)),
            3 => Message::BlockTxs { point: any_point(), bitmaps: any_bitmaps(one), txs: any_cbors1() },
            _ => Message::Done,
        }
    }

    /// module documentation of leiosfetch.rs: Idle (client) --BlockRequest--> AwaitingBlock, --BlockTxsRequest--> AwaitingBlockTxs, --Done--> Done;
    /// AwaitingBlock (server) --Block--> Idle; AwaitingBlockTxs (server) --BlockTxs--> Idle
    pub fn spec(s: Cls, m: &Message) -> Option<Cls> {
        match (s, m) {
            (Cls::Idle, Message::BlockRequest(_)) => Some(Cls::AwaitingBlock),
            (Cls::Idle, Message::BlockTxsRequest(..)) => Some(Cls::AwaitingBlockTxs),
            (Cls::Idle, Message::Done) => Some(Cls::Done),
            (Cls::AwaitingBlock, Message::Block(_)) => Some(Cls::Idle),
            (Cls::AwaitingBlockTxs, Message::BlockTxs { .. }) => Some(Cls::Idle),
            _ => None,
        }
    }

    /// returns whether the message was accepted
    pub fn check_nocover(st: &State, msg: &Message) -> bool {
        let want = spec(cls(st), msg);
        let r = st.apply(msg);
        assert!(r.is_ok() == want.is_some(), "accepted exactly when the specification allows the message in this state");
        if let Ok(n) = &r {
            assert!(Some(cls(n)) == want, "next state class is the prescribed one");
            match (st, msg, n) {
                (_, Message::Done, State::Done) => {}
                (_, Message::BlockRequest(p), State::AwaitingBlock(p2)) => assert!(eq_point(p, p2), "AwaitingBlock carries the requested EB"),
                (_, Message::BlockTxsRequest(p, b), State::AwaitingBlockTxs(p2, b2)) => {
                    assert!(eq_point(p, p2) && eq_bitmaps(b, b2), "AwaitingBlockTxs carries the requested EB and bitmaps")
                }
                (State::AwaitingBlock(eb), Message::Block(b), State::Idle(Some((eb2, Response::Block(b2))))) => {
                    assert!(eq_point(eb, eb2) && eq_bytes1(b.raw_bytes(), b2.raw_bytes()), "Idle carries the EB asked for and the delivered body")
                }
                (State::AwaitingBlockTxs(eb, _), Message::BlockTxs { txs, .. }, State::Idle(Some((eb2, Response::BlockTxs { txs: txs2 })))) => {
                    assert!(eq_point(eb, eb2) && eq_cbors1(txs, txs2), "Idle carries the EB asked for and the delivered txs")
                }
                _ => assert!(false, "carried payload has the prescribed shape"),
            }
        }
        let ok = r.is_ok();
        core::mem::forget(r);
        ok
    }
}

macro_rules! lf_class {
    ($name:ident, $lo:expr, $hi:expr) => {
        #[kani::proof]
        #[kani::unwind(3)]
        fn $name() {
            let st = lf::any_state_in($lo, $hi, false);
            let msg = lf::any_msg(false);
            let ok = lf::check_nocover(&st, &msg);
            kani::cover!(!ok, "a refused pair is reached");
            kani::cover!(matches!(&msg, proto::leiosfetch::Message::BlockTxs { txs, .. } if txs.len() == 1), "BlockTxs with one tx reached");
            kani::cover!(matches!(&msg, proto::leiosfetch::Message::Block(b) if b.raw_bytes().len() == 1), "Block with a body reached");
            core::mem::forget(st);
            core::mem::forget(msg);
        }
    };
}
// bound: leios-fetch, state class concrete per harness (Idle: None|Some(Block)|Some(BlockTxs 0..1) symbolic), all 5 message variants symbolic, raw CBOR payloads 0..1 byte, tx lists 0..1 elements, Bitmaps = empty BTreeMap; unwind 3
lf_class!(c24_q_leiosfetch_idle, 0, 3);
lf_class!(c24_q_leiosfetch_awaitingblock, 3, 4);
lf_class!(c24_q_leiosfetch_awaitingblocktxs, 4, 5);
lf_class!(c24_q_leiosfetch_done, 5, 6);

/// leios-fetch: the two transitions that clone a Bitmaps selector, with a one-entry BTreeMap
/// bound: (Idle(None), BlockTxsRequest(p, {k: v})) and (AwaitingBlockTxs(p, {k: v}), BlockTxs{point, {k': v'}, 0..1 txs}), k any u16, v any u64; unwind 4
#[kani::proof]
#[kani::unwind(4)]
fn c24_t_leiosfetch_bitmap1() {
    use proto::leiosfetch::{Message, State};
    let (st, msg) = if kani::any() {
        (State::Idle(None), Message::BlockTxsRequest(any_point(), lf::any_bitmaps(true)))
    } else {
        (State::AwaitingBlockTxs(any_point(), lf::any_bitmaps(true)), Message::BlockTxs { point: any_point(), bitmaps: lf::any_bitmaps(true), txs: any_cbors1() })
    };
    let want = lf::spec(lf::cls(&st), &msg);
    let r = st.apply(&msg);
    assert!(r.is_ok() && want.is_some(), "both pairs are allowed by the specification and accepted");
    if let Ok(n) = &r {
        assert!(Some(lf::cls(n)) == want, "next state class is the prescribed one");
        if let (Message::BlockTxsRequest(p, b), State::AwaitingBlockTxs(p2, b2)) = (&msg, n) {
            assert!(eq_point(p, p2) && lf::eq_bitmaps(b, b2), "AwaitingBlockTxs carries the requested EB and bitmaps");
        }
    }
    kani::cover!(matches!(&r, Ok(State::AwaitingBlockTxs(_, b)) if b.0.len() == 1), "one-entry selector carried over");
    kani::cover!(matches!(&r, Ok(State::Idle(Some(_)))), "BlockTxs delivered");
    core::mem::forget(r);
    core::mem::forget(st);
    core::mem::forget(msg);
}

// ---------------------------------------------------------------------------------------------
// handshake (HashMap-free part): Accept / Refuse messages in the states that can be built without a HashMap
// ---------------------------------------------------------------------------------------------
mod hs {
    use super::*;
    use proto::handshake::n2n::VersionData;
    use proto::handshake::{DoneState, RefuseReason};
    pub type Message = proto::handshake::Message<VersionData>;
    pub type State = proto::handshake::State<VersionData>;

    pub fn any_data() -> VersionData {
        let ps: Option<u8> = if kani::any() { Some(kani::any()) } else { None };
        let q: Option<bool> = if kani::any() { Some(kani::any()) } else { None };
        VersionData::new(kani::any(), kani::any(), ps, q)
    }

    pub fn eq_data(a: &VersionData, b: &VersionData) -> bool {
        a.network_magic == b.network_magic
            && a.initiator_only_diffusion_mode == b.initiator_only_diffusion_mode
            && a.peer_sharing == b.peer_sharing
            && a.query == b.query
    }

    pub fn any_reason() -> RefuseReason {
        let k: u8 = kani::any();
        kani::assume(k < 3);
        match k {
            0 => RefuseReason::VersionMismatch(if kani::any() { Vec::new() } else { vec![kani::any()] }),
            1 => RefuseReason::HandshakeDecodeError(kani::any(), String::new()),
            _ => RefuseReason::Refused(kani::any(), String::new()),
        }
    }

    pub fn eq_reason(a: &RefuseReason, b: &RefuseReason) -> bool {
        match (a, b) {
            (RefuseReason::VersionMismatch(v), RefuseReason::VersionMismatch(w)) => v.len() == w.len() && (v.len() == 0 || (v.len() == 1 && v[0] == w[0])),
            (RefuseReason::HandshakeDecodeError(n, s), RefuseReason::HandshakeDecodeError(m, t)) => *n == *m && s.len() == t.len(),
            (RefuseReason::Refused(n, s), RefuseReason::Refused(m, t)) => *n == *m && s.len() == t.len(),
            _ => false,
        }
    }

    pub fn any_msg() -> Message {
        if kani::any() {
            Message::Accept(kani::any(), any_data())
        } else {
            Message::Refuse(any_reason())
        }
    }
}

/// handshake: Accept / Refuse are refused in Propose (client agency) and in Done
/// bound: state in {Propose, Done(Accepted(n, data)), Done(Rejected(reason))}, message Accept(any version, any n2n VersionData) or Refuse(VersionMismatch(0..1 versions) | HandshakeDecodeError(n, "") | Refused(n, "")); unwind 3
#[kani::proof]
#[kani::unwind(3)]
fn c24_q_handshake_noagency() {
    use proto::handshake::DoneState;
    let k: u8 = kani::any();
    kani::assume(k < 3);
    let st: hs::State = match k {
        0 => hs::State::Propose,
        1 => hs::State::Done(DoneState::Accepted(kani::any(), hs::any_data())),
        _ => hs::State::Done(DoneState::Rejected(hs::any_reason())),
    };
    let msg = hs::any_msg();
    let r = st.apply(&msg);
    assert!(r.is_err(), "spec: server messages are refused in Propose (client agency) and Done accepts nothing");
    kani::cover!(matches!(&st, hs::State::Propose) && matches!(&msg, hs::Message::Accept(..)), "Accept in Propose reached");
    kani::cover!(matches!(&st, hs::State::Done(_)) && matches!(&msg, hs::Message::Refuse(_)), "Refuse in Done reached");
    core::mem::forget(r);
    core::mem::forget(st);
    core::mem::forget(msg);
}

/// handshake: Confirm --Accept--> Done(Accepted), Confirm --Refuse--> Done(Rejected), with the received data carried
/// bound: state Confirm(empty version table: HashMap::with_hasher on a fixed RandomState, never hashed), message as in c24_q_handshake_noagency; unwind 3
/// assume: the proposed version table held by Confirm is empty (apply never reads it)
#[kani::proof]
#[kani::unwind(3)]
fn c24_q_handshake_confirm() {
    use proto::handshake::{DoneState, VersionTable};
    use std::collections::hash_map::RandomState;
    use std::collections::HashMap;
    // RandomState::new() reaches getrandom/futex; an all-zero key pair is as good for a map that is never hashed into
    let rs: RandomState = unsafe { core::mem::transmute::<[u64; 2], RandomState>([0u64; 2]) };
    let st: hs::State = hs::State::Confirm(VersionTable { values: HashMap::with_hasher(rs) });
    let msg = hs::any_msg();
    let r = st.apply(&msg);
    assert!(r.is_ok(), "spec: Confirm accepts AcceptVersion and Refuse");
    if let Ok(n) = &r {
        match (&msg, n) {
            (hs::Message::Accept(v, d), hs::State::Done(DoneState::Accepted(v2, d2))) => {
                assert!(*v == *v2 && hs::eq_data(d, d2), "Done carries the accepted version and data")
            }
            (hs::Message::Refuse(x), hs::State::Done(DoneState::Rejected(y))) => assert!(hs::eq_reason(x, y), "Done carries the refuse reason"),
            _ => assert!(false, "next state is Done with the prescribed payload"),
        }
    }
    kani::cover!(matches!(&r, Ok(hs::State::Done(DoneState::Accepted(..)))), "accepted");
    kani::cover!(matches!(&r, Ok(hs::State::Done(DoneState::Rejected(proto::handshake::RefuseReason::VersionMismatch(v)))) if v.len() == 1), "rejected with one version");
    core::mem::forget(r);
    core::mem::forget(st);
    core::mem::forget(msg);
}

/// vacuity twin: must come back FAILED
#[kani::proof]
#[kani::unwind(2)]
fn c24_v_twin() {
    let st = ka::any_state();
    let msg = ka::any_msg();
    let r = st.apply(&msg);
    assert!(r.is_ok(), "twin: must fail");
    core::mem::forget(r);
}
