//! C24: network2 mini-protocol state machines (`State::apply`) vs the specification tables of DESIGN.md Appendix A.
//! fn: pallas_network2::protocol::keepalive::State::apply
//! fn: pallas_network2::protocol::chainsync::State::<HeaderContent>::apply
//! fn: pallas_network2::protocol::blockfetch::State::apply
//! fn: pallas_network2::protocol::peersharing::State::apply
//! fn: pallas_network2::protocol::txsubmission::State::apply
//! fn: pallas_network2::protocol::leiosnotify::State::apply
//! fn: pallas_network2::protocol::leiosfetch::State::apply
//! fn: pallas_network2::protocol::handshake::State::<n2n::VersionData>::apply (Accept/Refuse messages only)
//! outside: sequences are covered by one step from an arbitrary state because `apply(&self, &msg)` is a pure function of (state, message); that composition argument is not machine-checked
//! outside: Vec payloads longer than 1 element / byte strings longer than 1 byte inside states and messages (apply only clones them)
//! outside: handshake Propose/QueryReply messages and a Confirm state holding a non-empty version table (HashMap is not executable under CBMC); keepalive cookie equality between request and response is not part of the transition table
//! outside: leios-notify / leios-fetch tables are transcribed from the module documentation of pallas-network2/src/protocol/leios*.rs (cardano-blueprint submodule is empty in this tree): weaker oracle
//! assume: spec tables = DESIGN.md Appendix A (trusted, hand-transcribed from the Ouroboros network specification)
//! assume: keepalive (Client, Done), peersharing (Idle, Done) and the txsubmission pairs (Idle, RequestTxIds(non-blocking)), (TxIdsNonBlocking, ReplyTxIds), (TxIdsBlocking, ReplyTxIds), (TxIdsBlocking, Done), (Txs, ReplyTxs) are excluded by kani::assume from the table harnesses c24_q_keepalive / c24_q_peersharing / c24_q_txsubmission and decided one by one in c24_q_keepalive_client_done, c24_q_peersharing_idle_done, c24_q_txsub_* (findings)
//! assume: handshake: the proposed version table held by the Confirm state is empty (apply never reads it)
//!
//! Shape of the family (measured: with state class *and* message variant symbolic, comparing the carried payload as
//! well gives an 18 M clause formula and no verdict in 400 s; the transition relation alone is ~1 min):
//!  * `c24_q_<proto>`: symbolic state kind x symbolic message variant -> `is_ok <=> spec allows` and next-state class;
//!  * `c24_q_<proto>_c_<transition>`: one allowed transition each (state class and message variant concrete, all
//!    scalars symbolic) -> additionally the payload carried into the next state;
//!  * one harness per known deviation, excluded by `kani::assume` from `c24_q_<proto>` (see `assume:` lines).
use pallas_network2::protocol::{self as proto, Point};

// ---------------------------------------------------------------------------------------------
// symbolic builders and field-wise comparisons
// ---------------------------------------------------------------------------------------------
/// length of every vector / byte string built by the `any_*` builders (0 or 1), set first thing by the harness
static mut VLEN: usize = 1;
pub fn set_vlen(n: usize) {
    unsafe { VLEN = n }
}
pub fn vlen() -> usize {
    unsafe { VLEN }
}
/// vectors empty or one element, decided once per execution (symbolic)
pub fn any_vlen() {
    let l: usize = kani::any();
    kani::assume(l <= 1);
    set_vlen(l);
}

pub fn any_bytes1() -> Vec<u8> {
    if vlen() == 0 {
        Vec::new()
    } else {
        let b: u8 = kani::any();
        vec![b]
    }
}

pub fn eq_bytes1(a: &[u8], b: &[u8]) -> bool {
    // lengths are <= 1 by construction
    a.len() == b.len() && (a.len() == 0 || (a.len() == 1 && a[0] == b[0]))
}

pub fn any_point() -> Point {
    if kani::any() {
        Point::Origin
    } else {
        Point::Specific(kani::any(), any_bytes1())
    }
}

pub fn eq_point(a: &Point, b: &Point) -> bool {
    match (a, b) {
        (Point::Origin, Point::Origin) => true,
        (Point::Specific(s, h), Point::Specific(s2, h2)) => *s == *s2 && eq_bytes1(h, h2),
        _ => false,
    }
}

pub fn any_points1() -> Vec<Point> {
    if vlen() == 0 {
        Vec::new()
    } else {
        vec![any_point()]
    }
}

pub fn eq_points1(a: &[Point], b: &[Point]) -> bool {
    a.len() == b.len() && (a.len() == 0 || (a.len() == 1 && eq_point(&a[0], &b[0])))
}

pub fn any_cbor1() -> proto::AnyCbor {
    proto::AnyCbor::from_raw_bytes(any_bytes1())
}

pub fn any_cbors1() -> Vec<proto::AnyCbor> {
    if vlen() == 0 {
        Vec::new()
    } else {
        vec![any_cbor1()]
    }
}

pub fn eq_cbors1(a: &[proto::AnyCbor], b: &[proto::AnyCbor]) -> bool {
    a.len() == b.len() && (a.len() == 0 || (a.len() == 1 && eq_bytes1(a[0].raw_bytes(), b[0].raw_bytes())))
}

/// a kind in lo..hi: symbolic, except that a one-element range gives a *concrete* value (an assumed-equal symbolic
/// value would still make CBMC build and merge every arm of the `match k` in the builders)
pub fn any_kind(lo: u8, hi: u8) -> u8 {
    if hi == lo + 1 {
        return lo;
    }
    let k: u8 = kani::any();
    kani::assume(lo <= k && k < hi);
    k
}

/// `table!`: state kind and message variant symbolic; decides `is_ok <=> allowed` and the next-state class.
macro_rules! table {
    ($name:ident, $m:ident, $unw:expr) => {
        table!($name, $m, $unw, 0, $m::N_MSG);
    };
    ($name:ident, $m:ident, $unw:expr, $mlo:expr, $mhi:expr) => {
        #[kani::proof]
        #[kani::unwind($unw)]
        fn $name() {
            any_vlen();
            let st = $m::state_k(any_kind(0, $m::N_STATE));
            let msg = $m::msg_k(any_kind($mlo, $mhi));
            kani::assume(!$m::excluded($m::cls(&st), &msg));
            let want = $m::spec($m::cls(&st), &msg);
            let r = st.apply(&msg);
            assert!(r.is_ok() == want.is_some(), "accepted exactly when the specification allows the message in this state");
            if let Ok(n) = &r {
                assert!(Some($m::cls(n)) == want, "next state class is the prescribed one");
            }
            kani::cover!(r.is_ok(), "an allowed pair is reached and accepted");
            kani::cover!(r.is_err(), "a forbidden pair is reached and refused");
            kani::cover!(r.is_err() && $m::cls(&st) == $m::Cls::Done, "Done accepts nothing");
            kani::cover!(vlen() == 1, "one-element payloads reached");
            kani::cover!(vlen() == 0, "empty payloads reached");
            core::mem::forget(r);
            core::mem::forget(st);
            core::mem::forget(msg);
        }
    };
}

/// `carry!`: one transition of the table (state kinds lo..hi of one class, message variant concrete): full check incl. carried payload.
macro_rules! carry {
    ($name:ident, $m:ident, $lo:expr, $hi:expr, $mk:expr, $unw:expr) => {
        carry!($name, $m, $lo, $hi, $mk, $unw, any_vlen());
    };
    ($name:ident, $m:ident, $lo:expr, $hi:expr, $mk:expr, $unw:expr, $setlen:expr) => {
        #[kani::proof]
        #[kani::unwind($unw)]
        fn $name() {
            $setlen;
            let st = $m::state_k(any_kind($lo, $hi));
            let msg = $m::msg_k($mk);
            let want = $m::spec($m::cls(&st), &msg);
            let r = st.apply(&msg);
            assert!(r.is_ok() == want.is_some(), "accepted exactly when the specification allows the message in this state");
            if let Ok(n) = &r {
                assert!(Some($m::cls(n)) == want, "next state class is the prescribed one");
                $m::payload(&st, &msg, n);
            }
            kani::cover!(r.is_ok(), "transition taken");
            core::mem::forget(r);
            core::mem::forget(st);
            core::mem::forget(msg);
        }
    };
}

// ---------------------------------------------------------------------------------------------
// keepalive
// ---------------------------------------------------------------------------------------------
pub mod ka {
    use super::*;
    pub use proto::keepalive::{ClientState, Message, State};

    #[derive(Clone, Copy, PartialEq, Eq)]
    pub enum Cls {
        Client,
        Server,
        Done,
    }

    pub fn cls(s: &State) -> Cls {
        match s {
            State::Client(_) => Cls::Client,
            State::Server(_) => Cls::Server,
            State::Done => Cls::Done,
        }
    }

    pub const N_STATE: u8 = 4;
    pub fn state_k(k: u8) -> State {
        match k {
            0 => State::Client(ClientState::Empty),
            1 => State::Client(ClientState::Response(kani::any())),
            2 => State::Server(kani::any()),
            _ => State::Done,
        }
    }

    pub const N_MSG: u8 = 3;
    pub fn msg_k(k: u8) -> Message {
        match k {
            0 => Message::KeepAlive(kani::any()),
            1 => Message::ResponseKeepAlive(kani::any()),
            _ => Message::Done,
        }
    }

    /// Appendix A, keepalive rows.
    pub fn spec(s: Cls, m: &Message) -> Option<Cls> {
        match (s, m) {
            (Cls::Client, Message::KeepAlive(_)) => Some(Cls::Server),
            (Cls::Client, Message::Done) => Some(Cls::Done),
            (Cls::Server, Message::ResponseKeepAlive(_)) => Some(Cls::Client),
            _ => None,
        }
    }

    /// the pair on which the current tree is known to deviate (own harness)
    pub fn excluded(s: Cls, m: &Message) -> bool {
        s == Cls::Client && matches!(m, Message::Done)
    }

    pub fn witness(st: &State, m: &Message) -> bool {
        matches!(st, State::Server(_)) && matches!(m, Message::ResponseKeepAlive(_))
    }

    pub fn payload(_st: &State, msg: &Message, n: &State) {
        match (msg, n) {
            (Message::KeepAlive(c), State::Server(c2)) => assert!(*c == *c2, "Server state carries the request cookie"),
            (Message::ResponseKeepAlive(c), State::Client(ClientState::Response(c2))) => {
                assert!(*c == *c2, "Client state carries the response cookie")
            }
            (Message::Done, State::Done) => {}
            _ => assert!(false, "carried payload has the prescribed shape"),
        }
    }
}

// assume: keepalive (state class Client, message Done) is excluded from c24_q_keepalive -- decided by c24_q_keepalive_client_done (finding)
// bound: keepalive: state in {Client(Empty), Client(Response(c)), Server(c), Done} x message in {KeepAlive(c), ResponseKeepAlive(c), Done}, cookies any u16; unwind 2 (no loops)
table!(c24_q_keepalive, ka, 2);
// bound: keepalive, one allowed transition, cookies any u16: carried cookie; unwind 2
carry!(c24_q_keepalive_c_request, ka, 0, 2, 0, 2);
carry!(c24_q_keepalive_c_response, ka, 2, 3, 1, 2);

/// keepalive finding: the specification lets the client terminate (`Done`) while it has agency
/// bound: state Client(Empty) or Client(Response(c)), c any u16; message Done; unwind 2
/// finding: expected FAILED on the current tree (apply returns Err(InvalidOutbound))
#[kani::proof]
#[kani::unwind(2)]
fn c24_q_keepalive_client_done() {
    let st = ka::state_k(any_kind(0, 2));
    let msg = ka::Message::Done;
    kani::assume(ka::excluded(ka::cls(&st), &msg)); // exactly the pair excluded from c24_q_keepalive
    let r = st.apply(&msg);
    assert!(r.is_ok(), "spec: Client --Done--> Done is accepted");
    if let Ok(n) = &r {
        assert!(ka::cls(n) == ka::Cls::Done, "spec: Client --Done--> Done ends in Done");
    }
    kani::cover!(r.is_ok(), "accepted (reached only once the finding is repaired)");
    core::mem::forget(r);
}

// ---------------------------------------------------------------------------------------------
// peersharing
// ---------------------------------------------------------------------------------------------
pub mod ps {
    use super::*;
    pub use proto::peersharing::{IdleState, Message, PeerAddress, State};
    use std::net::{Ipv4Addr, Ipv6Addr};

    #[derive(Clone, Copy, PartialEq, Eq)]
    pub enum Cls {
        Idle,
        Busy,
        Done,
    }

    pub fn cls(s: &State) -> Cls {
        match s {
            State::Idle(_) => Cls::Idle,
            State::Busy(_) => Cls::Busy,
            State::Done => Cls::Done,
        }
    }

    pub fn any_addr() -> PeerAddress {
        if kani::any() {
            PeerAddress::V4(Ipv4Addr::from_bits(kani::any()), kani::any())
        } else {
            PeerAddress::V6(Ipv6Addr::from_bits(kani::any()), kani::any())
        }
    }

    pub fn eq_addr(a: &PeerAddress, b: &PeerAddress) -> bool {
        match (a, b) {
            (PeerAddress::V4(x, p), PeerAddress::V4(y, q)) => x.to_bits() == y.to_bits() && *p == *q,
            (PeerAddress::V6(x, p), PeerAddress::V6(y, q)) => x.to_bits() == y.to_bits() && *p == *q,
            _ => false,
        }
    }

    pub fn any_addrs1() -> Vec<PeerAddress> {
        if vlen() == 0 {
            Vec::new()
        } else {
            vec![any_addr()]
        }
    }

    pub const N_STATE: u8 = 4;
    pub fn state_k(k: u8) -> State {
        match k {
            0 => State::Idle(IdleState::Empty),
            1 => State::Idle(IdleState::Response(any_addrs1())),
            2 => State::Busy(kani::any()),
            _ => State::Done,
        }
    }

    pub const N_MSG: u8 = 3;
    pub fn msg_k(k: u8) -> Message {
        match k {
            0 => Message::ShareRequest(kani::any()),
            1 => Message::SharePeers(any_addrs1()),
            _ => Message::Done,
        }
    }

    /// Appendix A, peersharing rows.
    pub fn spec(s: Cls, m: &Message) -> Option<Cls> {
        match (s, m) {
            (Cls::Idle, Message::ShareRequest(_)) => Some(Cls::Busy),
            (Cls::Idle, Message::Done) => Some(Cls::Done),
            (Cls::Busy, Message::SharePeers(_)) => Some(Cls::Idle),
            _ => None,
        }
    }

    /// the pair on which the current tree deviates (own harness)
    pub fn excluded(s: Cls, m: &Message) -> bool {
        s == Cls::Idle && matches!(m, Message::Done)
    }

    pub fn witness(st: &State, m: &Message) -> bool {
        matches!(st, State::Busy(_)) && matches!(m, Message::SharePeers(_))
    }

    pub fn payload(_st: &State, msg: &Message, n: &State) {
        match (msg, n) {
            (Message::ShareRequest(a), State::Busy(b)) => assert!(*a == *b, "Busy carries the requested amount"),
            (Message::SharePeers(v), State::Idle(IdleState::Response(w))) => {
                assert!(v.len() == w.len(), "Idle carries as many peers as were received");
                if v.len() == 1 {
                    assert!(eq_addr(&v[0], &w[0]), "Idle carries the received peer");
                }
            }
            (Message::Done, State::Done) => {}
            _ => assert!(false, "carried payload has the prescribed shape"),
        }
    }
}

// assume: peersharing (state class Idle, message Done) is excluded from c24_q_peersharing -- decided by c24_q_peersharing_idle_done (finding)
// bound: peersharing: state in {Idle(Empty), Idle(Response(0..1 peers)), Busy(n), Done} x message in {ShareRequest(n), SharePeers(0..1 peers, V4/V6, any address and port), Done}; unwind 3
table!(c24_q_peersharing, ps, 3);
// bound: peersharing, one allowed transition, scalars symbolic, 0..1 peers: carried amount / peers; unwind 3
carry!(c24_q_peersharing_c_request, ps, 0, 2, 0, 3);
carry!(c24_q_peersharing_c_peers, ps, 2, 3, 1, 3);

/// peersharing finding: the specification lets the client terminate (`Done`) while idle
/// bound: state Idle(Empty) or Idle(Response(0..1 peers)); message Done; unwind 3
/// finding: expected FAILED on the current tree (apply returns Err(InvalidOutbound))
#[kani::proof]
#[kani::unwind(3)]
fn c24_q_peersharing_idle_done() {
    any_vlen();
    let st = ps::state_k(any_kind(0, 2));
    let msg = ps::Message::Done;
    kani::assume(ps::excluded(ps::cls(&st), &msg)); // exactly the pair excluded from c24_q_peersharing
    let r = st.apply(&msg);
    assert!(r.is_ok(), "spec: Idle --Done--> Done is accepted");
    if let Ok(n) = &r {
        assert!(ps::cls(n) == ps::Cls::Done, "spec: Idle --Done--> Done ends in Done");
    }
    kani::cover!(r.is_ok(), "accepted (reached only once the finding is repaired)");
    core::mem::forget(r);
    core::mem::forget(st);
}

// ---------------------------------------------------------------------------------------------
// blockfetch
// ---------------------------------------------------------------------------------------------
pub mod bf {
    use super::*;
    pub use proto::blockfetch::{Message, State};

    #[derive(Clone, Copy, PartialEq, Eq)]
    pub enum Cls {
        Idle,
        Busy,
        Streaming,
        Done,
    }

    pub fn cls(s: &State) -> Cls {
        match s {
            State::Idle => Cls::Idle,
            State::Busy(_) => Cls::Busy,
            State::Streaming(_) => Cls::Streaming,
            State::Done => Cls::Done,
        }
    }

    pub const N_STATE: u8 = 5;
    pub fn state_k(k: u8) -> State {
        match k {
            0 => State::Idle,
            1 => State::Busy((any_point(), any_point())),
            2 => State::Streaming(None),
            3 => State::Streaming(Some(any_bytes1())),
            _ => State::Done,
        }
    }

    pub const N_MSG: u8 = 6;
    pub fn msg_k(k: u8) -> Message {
        match k {
            0 => Message::RequestRange((any_point(), any_point())),
            1 => Message::ClientDone,
            2 => Message::StartBatch,
            3 => Message::NoBlocks,
            4 => Message::Block(any_bytes1()),
            _ => Message::BatchDone,
        }
    }

    /// Appendix A, blockfetch rows.
    pub fn spec(s: Cls, m: &Message) -> Option<Cls> {
        match (s, m) {
            (Cls::Idle, Message::RequestRange(_)) => Some(Cls::Busy),
            (Cls::Idle, Message::ClientDone) => Some(Cls::Done),
            (Cls::Busy, Message::StartBatch) => Some(Cls::Streaming),
            (Cls::Busy, Message::NoBlocks) => Some(Cls::Idle),
            (Cls::Streaming, Message::Block(_)) => Some(Cls::Streaming),
            (Cls::Streaming, Message::BatchDone) => Some(Cls::Idle),
            _ => None,
        }
    }

    pub fn excluded(_s: Cls, _m: &Message) -> bool {
        false
    }

    pub fn witness(st: &State, m: &Message) -> bool {
        matches!(st, State::Streaming(Some(_))) && matches!(m, Message::Block(_))
    }

    pub fn payload(_st: &State, msg: &Message, n: &State) {
        match (msg, n) {
            (Message::RequestRange((a, b)), State::Busy((a2, b2))) => {
                assert!(eq_point(a, a2) && eq_point(b, b2), "Busy carries the requested range")
            }
            (Message::Block(b), State::Streaming(Some(b2))) => assert!(eq_bytes1(b, b2), "Streaming carries the received block"),
            (Message::StartBatch, State::Streaming(None)) => {}
            (Message::ClientDone, State::Done) => {}
            (Message::NoBlocks, State::Idle) | (Message::BatchDone, State::Idle) => {}
            _ => assert!(false, "carried payload has the prescribed shape"),
        }
    }
}

// bound: blockfetch: state in {Idle, Busy(range), Streaming(None), Streaming(Some(0..1 byte)), Done} x all 6 message variants, points Origin or Specific(any u64, 0..1 byte hash), block body 0..1 byte; unwind 3
table!(c24_q_blockfetch, bf, 3);
// bound: blockfetch, one allowed transition, scalars symbolic: carried range / block body (and Streaming(None) after StartBatch); unwind 3
carry!(c24_q_blockfetch_c_request, bf, 0, 1, 0, 3);
carry!(c24_q_blockfetch_c_startbatch, bf, 1, 2, 2, 3);
carry!(c24_q_blockfetch_c_block, bf, 2, 4, 4, 3);

// ---------------------------------------------------------------------------------------------
// chainsync (content type = HeaderContent, the instantiation used by AnyMessage)
// ---------------------------------------------------------------------------------------------
pub mod cs {
    use super::*;
    pub use proto::chainsync::{Data, HeaderContent, Tip};
    pub type Message = proto::chainsync::Message<HeaderContent>;
    pub type State = proto::chainsync::State<HeaderContent>;

    #[derive(Clone, Copy, PartialEq, Eq)]
    pub enum Cls {
        Idle,
        CanAwait,
        MustReply,
        Intersect,
        Done,
    }

    pub fn cls(s: &State) -> Cls {
        match s {
            State::Idle(_) => Cls::Idle,
            State::CanAwait => Cls::CanAwait,
            State::MustReply => Cls::MustReply,
            State::Intersect(_) => Cls::Intersect,
            State::Done => Cls::Done,
        }
    }

    pub fn any_tip() -> Tip {
        Tip(any_point(), kani::any())
    }

    pub fn eq_tip(a: &Tip, b: &Tip) -> bool {
        eq_point(&a.0, &b.0) && a.1 == b.1
    }

    pub fn any_content() -> HeaderContent {
        let byron_prefix = if kani::any() { Some((kani::any(), kani::any())) } else { None };
        HeaderContent { variant: kani::any(), byron_prefix, cbor: any_bytes1() }
    }

    pub fn eq_content(a: &HeaderContent, b: &HeaderContent) -> bool {
        a.variant == b.variant && a.byron_prefix == b.byron_prefix && eq_bytes1(&a.cbor, &b.cbor)
    }

    /// state kinds: 0..=3 Idle(..), 4 CanAwait, 5 MustReply, 6 Intersect, 7 Done
    pub const N_STATE: u8 = 8;
    pub fn state_k(k: u8) -> State {
        match k {
            0 => State::Idle(Data::New),
            1 => State::Idle(Data::Drained),
            2 => State::Idle(Data::NoIntersection(any_tip())),
            3 => State::Idle(Data::Content(any_content(), any_tip())),
            4 => State::CanAwait,
            5 => State::MustReply,
            6 => State::Intersect(any_points1()),
            _ => State::Done,
        }
    }

    pub const N_MSG: u8 = 8;
    pub fn msg_k(k: u8) -> Message {
        match k {
            0 => Message::RequestNext,
            1 => Message::AwaitReply,
            2 => Message::RollForward(any_content(), any_tip()),
            3 => Message::RollBackward(any_point(), any_tip()),
            4 => Message::FindIntersect(any_points1()),
            5 => Message::IntersectFound(any_point(), any_tip()),
            6 => Message::IntersectNotFound(any_tip()),
            _ => Message::Done,
        }
    }

    /// Appendix A, chainsync rows.
    pub fn spec(s: Cls, m: &Message) -> Option<Cls> {
        match (s, m) {
            (Cls::Idle, Message::RequestNext) => Some(Cls::CanAwait),
            (Cls::Idle, Message::FindIntersect(_)) => Some(Cls::Intersect),
            (Cls::Idle, Message::Done) => Some(Cls::Done),
            (Cls::CanAwait, Message::AwaitReply) => Some(Cls::MustReply),
            (Cls::CanAwait, Message::RollForward(..)) => Some(Cls::Idle),
            (Cls::CanAwait, Message::RollBackward(..)) => Some(Cls::Idle),
            (Cls::MustReply, Message::RollForward(..)) => Some(Cls::Idle),
            (Cls::MustReply, Message::RollBackward(..)) => Some(Cls::Idle),
            (Cls::Intersect, Message::IntersectFound(..)) => Some(Cls::Idle),
            (Cls::Intersect, Message::IntersectNotFound(_)) => Some(Cls::Idle),
            _ => None,
        }
    }

    pub fn excluded(_s: Cls, _m: &Message) -> bool {
        false
    }

    pub fn witness(st: &State, m: &Message) -> bool {
        matches!(st, State::MustReply) && matches!(m, Message::RollForward(..))
    }

    pub fn payload(_st: &State, msg: &Message, n: &State) {
        match (msg, n) {
            (Message::RequestNext, State::CanAwait) => {}
            (Message::AwaitReply, State::MustReply) => {}
            (Message::Done, State::Done) => {}
            (Message::FindIntersect(p), State::Intersect(q)) => assert!(eq_points1(p, q), "Intersect carries the requested points"),
            (Message::RollForward(c, t), State::Idle(Data::Content(c2, t2))) => {
                assert!(eq_content(c, c2) && eq_tip(t, t2), "Idle carries the received content and tip")
            }
            (Message::RollBackward(p, t), State::Idle(Data::Rollback(p2, t2))) => {
                assert!(eq_point(p, p2) && eq_tip(t, t2), "Idle carries the rollback point and tip")
            }
            (Message::IntersectFound(p, t), State::Idle(Data::Intersection(p2, t2))) => {
                assert!(eq_point(p, p2) && eq_tip(t, t2), "Idle carries the intersection and tip")
            }
            (Message::IntersectNotFound(t), State::Idle(Data::NoIntersection(t2))) => assert!(eq_tip(t, t2), "Idle carries the tip"),
            _ => assert!(false, "carried payload has the prescribed shape"),
        }
    }
}

// bound: chainsync: state in {Idle(New|Drained|NoIntersection(tip)|Content(c,tip)), CanAwait, MustReply, Intersect(0..1 points), Done} x all 8 message variants; points Origin or Specific(any u64, 0..1 byte hash); header content: any variant byte, any optional byron prefix, 0..1 cbor byte; FindIntersect 0..1 points; unwind 3
table!(c24_q_chainsync, cs, 3);
// bound: chainsync, one allowed transition (source kinds of one class symbolic), scalars symbolic, payload shapes as in c24_q_chainsync: carried points / content / tip; unwind 3
carry!(c24_q_chainsync_c_findintersect, cs, 0, 4, 4, 3);
carry!(c24_q_chainsync_c_canawait_rollforward, cs, 4, 5, 2, 3);
carry!(c24_q_chainsync_c_canawait_rollbackward, cs, 4, 5, 3, 3);
carry!(c24_q_chainsync_c_mustreply_rollforward, cs, 5, 6, 2, 3);
carry!(c24_q_chainsync_c_mustreply_rollbackward, cs, 5, 6, 3, 3);
carry!(c24_q_chainsync_c_intersectfound, cs, 6, 7, 5, 3);
carry!(c24_q_chainsync_c_intersectnotfound, cs, 6, 7, 6, 3);

// ---------------------------------------------------------------------------------------------
// txsubmission
// ---------------------------------------------------------------------------------------------
pub mod tx {
    use super::*;
    pub use proto::txsubmission::{EraTxBody, EraTxId, Message, State, TxIdAndSize};

    #[derive(Clone, Copy, PartialEq, Eq)]
    pub enum Cls {
        Init,
        Idle,
        TxIdsNonBlocking,
        TxIdsBlocking,
        Txs,
        Done,
    }

    pub fn cls(s: &State) -> Cls {
        match s {
            State::Init => Cls::Init,
            State::Idle => Cls::Idle,
            State::TxIdsNonBlocking => Cls::TxIdsNonBlocking,
            State::TxIdsBlocking => Cls::TxIdsBlocking,
            State::Txs(_) => Cls::Txs,
            State::Done => Cls::Done,
        }
    }

    pub fn any_bodies1() -> Vec<EraTxBody> {
        if vlen() == 0 {
            Vec::new()
        } else {
            vec![EraTxBody(kani::any(), any_bytes1())]
        }
    }

    pub fn any_ids1() -> Vec<EraTxId> {
        if vlen() == 0 {
            Vec::new()
        } else {
            vec![EraTxId(kani::any(), any_bytes1())]
        }
    }

    pub fn any_idsizes1() -> Vec<TxIdAndSize<EraTxId>> {
        if vlen() == 0 {
            Vec::new()
        } else {
            vec![TxIdAndSize(EraTxId(kani::any(), any_bytes1()), kani::any())]
        }
    }

    pub const N_STATE: u8 = 6;
    pub fn state_k(k: u8) -> State {
        match k {
            0 => State::Init,
            1 => State::Idle,
            2 => State::TxIdsNonBlocking,
            3 => State::TxIdsBlocking,
            4 => State::Txs(any_bodies1()),
            _ => State::Done,
        }
    }

    pub const N_MSG: u8 = 6;
    pub fn msg_k(k: u8) -> Message {
        match k {
            0 => Message::Init,
            1 => Message::RequestTxIds(kani::any(), kani::any(), kani::any()),
            2 => Message::ReplyTxIds(any_idsizes1()),
            3 => Message::RequestTxs(any_ids1()),
            4 => Message::ReplyTxs(any_bodies1()),
            _ => Message::Done,
        }
    }

    /// Appendix A, txsubmission2 rows.
    pub fn spec(s: Cls, m: &Message) -> Option<Cls> {
        match (s, m) {
            (Cls::Init, Message::Init) => Some(Cls::Idle),
            (Cls::Idle, Message::RequestTxIds(true, _, _)) => Some(Cls::TxIdsBlocking),
            (Cls::Idle, Message::RequestTxIds(false, _, _)) => Some(Cls::TxIdsNonBlocking),
            (Cls::Idle, Message::RequestTxs(_)) => Some(Cls::Txs),
            (Cls::TxIdsBlocking, Message::ReplyTxIds(_)) => Some(Cls::Idle),
            (Cls::TxIdsBlocking, Message::Done) => Some(Cls::Done),
            (Cls::TxIdsNonBlocking, Message::ReplyTxIds(_)) => Some(Cls::Idle),
            (Cls::Txs, Message::ReplyTxs(_)) => Some(Cls::Idle),
            _ => None,
        }
    }

    /// the five (state class, message) pairs on which the current tree deviates; each has its own harness
    pub fn excluded(s: Cls, m: &Message) -> bool {
        match (s, m) {
            (Cls::Idle, Message::RequestTxIds(false, _, _)) => true,
            (Cls::TxIdsNonBlocking, Message::ReplyTxIds(_)) => true,
            (Cls::TxIdsBlocking, Message::ReplyTxIds(_)) => true,
            (Cls::TxIdsBlocking, Message::Done) => true,
            (Cls::Txs, Message::ReplyTxs(_)) => true,
            _ => false,
        }
    }

    pub fn witness(st: &State, m: &Message) -> bool {
        matches!(st, State::Idle) && matches!(m, Message::RequestTxs(_))
    }
}

// assume: txsubmission pairs excluded from c24_q_txsubmission and decided by c24_q_txsub_*: (Idle, RequestTxIds(non-blocking)), (TxIdsNonBlocking, ReplyTxIds), (TxIdsBlocking, ReplyTxIds), (TxIdsBlocking, Done), (Txs, ReplyTxs)
// bound: txsubmission: all 6 state classes (Txs with 0..1 bodies) x all 6 message variants (flag/ack/req any, vectors 0..1 elements, ids/bodies 0..1 byte, era any u16); the specification prescribes no carried data for this protocol; unwind 3
table!(c24_q_txsubmission, tx, 3);

macro_rules! txsub_case {
    ($name:ident, $sk:expr, $msg:expr) => {
        #[kani::proof]
        #[kani::unwind(3)]
        fn $name() {
            any_vlen();
            let st = tx::state_k($sk);
            let msg: tx::Message = $msg;
            kani::assume(tx::excluded(tx::cls(&st), &msg)); // exactly one of the pairs excluded from c24_q_txsubmission
            let want = tx::spec(tx::cls(&st), &msg);
            let r = st.apply(&msg);
            assert!(r.is_ok() == want.is_some(), "accepted exactly when the specification allows the message in this state");
            if let Ok(n) = &r {
                assert!(Some(tx::cls(n)) == want, "next state class is the prescribed one");
            }
            kani::cover!(r.is_ok(), "accepted with the prescribed next state (reached only once the finding is repaired)");
            core::mem::forget(r);
            core::mem::forget(st);
            core::mem::forget(msg);
        }
    };
}
// bound: one (state class, message variant) pair of the txsubmission table, scalars symbolic, vectors 0..1 elements; unwind 3
// finding: c24_q_txsub_* are expected FAILED on the current tree
txsub_case!(c24_q_txsub_idle_nonblocking, 1, tx::Message::RequestTxIds(false, kani::any(), kani::any()));
txsub_case!(c24_q_txsub_nonblocking_reply, 2, tx::msg_k(2));
txsub_case!(c24_q_txsub_blocking_reply, 3, tx::msg_k(2));
txsub_case!(c24_q_txsub_blocking_done, 3, tx::Message::Done);
txsub_case!(c24_q_txsub_txs_reply, 4, tx::msg_k(4));

// ---------------------------------------------------------------------------------------------
// leios-notify (oracle: module documentation)
// ---------------------------------------------------------------------------------------------
pub mod ln {
    use super::*;
    pub use proto::leiosnotify::{Message, Notification, State};

    #[derive(Clone, Copy, PartialEq, Eq)]
    pub enum Cls {
        Idle,
        Busy,
        Done,
    }

    pub fn cls(s: &State) -> Cls {
        match s {
            State::Idle(_) => Cls::Idle,
            State::Busy => Cls::Busy,
            State::Done => Cls::Done,
        }
    }

    pub const N_STATE: u8 = 5;
    pub fn state_k(k: u8) -> State {
        match k {
            0 => State::Idle(None),
            1 => State::Idle(Some(Notification::BlockOffer(any_point(), kani::any()))),
            2 => State::Idle(Some(Notification::Votes(any_cbors1()))),
            3 => State::Busy,
            _ => State::Done,
        }
    }

    pub const N_MSG: u8 = 6;
    pub fn msg_k(k: u8) -> Message {
        match k {
            0 => Message::RequestNext,
            1 => Message::BlockAnnouncement(any_cbor1()),
            2 => Message::BlockOffer(any_point(), kani::any()),
            3 => Message::BlockTxsOffer(any_point()),
            4 => Message::Votes(any_cbors1()),
            _ => Message::Done,
        }
    }

    /// module documentation of leiosnotify.rs: Idle (client) --RequestNext--> Busy, --Done--> Done; Busy (server) --one announcement/offer/votes--> Idle
    pub fn spec(s: Cls, m: &Message) -> Option<Cls> {
        match (s, m) {
            (Cls::Idle, Message::RequestNext) => Some(Cls::Busy),
            (Cls::Idle, Message::Done) => Some(Cls::Done),
            (Cls::Busy, Message::BlockAnnouncement(_)) => Some(Cls::Idle),
            (Cls::Busy, Message::BlockOffer(..)) => Some(Cls::Idle),
            (Cls::Busy, Message::BlockTxsOffer(_)) => Some(Cls::Idle),
            (Cls::Busy, Message::Votes(_)) => Some(Cls::Idle),
            _ => None,
        }
    }

    pub fn excluded(_s: Cls, _m: &Message) -> bool {
        false
    }

    pub fn witness(st: &State, m: &Message) -> bool {
        matches!(st, State::Busy) && matches!(m, Message::Votes(_))
    }

    pub fn payload(_st: &State, msg: &Message, n: &State) {
        match (msg, n) {
            (Message::RequestNext, State::Busy) => {}
            (Message::Done, State::Done) => {}
            (Message::BlockAnnouncement(h), State::Idle(Some(Notification::BlockAnnouncement(h2)))) => {
                assert!(eq_bytes1(h.raw_bytes(), h2.raw_bytes()), "Idle carries the announced header")
            }
            (Message::BlockOffer(p, s), State::Idle(Some(Notification::BlockOffer(p2, s2)))) => {
                assert!(eq_point(p, p2) && *s == *s2, "Idle carries the offered EB and size")
            }
            (Message::BlockTxsOffer(p), State::Idle(Some(Notification::BlockTxsOffer(p2)))) => assert!(eq_point(p, p2), "Idle carries the offered EB"),
            (Message::Votes(v), State::Idle(Some(Notification::Votes(v2)))) => assert!(eq_cbors1(v, v2), "Idle carries the votes"),
            _ => assert!(false, "carried payload has the prescribed shape"),
        }
    }
}

// bound: leios-notify: state in {Idle(None), Idle(Some(BlockOffer)), Idle(Some(Votes 0..1)), Busy, Done} x all 6 message variants, raw CBOR payloads 0..1 byte, votes 0..1 elements; unwind 3
table!(c24_q_leiosnotify, ln, 3);
// bound: leios-notify, one allowed transition Busy --m--> Idle(Some(notification)), scalars symbolic: carried notification; unwind 3
carry!(c24_q_leiosnotify_c_announcement, ln, 3, 4, 1, 3);
carry!(c24_q_leiosnotify_c_offer, ln, 3, 4, 2, 3);
carry!(c24_q_leiosnotify_c_txsoffer, ln, 3, 4, 3, 3);
carry!(c24_q_leiosnotify_c_votes, ln, 3, 4, 4, 3);

// ---------------------------------------------------------------------------------------------
// leios-fetch (oracle: module documentation)
// ---------------------------------------------------------------------------------------------
pub mod lf {
    use super::*;
    pub use proto::leiosfetch::{Bitmaps, Message, Response, State};
    use std::collections::BTreeMap;

    #[derive(Clone, Copy, PartialEq, Eq)]
    pub enum Cls {
        Idle,
        AwaitingBlock,
        AwaitingBlockTxs,
        Done,
    }

    pub fn cls(s: &State) -> Cls {
        match s {
            State::Idle(_) => Cls::Idle,
            State::AwaitingBlock(_) => Cls::AwaitingBlock,
            State::AwaitingBlockTxs(..) => Cls::AwaitingBlockTxs,
            State::Done => Cls::Done,
        }
    }

    /// number of entries of every Bitmaps selector built here (BTreeMap: 0 or exactly 1, engineering rule); concrete per harness
    static mut BMLEN: usize = 0;
    pub fn set_bmlen(n: usize) {
        unsafe { BMLEN = n }
    }

    pub fn any_bitmaps() -> Bitmaps {
        let mut m = BTreeMap::new();
        if unsafe { BMLEN } == 1 {
            let k: u16 = kani::any();
            let v: u64 = kani::any();
            m.insert(k, v);
        }
        Bitmaps(m)
    }

    pub fn eq_bitmaps(a: &Bitmaps, b: &Bitmaps) -> bool {
        if a.0.len() != b.0.len() {
            return false;
        }
        match (a.0.first_key_value(), b.0.first_key_value()) {
            (None, None) => true,
            (Some((k, v)), Some((k2, v2))) => *k == *k2 && *v == *v2,
            _ => false,
        }
    }

    /// state kinds: 0..=2 Idle(..), 3 AwaitingBlock, 4 AwaitingBlockTxs, 5 Done
    pub const N_STATE: u8 = 6;
    pub fn state_k(k: u8) -> State {
        match k {
            0 => State::Idle(None),
            1 => State::Idle(Some((any_point(), Response::Block(any_cbor1())))),
            2 => State::Idle(Some((any_point(), Response::BlockTxs { txs: any_cbors1() }))),
            3 => State::AwaitingBlock(any_point()),
            4 => State::AwaitingBlockTxs(any_point(), any_bitmaps()),
            _ => State::Done,
        }
    }

    pub const N_MSG: u8 = 5;
    pub fn msg_k(k: u8) -> Message {
        match k {
            0 => Message::BlockRequest(any_point()),
            1 => Message::Block(any_cbor1()),
            2 => Message::BlockTxsRequest(any_point(), any_bitmaps()),
            3 => Message::BlockTxs { point: any_point(), bitmaps: any_bitmaps(), txs: any_cbors1() },
            _ => Message::Done,
        }
    }

    /// module documentation of leiosfetch.rs: Idle (client) --BlockRequest--> AwaitingBlock, --BlockTxsRequest--> AwaitingBlockTxs, --Done--> Done;
    /// AwaitingBlock (server) --Block--> Idle; AwaitingBlockTxs (server) --BlockTxs--> Idle
    pub fn spec(s: Cls, m: &Message) -> Option<Cls> {
        match (s, m) {
            (Cls::Idle, Message::BlockRequest(_)) => Some(Cls::AwaitingBlock),
            (Cls::Idle, Message::BlockTxsRequest(..)) => Some(Cls::AwaitingBlockTxs),
            (Cls::Idle, Message::Done) => Some(Cls::Done),
            (Cls::AwaitingBlock, Message::Block(_)) => Some(Cls::Idle),
            (Cls::AwaitingBlockTxs, Message::BlockTxs { .. }) => Some(Cls::Idle),
            _ => None,
        }
    }

    pub fn excluded(_s: Cls, _m: &Message) -> bool {
        false
    }

    pub fn witness(st: &State, m: &Message) -> bool {
        matches!(st, State::AwaitingBlockTxs(..)) && matches!(m, Message::BlockTxs { .. })
    }

    pub fn payload(st: &State, msg: &Message, n: &State) {
        match (st, msg, n) {
            (_, Message::Done, State::Done) => {}
            (_, Message::BlockRequest(p), State::AwaitingBlock(p2)) => assert!(eq_point(p, p2), "AwaitingBlock carries the requested EB"),
            (_, Message::BlockTxsRequest(p, b), State::AwaitingBlockTxs(p2, b2)) => {
                assert!(eq_point(p, p2) && eq_bitmaps(b, b2), "AwaitingBlockTxs carries the requested EB and bitmaps")
            }
            (State::AwaitingBlock(eb), Message::Block(b), State::Idle(Some((eb2, Response::Block(b2))))) => {
                assert!(eq_point(eb, eb2) && eq_bytes1(b.raw_bytes(), b2.raw_bytes()), "Idle carries the EB asked for and the delivered body")
            }
            (State::AwaitingBlockTxs(eb, _), Message::BlockTxs { txs, .. }, State::Idle(Some((eb2, Response::BlockTxs { txs: txs2 })))) => {
                assert!(eq_point(eb, eb2) && eq_cbors1(txs, txs2), "Idle carries the EB asked for and the delivered txs")
            }
            _ => assert!(false, "carried payload has the prescribed shape"),
        }
    }
}

// bound: leios-fetch: state kind symbolic in {Idle(None), Idle(Some(Block)), Idle(Some(BlockTxs 0..1)), AwaitingBlock(p), AwaitingBlockTxs(p, {}), Done} x one message variant per harness (BlockRequest, Block, BlockTxsRequest, Done), raw CBOR payloads 0..1 byte, tx lists 0..1 elements, Bitmaps = empty BTreeMap; unwind 3. (measured: with the message variant symbolic too, CBMC reads the Bitmaps back through a symbolic variant, no longer sees that the BTreeMap is empty and unrolls clone_subtree: no verdict in 400 s)
table!(c24_q_leiosfetch_m0, lf, 3, 0, 1);
table!(c24_q_leiosfetch_m1, lf, 3, 1, 2);
table!(c24_q_leiosfetch_m2, lf, 3, 2, 3);
table!(c24_q_leiosfetch_m4, lf, 3, 4, 5);

/// leios-fetch, message BlockTxs against every state kind, one state kind per harness (state kind symbolic as well: no verdict in 400 s)
macro_rules! lf_blocktxs_in {
    ($name:ident, $sk:expr) => {
        #[kani::proof]
        #[kani::unwind(3)]
        fn $name() {
            any_vlen();
            let st = lf::state_k($sk);
            let msg = lf::msg_k(3);
            let want = lf::spec(lf::cls(&st), &msg);
            let r = st.apply(&msg);
            assert!(r.is_ok() == want.is_some(), "accepted exactly when the specification allows the message in this state");
            if let Ok(n) = &r {
                assert!(Some(lf::cls(n)) == want, "next state class is the prescribed one");
            }
            kani::cover!(r.is_ok() == ($sk == 4), "pair reached, verdict as in the table");
            core::mem::forget(r);
            core::mem::forget(st);
            core::mem::forget(msg);
        }
    };
}
// bound: leios-fetch: message BlockTxs{point, {}, 0..1 txs} x one concrete state kind per harness (payload scalars symbolic); unwind 3
lf_blocktxs_in!(c24_t_leiosfetch_m3_s0, 0);
lf_blocktxs_in!(c24_t_leiosfetch_m3_s1, 1);
lf_blocktxs_in!(c24_t_leiosfetch_m3_s2, 2);
lf_blocktxs_in!(c24_q_leiosfetch_m3_s3, 3);
lf_blocktxs_in!(c24_q_leiosfetch_m3_s4, 4);
lf_blocktxs_in!(c24_q_leiosfetch_m3_s5, 5);
// bound: leios-fetch, one allowed transition, scalars symbolic, Bitmaps empty: carried EB / body / txs; unwind 3
carry!(c24_q_leiosfetch_c_blockrequest, lf, 0, 3, 0, 3);
carry!(c24_q_leiosfetch_c_blocktxsrequest, lf, 0, 3, 2, 3);
carry!(c24_q_leiosfetch_c_block, lf, 3, 4, 1, 3);
carry!(c24_q_leiosfetch_c_blocktxs_l0, lf, 4, 5, 3, 3, set_vlen(0));
carry!(c24_t_leiosfetch_c_blocktxs_l1, lf, 4, 5, 3, 3, set_vlen(1));

macro_rules! lf_bitmap1 {
    ($name:ident, $sk:expr, $mk:expr) => {
        #[kani::proof]
        #[kani::unwind(4)]
        fn $name() {
            lf::set_bmlen(1);
            set_vlen(1);
            let st = lf::state_k($sk);
            let msg = lf::msg_k($mk);
            let want = lf::spec(lf::cls(&st), &msg);
            let r = st.apply(&msg);
            assert!(r.is_ok() && want.is_some(), "the pair is allowed by the specification and accepted");
            if let Ok(n) = &r {
                assert!(Some(lf::cls(n)) == want, "next state class is the prescribed one");
                lf::payload(&st, &msg, n);
            }
            kani::cover!(r.is_ok(), "transition taken with a one-entry selector");
            core::mem::forget(r);
            core::mem::forget(st);
            core::mem::forget(msg);
        }
    };
}
// bound: leios-fetch, the two transitions that clone / drop a Bitmaps selector, with a one-entry BTreeMap {k: v}, k any u16, v any u64, other payloads one element; unwind 4
lf_bitmap1!(c24_t_leiosfetch_bitmap1_request, 0, 2);
lf_bitmap1!(c24_x_leiosfetch_bitmap1_blocktxs, 4, 3);

// ---------------------------------------------------------------------------------------------
// handshake (HashMap-free part): Accept / Refuse messages
// ---------------------------------------------------------------------------------------------
pub mod hs {
    use super::*;
    pub use proto::handshake::n2n::VersionData;
    pub use proto::handshake::{DoneState, RefuseReason, VersionTable};
    pub type Message = proto::handshake::Message<VersionData>;
    pub type State = proto::handshake::State<VersionData>;

    pub fn any_data() -> VersionData {
        let ps: Option<u8> = if kani::any() { Some(kani::any()) } else { None };
        let q: Option<bool> = if kani::any() { Some(kani::any()) } else { None };
        VersionData::new(kani::any(), kani::any(), ps, q)
    }

    pub fn eq_data(a: &VersionData, b: &VersionData) -> bool {
        a.network_magic == b.network_magic
            && a.initiator_only_diffusion_mode == b.initiator_only_diffusion_mode
            && a.peer_sharing == b.peer_sharing
            && a.query == b.query
    }

    /// reason kinds: 0 VersionMismatch(0..1 versions), 1 HandshakeDecodeError(n, ""), 2 Refused(n, "")
    pub fn reason_k(k: u8) -> RefuseReason {
        match k {
            0 => RefuseReason::VersionMismatch(if vlen() == 0 { Vec::new() } else { vec![kani::any()] }),
            1 => RefuseReason::HandshakeDecodeError(kani::any(), String::new()),
            _ => RefuseReason::Refused(kani::any(), String::new()),
        }
    }

    pub fn eq_reason(a: &RefuseReason, b: &RefuseReason) -> bool {
        match (a, b) {
            (RefuseReason::VersionMismatch(v), RefuseReason::VersionMismatch(w)) => v.len() == w.len() && (v.len() == 0 || (v.len() == 1 && v[0] == w[0])),
            (RefuseReason::HandshakeDecodeError(n, s), RefuseReason::HandshakeDecodeError(m, t)) => *n == *m && s.len() == t.len(),
            (RefuseReason::Refused(n, s), RefuseReason::Refused(m, t)) => *n == *m && s.len() == t.len(),
            _ => false,
        }
    }

    /// message kinds: 0 Accept, 1..=3 Refuse(reason kind - 1)
    pub fn msg_k(k: u8) -> Message {
        match k {
            0 => Message::Accept(kani::any(), any_data()),
            j => Message::Refuse(reason_k(j - 1)),
        }
    }

    /// Confirm holding an empty proposed table. `RandomState::new()` reaches getrandom/futex; a fixed key pair is as
    /// good for a map that is never hashed into (apply never reads the table).
    pub fn confirm_empty() -> State {
        use std::collections::hash_map::RandomState;
        use std::collections::HashMap;
        let rs: RandomState = unsafe { core::mem::transmute::<[u64; 2], RandomState>([0u64; 2]) };
        State::Confirm(VersionTable { values: HashMap::with_hasher(rs) })
    }
}

/// handshake: Accept / Refuse are refused in Propose (client agency) and in Done
/// bound: state in {Propose, Done(Accepted(n, data)), Done(Rejected(reason))} x message Accept(any version, any n2n VersionData) or Refuse(VersionMismatch(0..1 versions) | HandshakeDecodeError(n, "") | Refused(n, "")); unwind 3
#[kani::proof]
#[kani::unwind(3)]
fn c24_q_handshake_noagency() {
    any_vlen();
    let k = any_kind(0, 3);
    let st: hs::State = match k {
        0 => hs::State::Propose,
        1 => hs::State::Done(hs::DoneState::Accepted(kani::any(), hs::any_data())),
        _ => hs::State::Done(hs::DoneState::Rejected(hs::reason_k(any_kind(0, 3)))),
    };
    let msg = hs::msg_k(any_kind(0, 4));
    let r = st.apply(&msg);
    assert!(r.is_err(), "spec: server messages are refused in Propose (client agency) and Done accepts nothing");
    kani::cover!(matches!(&st, hs::State::Propose) && matches!(&msg, hs::Message::Accept(..)), "Accept in Propose reached");
    kani::cover!(matches!(&st, hs::State::Done(_)) && matches!(&msg, hs::Message::Refuse(_)), "Refuse in Done reached");
    core::mem::forget(r);
    core::mem::forget(st);
    core::mem::forget(msg);
}

macro_rules! hs_confirm {
    ($name:ident, $lo:expr, $hi:expr) => {
        #[kani::proof]
        #[kani::unwind(3)]
        fn $name() {
            any_vlen();
            let st = hs::confirm_empty();
            let msg = hs::msg_k(any_kind($lo, $hi));
            let r = st.apply(&msg);
            assert!(r.is_ok(), "spec: Confirm accepts AcceptVersion and Refuse");
            if let Ok(n) = &r {
                match (&msg, n) {
                    (hs::Message::Accept(v, d), hs::State::Done(hs::DoneState::Accepted(v2, d2))) => {
                        assert!(*v == *v2 && hs::eq_data(d, d2), "Done carries the accepted version and data")
                    }
                    (hs::Message::Refuse(x), hs::State::Done(hs::DoneState::Rejected(y))) => assert!(hs::eq_reason(x, y), "Done carries the refuse reason"),
                    _ => assert!(false, "next state is Done with the prescribed payload"),
                }
            }
            kani::cover!(r.is_ok(), "transition taken");
            core::mem::forget(r);
            core::mem::forget(st);
            core::mem::forget(msg);
        }
    };
}
// assume: handshake: the proposed version table held by Confirm is empty (apply never reads it)
// bound: handshake: state Confirm(empty version table built with HashMap::with_hasher on a fixed RandomState, never hashed into) x message Accept(any version, any n2n VersionData) resp. Refuse(any of the 3 reason kinds, 0..1 versions, empty text): Done(Accepted/Rejected) carries the received data; unwind 3
hs_confirm!(c24_q_handshake_confirm_accept, 0, 1);
hs_confirm!(c24_q_handshake_confirm_refuse, 1, 4);

/// vacuity twin: must come back FAILED
#[kani::proof]
#[kani::unwind(2)]
fn c24_v_twin() {
    let st = ka::state_k(any_kind(0, ka::N_STATE));
    let msg = ka::msg_k(any_kind(0, ka::N_MSG));
    let r = st.apply(&msg);
    assert!(r.is_ok(), "twin: must fail");
    core::mem::forget(r);
}
