#![allow(unused)]
//! Kani harnesses over pallas-network2 (C24, C22, C21, C09 network part).
#[cfg(kani)]
mod stubs;
#[cfg(kani)]
mod cborwf;
#[cfg(kani)]
mod c24;
#[cfg(kani)]
mod c22;
#[cfg(kani)]
mod c21h;
#[cfg(kani)]
mod c09;
