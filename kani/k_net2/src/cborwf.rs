//! Strict, bounded, iterative CBOR well-formedness walker (RFC 8949 appendix C "well-formed" as a generic decoder sees it).
//! Same file in k_net and k_net2. No recursion, no allocation: explicit stack of open containers.
//!
//! `walk(b, n, steps)` reads ONE data item from `b[..n]` starting at offset 0 and returns `Some(end)` iff the
//! item is well-formed: every head is complete, every definite array / map / tag has exactly its declared number
//! of children, every indefinite array / map is closed by a break (maps with an even number of children), no break
//! anywhere else, byte / text strings lie inside `b[..n]`, reserved additional-information values 28..30 do not occur,
//! two-byte simple values are >= 32. `None` otherwise, or if the item has more than `steps` heads or nests deeper
//! than `DEPTH` (bounds of the walker, chosen per harness so that the encoded message fits).
//! Indefinite-length *strings* are rejected (no encoder under test emits them).

pub const DEPTH: usize = 6;
const INDEF_ARR: u64 = u64::MAX;
const INDEF_MAP_EVEN: u64 = u64::MAX - 1;
const INDEF_MAP_ODD: u64 = u64::MAX - 2;

pub fn walk(b: &[u8], n: usize, steps: usize) -> Option<usize> {
    if n > b.len() {
        return None;
    }
    // remaining children of each open container (or an INDEF_* marker)
    let mut stack = [0u64; DEPTH];
    let mut sp: usize = 0;
    let mut pos: usize = 0;
    let mut step = 0;
    while step < steps {
        step += 1;
        if pos >= n {
            return None;
        }
        let ib = b[pos];
        pos += 1;
        let major = ib >> 5;
        let ai = ib & 0x1f;
        // does this head complete an item (leaf, empty container or break closing a container)?
        let mut complete = false;
        if ib == 0xff {
            // break: only directly inside an indefinite container, maps only after an even number of children
            if sp == 0 {
                return None;
            }
            let top = stack[sp - 1];
            if top == INDEF_ARR || top == INDEF_MAP_EVEN {
                sp -= 1;
                complete = true;
            } else {
                return None;
            }
        } else {
            // argument
            let mut arg: u64 = 0;
            let mut indef = false;
            if ai < 24 {
                arg = ai as u64;
            } else if ai == 31 {
                indef = true;
            } else if ai >= 28 {
                return None;
            } else {
                let k: usize = 1usize << (ai - 24); // 1, 2, 4, 8 bytes
                if pos + k > n {
                    return None;
                }
                let mut i = 0;
                while i < 8 {
                    if i < k {
                        arg = (arg << 8) | (b[pos + i] as u64);
                    }
                    i += 1;
                }
                pos += k;
            }
            match major {
                0 | 1 => {
                    if indef {
                        return None;
                    }
                    complete = true;
                }
                2 | 3 => {
                    if indef {
                        return None;
                    }
                    if arg > (n - pos) as u64 {
                        return None;
                    }
                    pos += arg as usize;
                    complete = true;
                }
                4 | 5 => {
                    if !indef && arg == 0 {
                        complete = true;
                    } else {
                        if sp == DEPTH {
                            return None;
                        }
                        stack[sp] = if indef {
                            if major == 4 {
                                INDEF_ARR
                            } else {
                                INDEF_MAP_EVEN
                            }
                        } else if major == 4 {
                            arg
                        } else {
                            if arg > (u64::MAX >> 2) {
                                return None;
                            }
                            2 * arg
                        };
                        sp += 1;
                    }
                }
                6 => {
                    if indef {
                        return None;
                    }
                    if sp == DEPTH {
                        return None;
                    }
                    stack[sp] = 1;
                    sp += 1;
                }
                _ => {
                    // major 7: simple values and floats; the argument bytes were consumed above
                    if indef {
                        return None; // 0xff handled above
                    }
                    if ai == 24 && arg < 32 {
                        return None;
                    }
                    complete = true;
                }
            }
        }
        // propagate completion upwards
        let mut lvl = 0;
        while lvl <= DEPTH {
            if !complete {
                break;
            }
            if sp == 0 {
                return Some(pos);
            }
            let top = stack[sp - 1];
            if top == INDEF_ARR {
                complete = false;
            } else if top == INDEF_MAP_EVEN {
                stack[sp - 1] = INDEF_MAP_ODD;
                complete = false;
            } else if top == INDEF_MAP_ODD {
                stack[sp - 1] = INDEF_MAP_EVEN;
                complete = false;
            } else if top == 1 {
                sp -= 1; // container full: it completes an item of its parent
            } else {
                stack[sp - 1] = top - 1;
                complete = false;
            }
            lvl += 1;
        }
    }
    None
}
