//! C10: hash values (CBOR / hex), the byte streams the Hasher hands to Blake2b, nonce compositions.
//! fn: pallas_crypto::hash::Hash::<N> minicbor Decode / Encode (N = 28, 32), FromStr (N = 2)
//! fn: pallas_crypto::hash::Hasher::<256|224>::{new,input,finalize,hash,hash_tagged,hash_cbor,hash_tagged_cbor} and its minicbor Write impl
//! fn: pallas_crypto::nonce::{generate_epoch_nonce,generate_rolling_nonce}
//! stub: cryptoxide::blake2b::Blake2b::new, <Blake2b as Digest>::input, <Blake2b as Digest>::result -> stream probe: the "digest" is (stream length, stream[J0], stream[J1], output size) for two harness-global symbolic positions J0, J1; two digests agree for every J0, J1 iff the byte streams fed to the two hashers (and, one nesting level down, to the hashers whose digests were fed in) are identical. Only on the *_stream_* / *_nonce_* harnesses.
//! outside: "the digest equals RFC 7693 Blake2b of the stream" (cryptoxide is trusted; a one-block symbolic Blake2b compression exhausted goto-instrument at 24 GB); streams longer than the stated bounds; serde (hex) impl in hash/serde.rs; the Display (hex::encode -> String) leg: attempted for Hash<2> (to_string then from_str), CBMC ran out of memory (16 GB) in array post-processing, so only FromStr is decided
//! assume: stream equalities are asserted as digest equalities between the function under test and a one-shot Hasher::hash of the hand-concatenated stream, which is also true natively
use pallas_codec::minicbor;
use pallas_crypto::hash::{Hash, Hasher};
use pallas_crypto::nonce::{generate_epoch_nonce, generate_rolling_nonce};

fn w64(b: &[u8], o: usize) -> u64 {
    u64::from_le_bytes([b[o], b[o + 1], b[o + 2], b[o + 3], b[o + 4], b[o + 5], b[o + 6], b[o + 7]])
}
fn eq32(a: &Hash<32>, b: &Hash<32>) -> bool {
    let (a, b): (&[u8], &[u8]) = (a.as_ref(), b.as_ref());
    w64(a, 0) == w64(b, 0) && w64(a, 8) == w64(b, 8) && w64(a, 16) == w64(b, 16) && w64(a, 24) == w64(b, 24)
}
fn eq28(a: &Hash<28>, b: &Hash<28>) -> bool {
    let (a, b): (&[u8], &[u8]) = (a.as_ref(), b.as_ref());
    w64(a, 0) == w64(b, 0) && w64(a, 8) == w64(b, 8) && w64(a, 16) == w64(b, 16) && w64(a, 20) == w64(b, 20)
}

// ---------------------------------------------------------------------------------------------
// Hash<N> CBOR
// ---------------------------------------------------------------------------------------------
macro_rules! cbor_len_head {
    ($name:ident, $n:expr) => {
        #[kani::proof]
        #[kani::unwind(4)]
        #[kani::stub(std::fmt::format, crate::stubs::fmt_format_stub)]
        fn $name() {
            const N: usize = $n;
            // 58 L payload[36]: one-byte length head with a symbolic length, 36 payload bytes available
            let l: u8 = kani::any();
            let p: [u8; 36] = kani::any();
            let mut b = [0u8; 38];
            b[0] = 0x58;
            b[1] = l;
            b[2..].copy_from_slice(&p);
            let r: Result<Hash<N>, _> = minicbor::decode(&b);
            assert!(r.is_ok() == (l as usize == N), "a byte string is accepted iff its length is N");
            if let Ok(h) = &r {
                let i: usize = kani::any();
                kani::assume(i < N);
                assert!(h.as_ref()[i] == p[i], "the hash is the content of the byte string");
            }
            kani::cover!(r.is_ok(), "accepted");
            kani::cover!(l as usize == N + 1, "one byte too long");
            kani::cover!(l as usize == N - 1, "one byte too short");
            kani::cover!(l > 36, "length beyond the input");
            core::mem::forget(r);
        }
    };
}
// bound: buffer 58 L p[36] with L symbolic 0..=255 and p symbolic (every byte-string length 0..=36, and lengths past the end of input); N = 28, 32; unwind 4
cbor_len_head!(c10_q_cbor_len_head_28, 28);
cbor_len_head!(c10_q_cbor_len_head_32, 32);

macro_rules! cbor_arbitrary {
    ($name:ident, $n:expr) => {
        #[kani::proof]
        #[kani::unwind(4)]
        #[kani::stub(std::fmt::format, crate::stubs::fmt_format_stub)]
        fn $name() {
            const N: usize = $n;
            let b: [u8; 36] = kani::any();
            let r: Result<Hash<N>, _> = minicbor::decode(&b);
            if let Ok(h) = &r {
                // the only definite-length byte-string heads that can announce N (< 256) bytes
                let off = if b[0] == 0x58 && b[1] as usize == N {
                    2
                } else if b[0] == 0x59 && b[1] == 0 && b[2] as usize == N {
                    3
                } else if b[0] == 0x5a && b[1] == 0 && b[2] == 0 && b[3] == 0 && b[4] as usize == N {
                    5
                } else {
                    0
                };
                assert!(off != 0, "only an N-byte byte string is accepted");
                assert!(off + N <= 36, "the string lies inside the input");
                let i: usize = kani::any();
                kani::assume(i < N);
                assert!(h.as_ref()[i] == b[off + i], "the hash is the content of the byte string");
            }
            kani::cover!(r.is_ok(), "accepted");
            kani::cover!(r.is_ok() && b[0] == 0x59, "accepted with a two-byte length head");
            kani::cover!(r.is_err() && b[0] == 0x58, "a byte string rejected");
            core::mem::forget(r);
        }
    };
}
// bound: 36 arbitrary bytes (first byte symbolic as well: every major type / head form); N = 28, 32; unwind 4
cbor_arbitrary!(c10_t_cbor_arbitrary36_28, 28);
cbor_arbitrary!(c10_t_cbor_arbitrary36_32, 32);

macro_rules! cbor_roundtrip {
    ($name:ident, $n:expr) => {
        #[kani::proof]
        #[kani::unwind(4)]
        #[kani::stub(std::fmt::format, crate::stubs::fmt_format_stub)]
        fn $name() {
            const N: usize = $n;
            let p: [u8; N] = kani::any();
            let h = Hash::<N>::new(p);
            let mut buf = [0u8; N + 2];
            let er = minicbor::encode(&h, &mut buf[..]);
            assert!(er.is_ok(), "encoding into an (N+2)-byte slice succeeds");
            assert!(buf[0] == 0x58 && buf[1] as usize == N, "definite byte string head of length N");
            let r: Result<Hash<N>, _> = minicbor::decode(&buf);
            assert!(r.is_ok(), "own encoding decodes");
            if let Ok(h2) = &r {
                let i: usize = kani::any();
                kani::assume(i < N);
                assert!(h2.as_ref()[i] == p[i] && buf[2 + i] == p[i], "bytes survive");
                kani::cover!(i == N - 1, "last byte compared");
            }
            core::mem::forget(r);
            core::mem::forget(er);
        }
    };
}
// bound: Hash<N> with N symbolic bytes -> minicbor::encode into a slice -> decode; N = 28, 32; unwind 4
cbor_roundtrip!(c10_q_cbor_roundtrip_28, 28);
cbor_roundtrip!(c10_q_cbor_roundtrip_32, 32);

// ---------------------------------------------------------------------------------------------
// hex (same generic code for every N; N = 2 instantiation)
// ---------------------------------------------------------------------------------------------
/// bound: FromStr on 4 symbolic hex digits (either case) / wrong lengths 2 and 6; unwind 8
#[kani::proof]
#[kani::unwind(8)]
#[kani::stub(std::fmt::format, crate::stubs::fmt_format_stub)]
fn c10_q_hex_fromstr_2() {
    use std::str::FromStr;
    let v: [u8; 4] = kani::any(); // nibble values
    let up: [bool; 4] = kani::any();
    kani::assume(v[0] < 16 && v[1] < 16 && v[2] < 16 && v[3] < 16);
    let ch = |x: u8, u: bool| -> u8 {
        if x < 10 {
            b'0' + x
        } else if u {
            b'A' + (x - 10)
        } else {
            b'a' + (x - 10)
        }
    };
    let txt = [ch(v[0], up[0]), ch(v[1], up[1]), ch(v[2], up[2]), ch(v[3], up[3]), b'0', b'0'];
    // ASCII by construction
    let s4 = unsafe { core::str::from_utf8_unchecked(&txt[..4]) };
    let r = Hash::<2>::from_str(s4);
    assert!(
        matches!(&r, Ok(h) if h.as_ref()[0] == (v[0] << 4 | v[1]) && h.as_ref()[1] == (v[2] << 4 | v[3])),
        "four hex digits parse to the two bytes they denote"
    );
    core::mem::forget(r);
    let s2 = unsafe { core::str::from_utf8_unchecked(&txt[..2]) };
    let r = Hash::<2>::from_str(s2);
    assert!(r.is_err(), "too short a string is rejected");
    core::mem::forget(r);
    let s6 = unsafe { core::str::from_utf8_unchecked(&txt[..6]) };
    let r = Hash::<2>::from_str(s6);
    assert!(r.is_err(), "too long a string is rejected");
    core::mem::forget(r);
    kani::cover!(up[0] && v[0] == 15, "upper-case digit");
}

// ---------------------------------------------------------------------------------------------
// stream probe stubs for cryptoxide's Blake2b
// ---------------------------------------------------------------------------------------------
pub mod probe {
    use cryptoxide::blake2b::Blake2b;

    /// probe positions; set once per harness to symbolic values
    pub static mut J0: usize = 0;
    pub static mut J1: usize = 0;

    #[repr(C)]
    struct Rec {
        outlen: u64,
        len: u64,
        b0: u64, // 0x100 | byte once the stream has passed position J0
        b1: u64,
    }

    /// the record lives inside the Blake2b value itself (words 1..5), so it moves with it
    fn rec(this: &mut Blake2b) -> &mut Rec {
        assert!(core::mem::size_of::<Blake2b>() >= 48 && core::mem::align_of::<Blake2b>() >= 8);
        unsafe { &mut *((this as *mut Blake2b as *mut u64).add(1) as *mut Rec) }
    }

    pub fn new(outlen: usize) -> Blake2b {
        let mut b: Blake2b = unsafe { core::mem::zeroed() };
        let r = rec(&mut b);
        r.outlen = outlen as u64;
        r.len = 0;
        r.b0 = 0;
        r.b1 = 0;
        b
    }

    pub fn input(this: &mut Blake2b, data: &[u8]) {
        let (j0, j1) = unsafe { (J0, J1) };
        let r = rec(this);
        let l = r.len as usize;
        if j0 >= l && j0 - l < data.len() {
            r.b0 = 0x100 | data[j0 - l] as u64;
        }
        if j1 >= l && j1 - l < data.len() {
            r.b1 = 0x100 | data[j1 - l] as u64;
        }
        r.len += data.len() as u64;
    }

    pub fn result(this: &mut Blake2b, out: &mut [u8]) {
        let r = rec(this);
        assert!(out.len() as u64 == r.outlen && out.len() >= 8, "probe: digest buffer has the size the hasher was created with");
        out[0] = r.len as u8;
        out[1] = (r.len >> 8) as u8;
        out[2] = r.b0 as u8;
        out[3] = (r.b0 >> 8) as u8;
        out[4] = r.b1 as u8;
        out[5] = (r.b1 >> 8) as u8;
        out[6] = r.outlen as u8;
        out[7] = 0x5a;
    }
}

fn set_probes() {
    let (j0, j1): (usize, usize) = (kani::any(), kani::any());
    kani::assume(j0 < 256 && j1 < 256);
    unsafe {
        probe::J0 = j0;
        probe::J1 = j1;
    }
}

macro_rules! stream_harness {
    ($(#[$m:meta])* fn $name:ident() $body:block) => {
        $(#[$m])*
        #[kani::proof]
        #[kani::unwind(4)]
        #[kani::stub(std::fmt::format, crate::stubs::fmt_format_stub)]
        #[kani::stub(pallas_codec::minicbor::encode::Error::write, crate::stubs::mcb_write_err_stub)]
        #[kani::stub(cryptoxide::blake2b::Blake2b::new, crate::c10::probe::new)]
        #[kani::stub(<cryptoxide::blake2b::Blake2b as cryptoxide::digest::Digest>::input, crate::c10::probe::input)]
        #[kani::stub(<cryptoxide::blake2b::Blake2b as cryptoxide::digest::Digest>::result, crate::c10::probe::result)]
        fn $name() {
            set_probes();
            $body
        }
    };
}

stream_harness! {
    /// hash_tagged(b, t) feeds t then b; Hasher::input chunks concatenate
    /// bound: payload 8 symbolic bytes, every tag byte, split point symbolic 0..=8, Hasher<256> and Hasher<224>; probe stubs; unwind 4
    fn c10_q_stream_tagged_and_split() {
        let p: [u8; 8] = kani::any();
        let t: u8 = kani::any();
        let cat = [t, p[0], p[1], p[2], p[3], p[4], p[5], p[6], p[7]];
        let want = Hasher::<256>::hash(&cat);
        let got = Hasher::<256>::hash_tagged(&p, t);
        assert!(eq32(&got, &want), "hash_tagged(b, t) == hash(t || b) [256]");
        let want224 = Hasher::<224>::hash(&cat);
        let got224 = Hasher::<224>::hash_tagged(&p, t);
        assert!(eq28(&got224, &want224), "hash_tagged(b, t) == hash(t || b) [224]");
        // split independence of the streaming interface
        let k: usize = kani::any();
        kani::assume(k <= 9);
        let mut h = Hasher::<256>::new();
        h.input(&cat[..k]);
        h.input(&cat[k..]);
        let split = h.finalize();
        assert!(eq32(&split, &want), "input(a); input(b) == input(a || b)");
        kani::cover!(k == 0, "empty first chunk");
        kani::cover!(k == 4 && unsafe { probe::J0 } == 5, "probe in the second chunk");
    }
}

stream_harness! {
    /// bound: value = Hash<8> with symbolic bytes (CBOR 48 || 8 bytes: head and body are separate writes), every tag byte; probe stubs; unwind 4
    fn c10_q_stream_cbor() {
        let p: [u8; 8] = kani::any();
        let t: u8 = kani::any();
        let x = Hash::<8>::new(p);
        let mut enc = [0u8; 9];
        let er = minicbor::encode(&x, &mut enc[..]);
        assert!(er.is_ok() && enc[0] == 0x48, "reference encoding");
        core::mem::forget(er);
        let want = Hasher::<256>::hash(&enc);
        let got = Hasher::<256>::hash_cbor(&x);
        assert!(eq32(&got, &want), "hash_cbor(x) == hash(cbor(x))");
        let cat = [t, enc[0], enc[1], enc[2], enc[3], enc[4], enc[5], enc[6], enc[7], enc[8]];
        let want_t = Hasher::<256>::hash(&cat);
        let got_t = Hasher::<256>::hash_tagged_cbor(&x, t);
        assert!(eq32(&got_t, &want_t), "hash_tagged_cbor(x, t) == hash(t || cbor(x))");
        let got224 = Hasher::<224>::hash_tagged_cbor(&x, t);
        let want224 = Hasher::<224>::hash(&cat);
        assert!(eq28(&got224, &want224), "hash_tagged_cbor(x, t) == hash(t || cbor(x)) [224]");
        kani::cover!(unsafe { probe::J0 } == 9, "probe on the last byte");
    }
}

fn cat64(a: &[u8], b: &[u8]) -> [u8; 64] {
    let mut o = [0u8; 64];
    o[..32].copy_from_slice(a);
    o[32..].copy_from_slice(b);
    o
}

stream_harness! {
    /// bound: nc, nh symbolic 32-byte values; without extra entropy and with 8 symbolic bytes of it; probe stubs; unwind 4
    fn c10_q_nonce_epoch() {
        let nc: [u8; 32] = kani::any();
        let nh: [u8; 32] = kani::any();
        let inner = Hasher::<256>::hash(&cat64(&nc, &nh));
        let got = generate_epoch_nonce(Hash::new(nc), Hash::new(nh), None);
        assert!(eq32(&got, &inner), "epoch nonce == H(nc || nh)");
        let extra: [u8; 8] = kani::any();
        let mut outer = [0u8; 40];
        outer[..32].copy_from_slice(inner.as_ref());
        outer[32..].copy_from_slice(&extra);
        let want = Hasher::<256>::hash(&outer);
        let got = generate_epoch_nonce(Hash::new(nc), Hash::new(nh), Some(&extra));
        assert!(eq32(&got, &want), "epoch nonce with entropy == H(H(nc || nh) || extra)");
        kani::cover!(unsafe { probe::J0 == 4 && probe::J1 == 40 }, "outer probe on the inner digest, inner probe in nh");
    }
}

stream_harness! {
    /// bound: previous nonce 32 symbolic bytes, VRF output of 32 and of 64 symbolic bytes; probe stubs; unwind 4
    fn c10_q_nonce_rolling() {
        let prev: [u8; 32] = kani::any();
        let vrf: [u8; 64] = kani::any();
        let hv = Hasher::<256>::hash(&vrf);
        let want = Hasher::<256>::hash(&cat64(&prev, hv.as_ref()));
        let got = generate_rolling_nonce(Hash::new(prev), &vrf);
        assert!(eq32(&got, &want), "rolling nonce == H(prev || H(vrf)) [64-byte vrf]");
        let hv = Hasher::<256>::hash(&vrf[..32]);
        let want = Hasher::<256>::hash(&cat64(&prev, hv.as_ref()));
        let got = generate_rolling_nonce(Hash::new(prev), &vrf[..32]);
        assert!(eq32(&got, &want), "rolling nonce == H(prev || H(vrf)) [32-byte vrf]");
        kani::cover!(unsafe { probe::J0 == 36 && probe::J1 == 63 }, "outer probe on H(vrf), inner probe on the last vrf byte");
    }
}

stream_harness! {
    /// the documented length assertion: a VRF output length other than 32 / 64 panics (should_panic: the assertion is reached and no other check fails)
    /// bound: slice of symbolic length 0..=70 other than 32 and 64; probe stubs (without them goto-instrument needs > 48 GB for the linked-in real Blake2b); unwind 4
    #[kani::should_panic]
    fn c10_q_nonce_rolling_bad_len_panics() {
        let prev: [u8; 32] = kani::any();
        let vrf: [u8; 70] = kani::any();
        let n: usize = kani::any();
        kani::assume(n <= 70 && n != 32 && n != 64);
        let r = generate_rolling_nonce(Hash::new(prev), &vrf[..n]);
        core::mem::forget(r);
    }
}

stream_harness! {
    /// vacuity twin: must come back FAILED
    fn c10_v_twin() {
        let p: [u8; 8] = kani::any();
        let t: u8 = kani::any();
        let got = Hasher::<256>::hash_tagged(&p, t);
        let want = Hasher::<256>::hash(&p);
        assert!(eq32(&got, &want), "twin: must fail");
    }
}
