//! C12 (byte-layout part only): KES signature (de)serialisation, key-buffer length checks, period word, exhausted keys.
//! fn: pallas_crypto::kes::summed_kes::Sum{1..7}KesSig::{from_bytes,to_bytes,SIZE} (and Sum0KesSig underneath)
//! fn: pallas_crypto::kes::summed_kes::Sum{1..7}Kes::{from_bytes,get_period,update,as_bytes,SIZE} (update only at the last period: update_slice's first test)
//! stub: std::fmt::format -> empty String
//! stub: cryptoxide Blake2b::{new,input,result} -> the C10 stream probe, on the key_last_period harnesses only: the hashing code is statically linked into update_slice's other arms (never executed at the last period) and the real compression function exhausts goto-instrument (> 28 GB)
//! outside: everything that runs ed25519-dalek or Blake2b on symbolic data: keygen, sign, verify at / off the signing period, public-key stability, successful update() (periods below 2^d - 1), to_pk, and the whole compact variant (Sum*CompactKesSig::from_bytes decompresses an Edwards point). dalek types have private fields and cannot be stubbed. This is most of the property.
//! outside: key buffers whose period word is >= 2^d (not producible by keygen/update; from_bytes does not validate the word, and update() on 0xFFFFFFFF overflows `period + 1`)
use pallas_crypto::kes::errors::Error;
use pallas_crypto::kes::summed_kes::*;
use pallas_crypto::kes::traits::KesSk;

macro_rules! sig_roundtrip {
    ($name:ident, $sig:ident, $depth:expr) => {
        #[kani::proof]
        #[kani::unwind(3)]
        #[kani::stub(std::fmt::format, crate::stubs::fmt_format_stub)]
        fn $name() {
            const SIZE: usize = 64 + $depth * 64;
            assert!($sig::SIZE == SIZE, "signature size is 64 + depth * 64");
            let b: [u8; SIZE] = kani::any();
            let r = $sig::from_bytes(&b);
            assert!(r.is_ok(), "every byte string of the right size is a signature (layout only)");
            if let Ok(s) = &r {
                let out = s.to_bytes();
                let i: usize = kani::any();
                kani::assume(i < SIZE);
                assert!(out[i] == b[i], "to_bytes(from_bytes(b)) == b");
                kani::cover!(i == SIZE - 1, "last byte compared");
                kani::cover!(i == 0, "first byte compared");
            }
            core::mem::forget(r);
        }
    };
}
// bound: SIZE symbolic bytes (128 .. 512), compared at a symbolic index; depth 1..=7; unwind 3
sig_roundtrip!(c12_q_sig_roundtrip_1, Sum1KesSig, 1);
sig_roundtrip!(c12_q_sig_roundtrip_2, Sum2KesSig, 2);
sig_roundtrip!(c12_t_sig_roundtrip_3, Sum3KesSig, 3);
sig_roundtrip!(c12_t_sig_roundtrip_4, Sum4KesSig, 4);
sig_roundtrip!(c12_t_sig_roundtrip_5, Sum5KesSig, 5);
sig_roundtrip!(c12_t_sig_roundtrip_6, Sum6KesSig, 6);
sig_roundtrip!(c12_t_sig_roundtrip_7, Sum7KesSig, 7);

macro_rules! sig_len {
    ($name:ident, $sig:ident, $depth:expr) => {
        #[kani::proof]
        #[kani::unwind(3)]
        #[kani::stub(std::fmt::format, crate::stubs::fmt_format_stub)]
        fn $name() {
            const SIZE: usize = 64 + $depth * 64;
            let b: [u8; SIZE + 2] = kani::any();
            let r = $sig::from_bytes(&b[..SIZE - 1]);
            assert!(matches!(&r, Err(Error::InvalidSignatureSize(n)) if *n == SIZE - 1), "one byte short is rejected");
            core::mem::forget(r);
            let r = $sig::from_bytes(&b[..SIZE + 1]);
            assert!(matches!(&r, Err(Error::InvalidSignatureSize(n)) if *n == SIZE + 1), "one byte long is rejected");
            core::mem::forget(r);
            let r = $sig::from_bytes(&b[..0]);
            assert!(r.is_err(), "empty input is rejected");
            core::mem::forget(r);
            // the size of the next smaller / larger depth
            let r = $sig::from_bytes(&b[..SIZE - 64]);
            assert!(r.is_err(), "a signature of depth - 1 is rejected");
            core::mem::forget(r);
            let r = $sig::from_bytes(&b[..SIZE]);
            kani::cover!(r.is_ok(), "exact size accepted");
            core::mem::forget(r);
        }
    };
}
// bound: lengths SIZE-64, SIZE-1, SIZE, SIZE+1, 0 over symbolic bytes; depth 1..=7; unwind 3
sig_len!(c12_q_sig_len_1, Sum1KesSig, 1);
sig_len!(c12_t_sig_len_2, Sum2KesSig, 2);
sig_len!(c12_t_sig_len_3, Sum3KesSig, 3);
sig_len!(c12_t_sig_len_4, Sum4KesSig, 4);
sig_len!(c12_t_sig_len_5, Sum5KesSig, 5);
sig_len!(c12_q_sig_len_6, Sum6KesSig, 6);
sig_len!(c12_t_sig_len_7, Sum7KesSig, 7);

macro_rules! key_last_period {
    ($name:ident, $sk:ident, $depth:expr) => {
        #[kani::proof]
        #[kani::unwind(3)]
        #[kani::stub(std::fmt::format, crate::stubs::fmt_format_stub)]
        #[kani::stub(cryptoxide::blake2b::Blake2b::new, crate::c10::probe::new)]
        #[kani::stub(<cryptoxide::blake2b::Blake2b as cryptoxide::digest::Digest>::input, crate::c10::probe::input)]
        #[kani::stub(<cryptoxide::blake2b::Blake2b as cryptoxide::digest::Digest>::result, crate::c10::probe::result)]
        fn $name() {
            const SIZE: usize = 32 + $depth * 32 + $depth * 64;
            const LAST: u32 = (1u32 << $depth) - 1;
            assert!(<$sk as KesSk>::SIZE == SIZE, "key size is 32 + depth * 96");
            let orig: [u8; SIZE + 4] = {
                let mut b: [u8; SIZE + 4] = kani::any();
                let p = LAST.to_be_bytes();
                b[SIZE] = p[0];
                b[SIZE + 1] = p[1];
                b[SIZE + 2] = p[2];
                b[SIZE + 3] = p[3];
                b
            };
            let mut buf = orig;
            let r = $sk::from_bytes(&mut buf);
            assert!(r.is_ok(), "a buffer of SIZE + 4 bytes is a key");
            if let Ok(mut k) = r {
                assert!(k.get_period() == LAST, "get_period reads the trailing big-endian word");
                let u = k.update();
                assert!(matches!(&u, Err(Error::KeyCannotBeUpdatedMore)), "update at the last period 2^d - 1 fails with KeyCannotBeUpdatedMore");
                core::mem::forget(u);
                assert!(k.get_period() == LAST, "a failed update leaves the period unchanged");
                let i: usize = kani::any();
                kani::assume(i < SIZE + 4);
                let now = k.as_bytes();
                assert!(now.len() == SIZE + 4 && now[i] == orig[i], "a failed update leaves the key buffer unchanged");
                kani::cover!(i == 0, "first key byte compared");
                kani::cover!(i == SIZE - 1, "last key byte compared");
                // never drop: Drop zeroizes the buffer
                core::mem::forget(k);
            } else {
                core::mem::forget(r);
            }
        }
    };
}
// bound: key buffer of SIZE symbolic bytes + period word = 2^d - 1 (concrete), compared at a symbolic index; depth 1..=7; unwind 3
key_last_period!(c12_q_key_last_period_1, Sum1Kes, 1);
key_last_period!(c12_q_key_last_period_2, Sum2Kes, 2);
key_last_period!(c12_t_key_last_period_3, Sum3Kes, 3);
key_last_period!(c12_t_key_last_period_4, Sum4Kes, 4);
key_last_period!(c12_t_key_last_period_5, Sum5Kes, 5);
key_last_period!(c12_t_key_last_period_6, Sum6Kes, 6);
key_last_period!(c12_x_key_last_period_7, Sum7Kes, 7);

macro_rules! key_period_and_len {
    ($name:ident, $sk:ident, $depth:expr) => {
        #[kani::proof]
        #[kani::unwind(3)]
        #[kani::stub(std::fmt::format, crate::stubs::fmt_format_stub)]
        fn $name() {
            const SIZE: usize = 32 + $depth * 32 + $depth * 64;
            let mut b: [u8; SIZE + 6] = kani::any();
            let want = u32::from_be_bytes([b[SIZE], b[SIZE + 1], b[SIZE + 2], b[SIZE + 3]]);
            {
                let r = $sk::from_bytes(&mut b[..SIZE + 4]);
                assert!(r.is_ok(), "SIZE + 4 bytes are accepted");
                if let Ok(k) = r {
                    assert!(k.get_period() == want, "get_period reads the trailing big-endian word, any value");
                    kani::cover!(want == 0, "period 0");
                    kani::cover!(want == u32::MAX, "period word 0xffffffff");
                    core::mem::forget(k);
                } else {
                    core::mem::forget(r);
                }
            }
            {
                let r = $sk::from_bytes(&mut b[..SIZE + 3]);
                assert!(matches!(&r, Err(Error::InvalidSecretKeySize(n)) if *n == SIZE + 3), "one byte short is rejected");
                core::mem::forget(r);
            }
            {
                let r = $sk::from_bytes(&mut b[..SIZE + 5]);
                assert!(matches!(&r, Err(Error::InvalidSecretKeySize(n)) if *n == SIZE + 5), "one byte long is rejected");
                core::mem::forget(r);
            }
            {
                let r = $sk::from_bytes(&mut b[..SIZE]);
                assert!(r.is_err(), "a buffer without the period word is rejected");
                core::mem::forget(r);
            }
        }
    };
}
// bound: key buffer of symbolic bytes incl. a symbolic period word; lengths SIZE, SIZE+3, SIZE+4, SIZE+5; depth 1..=7; unwind 3
key_period_and_len!(c12_q_key_period_len_1, Sum1Kes, 1);
key_period_and_len!(c12_t_key_period_len_2, Sum2Kes, 2);
key_period_and_len!(c12_t_key_period_len_3, Sum3Kes, 3);
key_period_and_len!(c12_t_key_period_len_4, Sum4Kes, 4);
key_period_and_len!(c12_t_key_period_len_5, Sum5Kes, 5);
key_period_and_len!(c12_q_key_period_len_6, Sum6Kes, 6);
key_period_and_len!(c12_t_key_period_len_7, Sum7Kes, 7);

/// vacuity twin: must come back FAILED
#[kani::proof]
#[kani::unwind(3)]
#[kani::stub(std::fmt::format, crate::stubs::fmt_format_stub)]
fn c12_v_twin() {
    let b: [u8; 128] = kani::any();
    let r = Sum1KesSig::from_bytes(&b);
    assert!(r.is_err(), "twin: must fail");
    core::mem::forget(r);
}
