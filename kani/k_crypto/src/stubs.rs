//! Standard stub set (DESIGN.md 1.1). Copy of this file lives in every harness crate.
//!
//! usage on a harness:
//!   #[kani::stub(std::fmt::format, crate::stubs::fmt_format_stub)]
//!   #[kani::stub(cu, crate::stubs::catch_unwind_stub)]      // with `use std::panic::catch_unwind as cu;`
//!   #[kani::stub(pallas_codec::minicbor::encode::Error::write, crate::stubs::mcb_write_err_stub)]
use std::any::Any;
use std::panic::UnwindSafe;

/// `format!` output is never the subject of a property; building it explodes the formula.
pub fn fmt_format_stub(_args: core::fmt::Arguments<'_>) -> String {
    String::new()
}

/// Without this any reachable `tracing::...!` macro is a Kani compiler ICE.
pub fn catch_unwind_stub<F: FnOnce() -> R + UnwindSafe, R>(f: F) -> Result<R, Box<dyn Any + Send + 'static>> {
    Ok(f())
}

/// Without this every minicbor encode into Vec<u8> / Hasher is a Kani compiler ICE
/// (uninhabited `Error<Infallible>::Write`). Only the *kind* of a write error changes.
pub fn mcb_write_err_stub<E>(_e: E) -> pallas_codec::minicbor::encode::Error<E> {
    pallas_codec::minicbor::encode::Error::message("write")
}
