//! C14: constant-time comparisons agree with ordinary comparisons.
//! fn: pallas_crypto::memsec::memeq
//! fn: pallas_crypto::memsec::memcmp
//! outside: lengths above 16 bytes (the loop body is length-independent; longer inputs are not in the formula)
use pallas_crypto::memsec::{memcmp, memeq};

const N: usize = 8;
const NT: usize = 16;

fn body<const M: usize>() {
    let a: [u8; M] = kani::any();
    let b: [u8; M] = kani::any();
    let n: usize = kani::any();
    kani::assume(n >= 1 && n <= M);
    let eq = unsafe { memeq(a.as_ptr(), b.as_ptr(), n) };
    let ord = unsafe { memcmp(a.as_ptr(), b.as_ptr(), n) };
    // reference computed with an explicit bounded loop (no slice memcmp)
    let mut ref_ord = core::cmp::Ordering::Equal;
    let mut i = 0;
    while i < M {
        if i < n && ref_ord == core::cmp::Ordering::Equal {
            ref_ord = a[i].cmp(&b[i]);
        }
        i += 1;
    }
    assert!(eq == (ref_ord == core::cmp::Ordering::Equal), "memeq agrees with ==");
    assert!(ord == ref_ord, "memcmp agrees with lexicographic cmp");
    kani::cover!(eq && n == M, "equal full length");
    kani::cover!(ord == core::cmp::Ordering::Less && n > 1 && a[0] == b[0], "less decided after first byte");
    kani::cover!(ord == core::cmp::Ordering::Greater, "greater");
}

/// bound: two arrays of 8 symbolic bytes, symbolic compared length n in 1..=8, unwind 10
#[kani::proof]
#[kani::unwind(10)]
fn c14_q_memeq_memcmp_n8() {
    body::<N>();
}

/// bound: two arrays of 16 symbolic bytes, symbolic compared length n in 1..=16, unwind 18
#[kani::proof]
#[kani::unwind(18)]
fn c14_t_memeq_memcmp_n16() {
    body::<NT>();
}

/// documented: len == 0 panics (memeq)
/// bound: len = 0
#[kani::proof]
#[kani::unwind(2)]
#[kani::should_panic]
fn c14_q_len0_panics_eq() {
    let a: [u8; 1] = kani::any();
    let b: [u8; 1] = kani::any();
    let _ = unsafe { memeq(a.as_ptr(), b.as_ptr(), 0) };
}

/// vacuity twin: must come back FAILED
#[kani::proof]
#[kani::unwind(10)]
fn c14_v_twin() {
    let a: [u8; 2] = kani::any();
    let b: [u8; 2] = kani::any();
    let ord = unsafe { memcmp(a.as_ptr(), b.as_ptr(), 2) };
    assert!(ord == core::cmp::Ordering::Equal, "twin: must fail");
}

/// documented: len == 0 panics (memcmp)
/// bound: len = 0
#[kani::proof]
#[kani::unwind(2)]
#[kani::should_panic]
fn c14_q_len0_panics_cmp() {
    let a: [u8; 1] = kani::any();
    let b: [u8; 1] = kani::any();
    let _ = unsafe { memcmp(a.as_ptr(), b.as_ptr(), 0) };
}

/// the per-byte accumulator step of memcmp, for every accumulator value a previous byte can
/// leave (-255..=255) and every byte difference: two-byte inputs drive the step through all
/// (res, diff) pairs; result must be the sign of the most significant differing byte.
/// bound: 2 bytes each side (all 2^32 pairs), unwind 4
#[kani::proof]
#[kani::unwind(4)]
fn c14_q_step_all_pairs() {
    let a: [u8; 2] = kani::any();
    let b: [u8; 2] = kani::any();
    let ord = unsafe { memcmp(a.as_ptr(), b.as_ptr(), 2) };
    let want = if a[0] != b[0] { a[0].cmp(&b[0]) } else { a[1].cmp(&b[1]) };
    assert!(ord == want, "memcmp step: first differing byte decides");
    kani::cover!(a[0] == b[0] && a[1] > b[1], "second byte decides");
    kani::cover!(a[0] < b[0] && a[1] > b[1], "first byte overrides a later opposite difference");
}
