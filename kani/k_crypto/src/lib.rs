#![allow(unused)]
//! Kani harnesses over pallas-crypto (C10, C11, C12, C14).
#[cfg(kani)]
mod stubs;
#[cfg(kani)]
mod c10;
#[cfg(kani)]
mod c11;
#[cfg(kani)]
mod c12;
#[cfg(kani)]
mod c14;
