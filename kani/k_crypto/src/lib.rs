#![allow(unused)]
//! Kani harnesses over pallas-crypto (C10, C11, C12, C14).
#[cfg(kani)]
mod c14;
