//! C11: Ed25519 wrappers (clamping check, length checks, plumbing of sign / verify).
//! fn: pallas_crypto::key::ed25519::SecretKeyExtended::{from_bytes,try_from,check_structure,public_key,sign,leak_into_bytes}
//! fn: pallas_crypto::key::ed25519::SecretKey::{from,public_key,sign}
//! fn: pallas_crypto::key::ed25519::PublicKey::{try_from(&[u8]),from([u8;32]),verify,as_ref}, Signature::{try_from(&[u8]),from([u8;64]),as_ref}
//! stub: cryptoxide::ed25519::{keypair,signature,signature_extended,extended_to_public,verify} -> deterministic toy scheme (pk = seed ^ 0xA5.., sig = pk || (len, msg) || 0..) satisfying verify(m, pk(sk), sig(m, sk)) and rejecting everything else; only on the c11_*_plumbing_* harnesses
//! outside: agreement of cryptoxide's Ed25519 with RFC 8032 (symbolic scalar multiplication and SHA-512 are not decidable here); messages longer than 4 bytes in the plumbing harnesses (the wrappers pass the slice through unchanged); hex FromStr / Display of keys and signatures
//! assume: the plumbing assertions are also true of real Ed25519 (sign-then-verify holds; a tampered message/key/signature verifies with negligible probability), so a counterexample replays natively
use pallas_crypto::key::ed25519::{PublicKey, SecretKey, SecretKeyExtended, Signature};
use std::convert::TryFrom;

fn w64(b: &[u8], o: usize) -> u64 {
    u64::from_le_bytes([b[o], b[o + 1], b[o + 2], b[o + 3], b[o + 4], b[o + 5], b[o + 6], b[o + 7]])
}

// ---------------------------------------------------------------------------------------------
// clamping bits: no stubs, all 2^512 inputs
// ---------------------------------------------------------------------------------------------
/// bound: every [u8; 64] (all 2^512 inputs); unwind 66 (the rejected candidate is scrubbed byte by byte on drop)
#[kani::proof]
#[kani::unwind(66)]
#[kani::stub(std::fmt::format, crate::stubs::fmt_format_stub)]
fn c11_q_extended_from_bytes_clamping() {
    let b: [u8; 64] = kani::any();
    let want = b[0] & 0b0000_0111 == 0 && b[31] & 0b0100_0000 != 0 && b[31] & 0b1000_0000 == 0;
    let r = SecretKeyExtended::from_bytes(b);
    assert!(r.is_ok() == want, "from_bytes accepts exactly the keys with the three low bits of byte 0 clear, bit 254 set, bit 255 clear");
    kani::cover!(r.is_ok(), "a clamped key is accepted");
    kani::cover!(r.is_err() && b[0] & 7 == 0 && b[31] & 0x80 == 0, "rejected only because bit 254 is clear");
    kani::cover!(r.is_err() && b[0] & 7 == 0 && b[31] & 0x40 != 0, "rejected only because bit 255 is set");
    kani::cover!(r.is_err() && b[31] & 0xc0 == 0x40, "rejected only because of the low bits of byte 0");
    core::mem::forget(r);
}

/// the TryFrom impl is the same check, and an accepted key holds exactly the given bytes
/// bound: every [u8; 64]; unwind 66
#[kani::proof]
#[kani::unwind(66)]
#[kani::stub(std::fmt::format, crate::stubs::fmt_format_stub)]
fn c11_q_extended_try_from_keeps_bytes() {
    let b: [u8; 64] = kani::any();
    let want = b[0] & 7 == 0 && b[31] & 0x40 != 0 && b[31] & 0x80 == 0;
    let r = SecretKeyExtended::try_from(b);
    assert!(r.is_ok() == want, "try_from accepts exactly the clamped keys");
    if let Ok(k) = r {
        let out = unsafe { SecretKeyExtended::leak_into_bytes(k) };
        let i: usize = kani::any();
        kani::assume(i < 64);
        assert!(out[i] == b[i], "an accepted key holds the given bytes unchanged");
        kani::cover!(i == 63, "last byte compared");
    } else {
        core::mem::forget(r);
    }
}

// ---------------------------------------------------------------------------------------------
// length checks
// ---------------------------------------------------------------------------------------------
/// bound: slice of symbolic length 0..=40 over symbolic bytes; unwind 2
#[kani::proof]
#[kani::unwind(2)]
#[kani::stub(std::fmt::format, crate::stubs::fmt_format_stub)]
fn c11_q_public_key_try_from_len() {
    let b: [u8; 40] = kani::any();
    let n: usize = kani::any();
    kani::assume(n <= 40);
    let r = PublicKey::try_from(&b[..n]);
    assert!(r.is_ok() == (n == 32), "PublicKey::try_from accepts exactly 32 bytes");
    if let Ok(pk) = &r {
        let i: usize = kani::any();
        kani::assume(i < 32);
        assert!(pk.as_ref().len() == 32 && pk.as_ref()[i] == b[i], "the key holds the given bytes");
    }
    kani::cover!(r.is_ok(), "accepted");
    kani::cover!(n == 33, "one byte too long");
    kani::cover!(n == 0, "empty");
    core::mem::forget(r);
}

/// bound: slice of symbolic length 0..=70 over symbolic bytes; unwind 2
#[kani::proof]
#[kani::unwind(2)]
#[kani::stub(std::fmt::format, crate::stubs::fmt_format_stub)]
fn c11_q_signature_try_from_len() {
    let b: [u8; 70] = kani::any();
    let n: usize = kani::any();
    kani::assume(n <= 70);
    let r = Signature::try_from(&b[..n]);
    assert!(r.is_ok() == (n == 64), "Signature::try_from accepts exactly 64 bytes");
    if let Ok(s) = &r {
        let i: usize = kani::any();
        kani::assume(i < 64);
        assert!(s.as_ref().len() == 64 && s.as_ref()[i] == b[i], "the signature holds the given bytes");
    }
    kani::cover!(r.is_ok(), "accepted");
    kani::cover!(n == 63, "one byte short");
    core::mem::forget(r);
}

// ---------------------------------------------------------------------------------------------
// contract stubs: toy signature scheme
// ---------------------------------------------------------------------------------------------
pub mod toy {
    //! loop-free (word-wise) so that the harness bound is set by the code under test (the 64-byte scrub loop)
    fn rd(b: &[u8], o: usize) -> u64 {
        u64::from_le_bytes([b[o], b[o + 1], b[o + 2], b[o + 3], b[o + 4], b[o + 5], b[o + 6], b[o + 7]])
    }
    fn wr(b: &mut [u8], o: usize, v: u64) {
        let x = v.to_le_bytes();
        b[o] = x[0];
        b[o + 1] = x[1];
        b[o + 2] = x[2];
        b[o + 3] = x[3];
        b[o + 4] = x[4];
        b[o + 5] = x[5];
        b[o + 6] = x[6];
        b[o + 7] = x[7];
    }
    const K: u64 = 0xA5A5_A5A5_A5A5_A5A5;

    /// pk = seed ^ 0xA5.. (a bijection)
    pub fn pk_of(seed: &[u8]) -> [u8; 32] {
        let mut pk = [0u8; 32];
        wr(&mut pk, 0, rd(seed, 0) ^ K);
        wr(&mut pk, 8, rd(seed, 8) ^ K);
        wr(&mut pk, 16, rd(seed, 16) ^ K);
        wr(&mut pk, 24, rd(seed, 24) ^ K);
        pk
    }

    /// injective for messages up to 7 bytes: (length, bytes)
    fn enc(m: &[u8]) -> u64 {
        let n = m.len();
        let at = |i: usize| -> u64 { if i < n { (m[i] as u64) << (8 * (i + 1)) } else { 0 } };
        (if n > 7 { 0xff } else { n as u64 }) | at(0) | at(1) | at(2) | at(3) | at(4) | at(5) | at(6)
    }

    /// sig = pk || enc(m) || 0..
    fn sig_of(pk: &[u8], m: &[u8]) -> [u8; 64] {
        let mut s = [0u8; 64];
        wr(&mut s, 0, rd(pk, 0));
        wr(&mut s, 8, rd(pk, 8));
        wr(&mut s, 16, rd(pk, 16));
        wr(&mut s, 24, rd(pk, 24));
        wr(&mut s, 32, enc(m));
        s
    }

    pub fn keypair(seed: &[u8; 32]) -> ([u8; 64], [u8; 32]) {
        let pk = pk_of(seed);
        let mut kp = [0u8; 64];
        kp[..32].copy_from_slice(seed);
        kp[32..].copy_from_slice(&pk);
        (kp, pk)
    }

    /// a keypair whose halves do not belong together (or that was scrubbed) yields a signature nobody accepts
    pub fn signature(message: &[u8], keypair: &[u8; 64]) -> [u8; 64] {
        let pk = pk_of(&keypair[..32]);
        let ok = rd(keypair, 32) == rd(&pk, 0)
            && rd(keypair, 40) == rd(&pk, 8)
            && rd(keypair, 48) == rd(&pk, 16)
            && rd(keypair, 56) == rd(&pk, 24);
        if ok {
            sig_of(&pk, message)
        } else {
            [0xEE; 64]
        }
    }

    pub fn extended_to_public(extended_secret: &[u8; 64]) -> [u8; 32] {
        pk_of(&extended_secret[..32])
    }

    pub fn signature_extended(message: &[u8], extended_secret: &[u8; 64]) -> [u8; 64] {
        sig_of(&pk_of(&extended_secret[..32]), message)
    }

    pub fn verify(message: &[u8], public_key: &[u8; 32], signature: &[u8; 64]) -> bool {
        let want = sig_of(public_key, message);
        rd(&want, 0) == rd(signature, 0)
            && rd(&want, 8) == rd(signature, 8)
            && rd(&want, 16) == rd(signature, 16)
            && rd(&want, 24) == rd(signature, 24)
            && rd(&want, 32) == rd(signature, 32)
            && rd(&want, 40) == rd(signature, 40)
            && rd(&want, 48) == rd(signature, 48)
            && rd(&want, 56) == rd(signature, 56)
    }
}

macro_rules! plumbing_std {
    ($name:ident, $len:expr) => {
        #[kani::proof]
        #[kani::unwind(66)]
        #[kani::stub(std::fmt::format, crate::stubs::fmt_format_stub)]
        #[kani::stub(cryptoxide::ed25519::keypair, crate::c11::toy::keypair)]
        #[kani::stub(cryptoxide::ed25519::signature, crate::c11::toy::signature)]
        #[kani::stub(cryptoxide::ed25519::verify, crate::c11::toy::verify)]
        fn $name() {
            const L: usize = $len;
            let seed: [u8; 32] = kani::any();
            let m: [u8; L] = kani::any();
            let sk = SecretKey::from(seed);
            let pk = sk.public_key();
            let sig = sk.sign(&m);
            assert!(pk.verify(&m, &sig), "a signature verifies under the signer's public key");
            // single-bit tampering of message / signature / public key
            let bit: usize = kani::any();
            let what: u8 = kani::any();
            if what == 0 && L > 0 {
                kani::assume(bit < L * 8);
                let mut m2 = m;
                m2[bit / 8] ^= 1 << (bit % 8);
                assert!(!pk.verify(&m2, &sig), "a tampered message does not verify");
            } else if what == 1 {
                kani::assume(bit < 64 * 8);
                let mut s2 = [0u8; 64];
                s2.copy_from_slice(sig.as_ref());
                s2[bit / 8] ^= 1 << (bit % 8);
                assert!(!pk.verify(&m, &Signature::from(s2)), "a tampered signature does not verify");
            } else if what == 2 {
                kani::assume(bit < 32 * 8);
                let mut p2 = [0u8; 32];
                p2.copy_from_slice(pk.as_ref());
                p2[bit / 8] ^= 1 << (bit % 8);
                assert!(!PublicKey::from(p2).verify(&m, &sig), "a tampered public key does not verify");
            }
            kani::cover!(what == 1 && bit == 511, "last signature bit flipped");
            kani::cover!(what == 2 && bit == 0, "first key bit flipped");
            core::mem::forget(sk);
        }
    };
}
// bound: standard key: seed 32 symbolic bytes, message of concrete length 0..=4 with symbolic bytes, symbolic single-bit flip in message / signature / public key; toy scheme stubs; unwind 66
plumbing_std!(c11_q_plumbing_std_len3, 3);
plumbing_std!(c11_t_plumbing_std_len0, 0);
plumbing_std!(c11_t_plumbing_std_len1, 1);
plumbing_std!(c11_t_plumbing_std_len4, 4);

macro_rules! plumbing_ext {
    ($name:ident, $len:expr) => {
        #[kani::proof]
        #[kani::unwind(66)]
        #[kani::stub(std::fmt::format, crate::stubs::fmt_format_stub)]
        #[kani::stub(cryptoxide::ed25519::extended_to_public, crate::c11::toy::extended_to_public)]
        #[kani::stub(cryptoxide::ed25519::signature_extended, crate::c11::toy::signature_extended)]
        #[kani::stub(cryptoxide::ed25519::verify, crate::c11::toy::verify)]
        fn $name() {
            const L: usize = $len;
            let mut b: [u8; 64] = kani::any();
            b[0] &= 0b1111_1000;
            b[31] &= 0b0011_1111;
            b[31] |= 0b0100_0000;
            let m: [u8; L] = kani::any();
            let r = SecretKeyExtended::from_bytes(b);
            assert!(r.is_ok(), "a clamped key is accepted");
            if let Ok(sk) = &r {
                let pk = sk.public_key();
                let sig = sk.sign(&m);
                assert!(pk.verify(&m, &sig), "a signature verifies under the signer's public key");
                let bit: usize = kani::any();
                let what: u8 = kani::any();
                if what == 0 && L > 0 {
                    kani::assume(bit < L * 8);
                    let mut m2 = m;
                    m2[bit / 8] ^= 1 << (bit % 8);
                    assert!(!pk.verify(&m2, &sig), "a tampered message does not verify");
                } else if what == 1 {
                    kani::assume(bit < 64 * 8);
                    let mut s2 = [0u8; 64];
                    s2.copy_from_slice(sig.as_ref());
                    s2[bit / 8] ^= 1 << (bit % 8);
                    assert!(!pk.verify(&m, &Signature::from(s2)), "a tampered signature does not verify");
                } else if what == 2 {
                    kani::assume(bit < 32 * 8);
                    let mut p2 = [0u8; 32];
                    p2.copy_from_slice(pk.as_ref());
                    p2[bit / 8] ^= 1 << (bit % 8);
                    assert!(!PublicKey::from(p2).verify(&m, &sig), "a tampered public key does not verify");
                }
                kani::cover!(L == 0 || what == 0, "message bit flipped (not applicable to the empty message)");
                kani::cover!(what == 1 && bit == 0, "first signature bit flipped");
            }
            core::mem::forget(r);
        }
    };
}
// bound: extended key: 64 symbolic bytes with the clamping bits forced, message of concrete length 0..=4 with symbolic bytes, symbolic single-bit flip; toy scheme stubs; unwind 66
plumbing_ext!(c11_q_plumbing_ext_len2, 2);
plumbing_ext!(c11_t_plumbing_ext_len0, 0);
plumbing_ext!(c11_t_plumbing_ext_len4, 4);

/// vacuity twin: must come back FAILED
#[kani::proof]
#[kani::unwind(66)]
#[kani::stub(std::fmt::format, crate::stubs::fmt_format_stub)]
fn c11_v_twin() {
    let b: [u8; 64] = kani::any();
    let r = SecretKeyExtended::from_bytes(b);
    assert!(r.is_err(), "twin: must fail");
    core::mem::forget(r);
}
