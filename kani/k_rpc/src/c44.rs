//! C44 (numeric part): Plutus integers and coin values keep their value when mapped to the UTxO RPC schema.
//! fn: pallas_utxorpc::v1alpha::Mapper::map_plutus_bigint, pallas_utxorpc::v1beta::Mapper::map_plutus_bigint
//! fn: pallas_utxorpc::{v1alpha,v1beta}::{u64_to_bigint, i64_to_bigint} (private; through verif_hooks)
//! outside: map_tx / map_block / map_tx_output / map_plutus_datum on nested data (HashMap-backed ledger context, Vec-of-Vec construction, real tx decoding); byte payloads longer than 3 bytes (copied by Vec::clone / Bytes::from, no arithmetic)
//! outside: denotation used as oracle: Int(v) = v; BigUInt(b) = big-endian value of b; BigNInt(b) = -1 - big-endian value of b (CBOR tags 2/3, the convention of the UTxO RPC spec)
use pallas_codec::minicbor::data::Int as McbInt;
use pallas_codec::utils::Int;
use pallas_primitives::alonzo::BigInt;
use pallas_primitives::BoundedBytes;
use pallas_utxorpc::{LedgerContext, TxoRef, UtxoMap};

#[derive(Clone)]
pub struct NoLedger;
impl LedgerContext for NoLedger {
    fn get_utxos(&self, _refs: &[TxoRef]) -> Option<UtxoMap> {
        None
    }
    fn get_slot_timestamp(&self, _slot: u64) -> Option<u64> {
        None
    }
}

/// big-endian value of up to 8 bytes
fn be(b: &[u8]) -> i128 {
    let mut v: i128 = 0;
    let mut i = 0;
    while i < b.len() && i < 8 {
        v = (v << 8) | b[i] as i128;
        i += 1;
    }
    v
}

const LO: i128 = -(1i128 << 64);
const HI: i128 = (1i128 << 64) - 1;

macro_rules! family {
    ($ver:ident, $u5c:ident, $denote:ident, $int_case:ident, $bytes_case:ident, $int_i64:ident, $int_full:ident, $bytes0:ident, $bytes1:ident, $bytes2:ident, $bytes3:ident, $u64:ident, $i64:ident) => {
        use pallas_utxorpc::$ver::spec::cardano as $u5c;

            /// integer denoted by a mapped value (payloads <= 8 bytes)
            fn $denote(x: &$u5c::BigInt) -> Option<i128> {
                match &x.big_int {
                    Some($u5c::big_int::BigInt::Int(v)) => Some(*v as i128),
                    Some($u5c::big_int::BigInt::BigUInt(b)) => Some(be(b.as_ref())),
                    Some($u5c::big_int::BigInt::BigNInt(b)) => Some(-1 - be(b.as_ref())),
                    None => None,
                }
            }

            fn $int_case(n: i128) {
                let m = pallas_utxorpc::$ver::Mapper::new(NoLedger);
                let mi = match McbInt::try_from(n) {
                    Ok(x) => x,
                    Err(_) => unreachable!(),
                };
                let x = BigInt::Int(Int(mi));
                let r = m.map_plutus_bigint(&x);
                let d = $denote(&r);
                core::mem::forget(r);
                core::mem::forget(x);
                core::mem::forget(m);
                assert!(d == Some(n), "mapped Plutus integer denotes the same integer");
            }

            /// bound: every Int within the i64 range (symbolic); unwind 10
            #[kani::proof]
            #[kani::unwind(10)]
            #[kani::stub(std::fmt::format, crate::stubs::fmt_format_stub)]
            fn $int_i64() {
                let v: i64 = kani::any();
                kani::cover!(v == i64::MIN, "most negative i64");
                kani::cover!(v == i64::MAX, "largest i64");
                $int_case(v as i128);
            }

            /// The property as stated: every Int of the CBOR range -2^64 ..= 2^64-1.
            /// FINDING expected: `i128::from(x) as i64` truncates outside the i64 range.
            /// bound: every Int in -2^64 ..= 2^64-1 (symbolic i128); unwind 10
            #[kani::proof]
            #[kani::unwind(10)]
            #[kani::stub(std::fmt::format, crate::stubs::fmt_format_stub)]
            fn $int_full() {
                let n: i128 = kani::any();
                kani::assume(n >= LO && n <= HI);
                $int_case(n);
                kani::cover!(n > i64::MAX as i128, "beyond i64::MAX");
                kani::cover!(n < i64::MIN as i128, "below i64::MIN");
            }

            fn $bytes_case<const K: usize>() {
                let p: [u8; K] = kani::any();
                let neg: bool = kani::any();
                let m = pallas_utxorpc::$ver::Mapper::new(NoLedger);
                let bb = BoundedBytes::from(p.to_vec());
                let x = if neg { BigInt::BigNInt(bb) } else { BigInt::BigUInt(bb) };
                let r = m.map_plutus_bigint(&x);
                let d = $denote(&r);
                let same_variant = match &r.big_int {
                    Some($u5c::big_int::BigInt::BigUInt(b)) => !neg && b.len() == K,
                    Some($u5c::big_int::BigInt::BigNInt(b)) => neg && b.len() == K,
                    _ => false,
                };
                core::mem::forget(r);
                core::mem::forget(x);
                core::mem::forget(m);
                let want = if neg { -1 - be(&p) } else { be(&p) };
                kani::cover!(neg, "negative big integer");
                kani::cover!(!neg, "positive big integer");
                assert!(same_variant, "big integers stay big integers of the same sign and length");
                assert!(d == Some(want), "mapped big integer denotes the same integer");
            }
            // bound: BigUInt / BigNInt (sign symbolic) with a payload of exactly K arbitrary bytes, K concrete per harness in 0..=3; unwind 10
            #[kani::proof]
            #[kani::unwind(10)]
            #[kani::stub(std::fmt::format, crate::stubs::fmt_format_stub)]
            fn $bytes0() {
                $bytes_case::<0>();
            }
            #[kani::proof]
            #[kani::unwind(10)]
            #[kani::stub(std::fmt::format, crate::stubs::fmt_format_stub)]
            fn $bytes1() {
                $bytes_case::<1>();
            }
            #[kani::proof]
            #[kani::unwind(10)]
            #[kani::stub(std::fmt::format, crate::stubs::fmt_format_stub)]
            fn $bytes2() {
                $bytes_case::<2>();
            }
            #[kani::proof]
            #[kani::unwind(10)]
            #[kani::stub(std::fmt::format, crate::stubs::fmt_format_stub)]
            fn $bytes3() {
                $bytes_case::<3>();
            }

            /// bound: every u64 (symbolic); unwind 10
            #[kani::proof]
            #[kani::unwind(10)]
            #[kani::stub(std::fmt::format, crate::stubs::fmt_format_stub)]
            fn $u64() {
                let v: u64 = kani::any();
                let r = pallas_utxorpc::$ver::verif_hooks::u64_to_bigint(v);
                let d = match &r {
                    Some(x) => $denote(x),
                    None => None,
                };
                let small = matches!(&r, Some($u5c::BigInt { big_int: Some($u5c::big_int::BigInt::Int(_)) }));
                core::mem::forget(r);
                kani::cover!(v > i64::MAX as u64, "needs the byte form");
                kani::cover!(v <= i64::MAX as u64, "fits the integer form");
                assert!(d == Some(v as i128), "u64 keeps its value");
                assert!(small == (v <= i64::MAX as u64), "integer form exactly when the value fits an i64");
            }

            /// bound: every i64 (symbolic); unwind 10
            #[kani::proof]
            #[kani::unwind(10)]
            #[kani::stub(std::fmt::format, crate::stubs::fmt_format_stub)]
            fn $i64() {
                let v: i64 = kani::any();
                let r = pallas_utxorpc::$ver::verif_hooks::i64_to_bigint(v);
                let d = match &r {
                    Some(x) => $denote(x),
                    None => None,
                };
                core::mem::forget(r);
                kani::cover!(v < 0, "negative");
                assert!(d == Some(v as i128), "i64 keeps its value");
            }
    };
}

// @harness c44_q_a_int_i64 bound: v1alpha: map_plutus_bigint on every Int within the i64 range (symbolic); unwind 10 (assume: Int within the i64 range; the rest of the CBOR range is isolated in c44_q_a_int_full, which fails)
// @harness c44_q_a_int_full bound: v1alpha: map_plutus_bigint on every Int of the CBOR range -2^64 ..= 2^64-1 (symbolic i128) -- the property as stated; unwind 10
// @harness c44_q_a_bytes0 bound: v1alpha: BigUInt / BigNInt (sign symbolic), empty payload; unwind 10
// @harness c44_q_a_bytes1 bound: v1alpha: BigUInt / BigNInt (sign symbolic), payload of 1 arbitrary byte; unwind 10
// @harness c44_q_a_bytes2 bound: v1alpha: BigUInt / BigNInt (sign symbolic), payload of 2 arbitrary bytes; unwind 10
// @harness c44_q_a_bytes3 bound: v1alpha: BigUInt / BigNInt (sign symbolic), payload of 3 arbitrary bytes; unwind 10
// @harness c44_q_a_u64 bound: v1alpha: u64_to_bigint on every u64 (symbolic); unwind 10
// @harness c44_q_a_i64 bound: v1alpha: i64_to_bigint on every i64 (symbolic); unwind 10
family!(v1alpha, u5c_a, denote_a, int_case_a, bytes_case_a, c44_q_a_int_i64, c44_q_a_int_full, c44_q_a_bytes0, c44_q_a_bytes1, c44_q_a_bytes2, c44_q_a_bytes3, c44_q_a_u64, c44_q_a_i64);
// @harness c44_q_b_int_i64 bound: v1beta: map_plutus_bigint on every Int within the i64 range (symbolic); unwind 10 (assume: Int within the i64 range; the rest of the CBOR range is isolated in c44_q_b_int_full, which fails)
// @harness c44_q_b_int_full bound: v1beta: map_plutus_bigint on every Int of the CBOR range -2^64 ..= 2^64-1 (symbolic i128) -- the property as stated; unwind 10
// @harness c44_q_b_bytes0 bound: v1beta: BigUInt / BigNInt (sign symbolic), empty payload; unwind 10
// @harness c44_q_b_bytes1 bound: v1beta: BigUInt / BigNInt (sign symbolic), payload of 1 arbitrary byte; unwind 10
// @harness c44_q_b_bytes2 bound: v1beta: BigUInt / BigNInt (sign symbolic), payload of 2 arbitrary bytes; unwind 10
// @harness c44_q_b_bytes3 bound: v1beta: BigUInt / BigNInt (sign symbolic), payload of 3 arbitrary bytes; unwind 10
// @harness c44_q_b_u64 bound: v1beta: u64_to_bigint on every u64 (symbolic); unwind 10
// @harness c44_q_b_i64 bound: v1beta: i64_to_bigint on every i64 (symbolic); unwind 10
family!(v1beta, u5c_b, denote_b, int_case_b, bytes_case_b, c44_q_b_int_i64, c44_q_b_int_full, c44_q_b_bytes0, c44_q_b_bytes1, c44_q_b_bytes2, c44_q_b_bytes3, c44_q_b_u64, c44_q_b_i64);

/// vacuity twin: must come back FAILED
#[kani::proof]
#[kani::unwind(10)]
#[kani::stub(std::fmt::format, crate::stubs::fmt_format_stub)]
fn c44_v_twin() {
    let v: u64 = kani::any();
    let r = pallas_utxorpc::v1alpha::verif_hooks::u64_to_bigint(v);
    let small = matches!(
        &r,
        Some(pallas_utxorpc::v1alpha::spec::cardano::BigInt {
            big_int: Some(pallas_utxorpc::v1alpha::spec::cardano::big_int::BigInt::Int(_))
        })
    );
    core::mem::forget(r);
    assert!(small, "twin: must fail");
}
