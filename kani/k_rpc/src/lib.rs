#![allow(unused)]
//! Kani harnesses over pallas-utxorpc (C44).
#[cfg(kani)]
mod stubs;
#[cfg(kani)]
mod c44;
