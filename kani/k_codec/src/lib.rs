#![allow(unused)]
//! Kani harnesses over pallas-codec (C01..C04).
#[cfg(kani)]
mod stubs;
#[cfg(kani)]
mod c01;
#[cfg(kani)]
mod c02;
#[cfg(kani)]
mod c03;
#[cfg(kani)]
mod c04;
#[cfg(kani)]
mod probe;
