//! C04: decoded numeric wrappers never hold zero (pallas-codec part).
//! fn: pallas_codec::utils::PositiveCoin::decode (derived, cbor(transparent)), pallas_codec::utils::NonZeroInt::decode
//! fn: minicbor tuple / Vec / Option decoders instantiated with PositiveCoin
//! stub: std::fmt::format -> empty String
//! assume: minicbor 0.26.5 integer decoders are executed as they are, not modelled
//! outside: Option<PositiveCoin> with a symbolic head byte (Option::decode puts Decoder::skip behind a symbolic guard: CBMC aborts or gives no verdict in 400 s); the immediates 00..17 inside an Option other than 01 (the bare PositiveCoin harnesses cover every immediate)
//! outside: conway Value / Mint / donation embeddings (pallas-primitives; checked elsewhere); buffers longer than stated per harness
use pallas_codec::minicbor::{self, Decoder};
use pallas_codec::utils::{NonZeroInt, PositiveCoin};

/// bound: PositiveCoin decoded from an arbitrary buffer of 1, 2, 3, 5 or 9 bytes (every integer head width with and without trailing bytes)
macro_rules! coin {
    ($name:ident, $n:expr) => {
        #[kani::proof]
        #[kani::unwind(3)]
        #[kani::stub(std::fmt::format, crate::stubs::fmt_format_stub)]
        fn $name() {
            let b: [u8; $n] = kani::any();
            let r: Result<PositiveCoin, _> = minicbor::decode(&b);
            if let Ok(v) = &r {
                assert!(u64::from(*v) != 0, "a decoded PositiveCoin is never zero");
            }
            kani::cover!(r.is_ok(), "some input decodes");
            kani::cover!(r.is_err(), "some input is rejected");
            core::mem::forget(r);
        }
    };
}
// bound: PositiveCoin decoded from an arbitrary (fully symbolic) buffer of N bytes, N in {1,2,3,5,9} = every integer head width, with and without trailing bytes
coin!(c04_q_positive_coin_n1, 1);
coin!(c04_q_positive_coin_n2, 2);
coin!(c04_q_positive_coin_n3, 3);
coin!(c04_q_positive_coin_n5, 5);
coin!(c04_q_positive_coin_n9, 9);

macro_rules! nzi {
    ($name:ident, $n:expr) => {
        #[kani::proof]
        #[kani::unwind(3)]
        #[kani::stub(std::fmt::format, crate::stubs::fmt_format_stub)]
        fn $name() {
            let b: [u8; $n] = kani::any();
            let r: Result<NonZeroInt, _> = minicbor::decode(&b);
            if let Ok(v) = &r {
                assert!(i64::from(*v) != 0, "a decoded NonZeroInt is never zero");
            }
            kani::cover!(matches!(&r, Ok(v) if i64::from(*v) < 0), "a negative input decodes");
            kani::cover!(r.is_err(), "some input is rejected");
            core::mem::forget(r);
        }
    };
}
// bound: NonZeroInt decoded from an arbitrary (fully symbolic) buffer of N bytes, N in {1,2,3,5,9}
nzi!(c04_q_nonzero_int_n1, 1);
nzi!(c04_q_nonzero_int_n2, 2);
nzi!(c04_q_nonzero_int_n3, 3);
nzi!(c04_q_nonzero_int_n5, 5);
nzi!(c04_q_nonzero_int_n9, 9);

/// bound: (u64, PositiveCoin) from 82 + an arbitrary 10-byte tail (first item of any width up to 1 byte head + the coin up to 9 bytes, or a 9-byte first item + 1-byte coin)
#[kani::proof]
#[kani::unwind(3)]
#[kani::stub(std::fmt::format, crate::stubs::fmt_format_stub)]
fn c04_q_pair_u64_coin() {
    let mut b: [u8; 11] = kani::any();
    b[0] = 0x82;
    let r: Result<(u64, PositiveCoin), _> = minicbor::decode(&b);
    if let Ok((_, v)) = &r {
        assert!(u64::from(*v) != 0, "a PositiveCoin decoded inside a pair is never zero");
    }
    kani::cover!(r.is_ok(), "some pair decodes");
    core::mem::forget(r);
}

/// bound: Vec<PositiveCoin> with exactly one element: 81 + arbitrary 9 bytes
#[kani::proof]
#[kani::unwind(4)]
#[kani::stub(std::fmt::format, crate::stubs::fmt_format_stub)]
fn c04_q_vec1_coin() {
    let mut b: [u8; 10] = kani::any();
    b[0] = 0x81;
    let r: Result<Vec<PositiveCoin>, _> = minicbor::decode(&b);
    if let Ok(v) = &r {
        assert!(v.len() == 1 && u64::from(v[0]) != 0, "a PositiveCoin decoded inside a Vec is never zero");
    }
    kani::cover!(r.is_ok(), "some list decodes");
    core::mem::forget(r);
}

/// bound: Vec<PositiveCoin> with exactly two elements: 82 + arbitrary 6 bytes (element widths 1..=5)
#[kani::proof]
#[kani::unwind(5)]
#[kani::stub(std::fmt::format, crate::stubs::fmt_format_stub)]
fn c04_t_vec2_coin() {
    let mut b: [u8; 7] = kani::any();
    b[0] = 0x82;
    let r: Result<Vec<PositiveCoin>, _> = minicbor::decode(&b);
    if let Ok(v) = &r {
        assert!(v.len() == 2, "definite length is respected");
        assert!(u64::from(v[0]) != 0 && u64::from(v[1]) != 0, "a PositiveCoin decoded inside a Vec is never zero");
    }
    kani::cover!(r.is_ok(), "some list decodes");
    core::mem::forget(r);
}

/// bound: indefinite Vec<PositiveCoin>: 9f + arbitrary 3 bytes (<= 2 elements and the break)
#[kani::proof]
#[kani::unwind(5)]
#[kani::stub(std::fmt::format, crate::stubs::fmt_format_stub)]
fn c04_t_vec_indef_coin() {
    let mut b: [u8; 4] = kani::any();
    b[0] = 0x9f;
    let r: Result<Vec<PositiveCoin>, _> = minicbor::decode(&b);
    if let Ok(v) = &r {
        assert!(v.len() <= 2, "at most two elements fit");
        if v.len() > 0 {
            assert!(u64::from(v[0]) != 0, "a PositiveCoin decoded inside a Vec is never zero");
        }
        if v.len() > 1 {
            assert!(u64::from(v[1]) != 0, "a PositiveCoin decoded inside a Vec is never zero");
        }
    }
    kani::cover!(matches!(&r, Ok(v) if v.len() == 2), "two elements decode");
    core::mem::forget(r);
}

/// Option<PositiveCoin> (donation shape): Option::decode reaches Decoder::skip behind the "is it null" test, so the
/// head byte is concrete per harness (a symbolic head gives no verdict: CBMC abort / > 400 s) and the payload symbolic
macro_rules! opt {
    ($name:ident, $head:expr, $n:expr) => {
        #[kani::proof]
        #[kani::unwind(4)]
        #[kani::stub(std::fmt::format, crate::stubs::fmt_format_stub)]
        fn $name() {
            let mut b: [u8; $n] = kani::any();
            b[0] = $head;
            let r: Result<Option<PositiveCoin>, _> = minicbor::decode(&b);
            if let Ok(Some(v)) = &r {
                assert!(u64::from(*v) != 0, "a PositiveCoin decoded inside an Option is never zero");
            }
            kani::cover!(r.is_ok(), "some input of this class decodes");
            core::mem::forget(r);
        }
    };
}
// bound: Option<PositiveCoin> on a buffer of exactly the item length, head byte concrete (f6 null, 01 smallest immediate, 18 / 19 / 1a / 1b), payload bytes symbolic
opt!(c04_q_option_coin_null, 0xf6, 1);
opt!(c04_q_option_coin_h01, 0x01, 1);
opt!(c04_q_option_coin_h18, 0x18, 2);
opt!(c04_t_option_coin_h19, 0x19, 3);
opt!(c04_t_option_coin_h1a, 0x1a, 5);
opt!(c04_q_option_coin_h1b, 0x1b, 9);

/// the checked constructors agree with the decoders' contract
/// bound: every u64 / i64
#[kani::proof]
#[kani::unwind(2)]
fn c04_q_constructors() {
    let x: u64 = kani::any();
    let y: i64 = kani::any();
    let c = PositiveCoin::try_from(x);
    let n = NonZeroInt::try_from(y);
    assert!(c.is_ok() == (x != 0), "PositiveCoin::try_from rejects exactly zero");
    assert!(n.is_ok() == (y != 0), "NonZeroInt::try_from rejects exactly zero");
    kani::cover!(c.is_err() && n.is_err(), "both zero");
}

/// vacuity twin: must come back FAILED
#[kani::proof]
#[kani::unwind(3)]
#[kani::stub(std::fmt::format, crate::stubs::fmt_format_stub)]
fn c04_v_twin() {
    let b: [u8; 2] = kani::any();
    let r: Result<NonZeroInt, _> = minicbor::decode(&b);
    assert!(!matches!(&r, Ok(v) if i64::from(*v) == 1), "twin: must fail");
    core::mem::forget(r);
}
