//! probe: the standard stubs resolve
use std::panic::catch_unwind as cu;
#[kani::proof]
#[kani::unwind(10)]
#[kani::stub(std::fmt::format, crate::stubs::fmt_format_stub)]
#[kani::stub(cu, crate::stubs::catch_unwind_stub)]
#[kani::stub(pallas_codec::minicbor::encode::Error::write, crate::stubs::mcb_write_err_stub)]
fn probe_stubs() {
    let x: u8 = kani::any();
    let v = pallas_codec::minicbor::to_vec(x).unwrap();
    let y: u8 = pallas_codec::minicbor::decode(&v).unwrap();
    assert!(x == y);
    core::mem::forget(v);
}
