//! C02: flat decoding is total on arbitrary bytes.
//! fn: pallas_codec::flat::de::Decoder::{bool,u8,bits8,word,integer,char,bytes,utf8,string,filler,decode_list_with,decode}
//! fn: pallas_codec::flat::decode::<T> for bool,u8,usize,isize,char,Vec<u8>,String
//! stub: std::fmt::format -> empty String
//! outside: Decoder::utf8 / decode::<String> = String::from_utf8(Vec::<u8>::decode(d)?) -- the Vec<u8> leg is covered by the bytes harnesses; std's UTF-8 validator on symbolic bytes gave no verdict in 15 min even for 2-byte buffers and is trusted to be total
//! outside: buffers longer than 12 bytes (property: 64); sequences of more than (k bools, one call); big_integer
use pallas_codec::flat::de::Decoder;

fn buf<const N: usize>() -> ([u8; N], usize) {
    let b: [u8; N] = kani::any();
    let n: usize = kani::any();
    kani::assume(n <= N);
    (b, n)
}

/// skip 0..=7 bits first (only if that many bits exist), so that every entry point is
/// entered at every bit offset
fn skip(d: &mut Decoder) {
    let k: u8 = kani::any();
    kani::assume(k <= 7);
    let mut i = 0;
    while i < 7 {
        if i < k {
            if d.bits8(1).is_err() {
                return;
            }
        }
        i += 1;
    }
}

macro_rules! total {
    ($name:ident, $n:expr, $unw:expr, |$d:ident| $call:expr) => {
        #[kani::proof]
        #[kani::unwind($unw)]
        #[kani::stub(std::fmt::format, crate::stubs::fmt_format_stub)]
        fn $name() {
            let (b, n) = buf::<$n>();
            let mut $d = Decoder::new(&b[..n]);
            skip(&mut $d);
            let r = $call;
            kani::cover!(r.is_ok(), "some input decodes");
            kani::cover!(r.is_err(), "some input is rejected");
            core::mem::forget(r);
        }
    };
}

// bound: arbitrary buffer of symbolic length 0..=12, entry after 0..=7 skipped bits; built-in panic / OOB / overflow checks; unwind 14
total!(c02_q_bool, 12, 14, |d| d.bool());
total!(c02_q_u8, 12, 14, |d| d.u8());
total!(c02_q_word, 12, 14, |d| d.word());
total!(c02_q_integer, 12, 14, |d| d.integer());
total!(c02_q_char, 12, 14, |d| d.char());
total!(c02_x_string, 12, 14, |d| d.string());
total!(c02_t_list_u8, 12, 14, |d| d.decode_list_with(|d| d.u8()));
// bound: arbitrary buffer of symbolic length 0..=3 (filler / block loops: <= 24 bit steps, unwind 27), entry after 0..=7 skipped bits
total!(c02_q_bytes, 3, 27, |d| d.bytes());
total!(c02_q_filler, 3, 27, |d| d.filler());
// bound: arbitrary buffer of symbolic length 0..=5 (unwind 44), entry after 0..=7 skipped bits
total!(c02_x_bytes5, 5, 44, |d| d.bytes());
total!(c02_t_filler5, 5, 44, |d| d.filler());

/// bits8(n) for every n (also n = 0 and n > 8)
#[kani::proof]
#[kani::unwind(14)]
#[kani::stub(std::fmt::format, crate::stubs::fmt_format_stub)]
fn c02_q_bits8() {
    let (b, n) = buf::<12>();
    let mut d = Decoder::new(&b[..n]);
    skip(&mut d);
    let k: usize = kani::any();
    let r = d.bits8(k);
    kani::cover!(r.is_ok() && k == 8, "8 bits decode");
    kani::cover!(r.is_err() && k == 9, "9 bits rejected");
    core::mem::forget(r);
}

macro_rules! total_top {
    ($name:ident, $t:ty, $n:expr, $unw:expr) => {
        #[kani::proof]
        #[kani::unwind($unw)]
        #[kani::stub(std::fmt::format, crate::stubs::fmt_format_stub)]
        fn $name() {
            let (b, n) = buf::<$n>();
            let r = pallas_codec::flat::decode::<$t>(&b[..n]);
            kani::cover!(r.is_ok(), "some input decodes");
            kani::cover!(r.is_err(), "some input is rejected");
            core::mem::forget(r);
        }
    };
}
// bound: flat::decode::<T>(arbitrary buffer of symbolic length 0..=3) incl. the final filler, unwind 27
total_top!(c02_q_top_bool, bool, 3, 27);
total_top!(c02_q_top_u8, u8, 3, 27);
total_top!(c02_q_top_usize, usize, 3, 27);
total_top!(c02_q_top_isize, isize, 3, 27);
total_top!(c02_q_top_char, char, 3, 27);
total_top!(c02_q_top_vec, Vec<u8>, 3, 27);
// bound: flat::decode::<T>(arbitrary buffer of symbolic length 0..=5) incl. the final filler, unwind 44
total_top!(c02_t_top_usize5, usize, 5, 44);
total_top!(c02_x_top_vec5, Vec<u8>, 5, 44);


/// vacuity twin: must come back FAILED
#[kani::proof]
#[kani::unwind(14)]
fn c02_v_twin() {
    let (b, n) = buf::<12>();
    let mut d = Decoder::new(&b[..n]);
    let r = d.u8();
    assert!(r.is_ok(), "twin: must fail");
    core::mem::forget(r);
}
