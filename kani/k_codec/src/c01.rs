//! C01: flat codec round-trips values at any bit alignment.
//! fn: pallas_codec::flat::en::Encoder::{bool,u8,word,integer,char,bytes,utf8,bits,filler,encode_list_with}
//! fn: pallas_codec::flat::de::Decoder::{bool,u8,word,integer,char,bytes,bits8,filler,decode_list_with}
//! fn: pallas_codec::flat::{encode,decode} for bool,u8,usize,isize,char,Vec<u8>
//! fn: pallas_codec::flat::zigzag::ZigZag for isize/usize
//! stub: std::fmt::format -> empty String
//! assume: every value harness ends with (value, trailing u8, encoder filler); the decoder side reads the trailing u8 and then the rest of the last byte with bits8 and requires the filler pattern 0..01 and pos == len; Decoder::filler itself (a loop of <= 8 bit reads) is checked on the encoder's filler at every alignment by the c01_q_filler_* family and by the flat::encode/decode harnesses
//! outside: sequences longer than (K bools, value, value, u8, filler) as one solver query (the encoder only appends and the decoder only reads at its cursor, so one-step results per alignment compose -- that argument is not machine-checked); byte strings above 256 bytes (3 and more blocks: 511 bytes gave no verdict in 600 s); big_integer (num-bigint feature off)
//! outside: Encoder::string / Decoder::string (char-list strings, marked 'TODO: do we need this?' in the source): str::chars and char::to_string over symbolic bytes give no verdict in 400 s for one char; the empty string passed once in 173 s and aborted (CBMC status 6) in the thorough run
//! outside: Decoder::utf8 / decode::<String> = String::from_utf8(Decoder::bytes()): std's UTF-8 validator on symbolic bytes gives no verdict (C02 measured 15 min for 2 bytes); Encoder::utf8 is checked against Decoder::bytes
use pallas_codec::flat::de::Decoder;
use pallas_codec::flat::en::Encoder;
use pallas_codec::flat::filler::Filler;

/// write K leading bools (symbolic values) so that the value under test starts at bit offset K
/// (no loop: the unwind bound of a harness is then the bound of the code under test)
fn put_prefix<const K: usize>(e: &mut Encoder, pre: u8) {
    if K > 0 {
        e.bool(pre & 1 != 0);
    }
    if K > 1 {
        e.bool(pre & 2 != 0);
    }
    if K > 2 {
        e.bool(pre & 4 != 0);
    }
    if K > 3 {
        e.bool(pre & 8 != 0);
    }
    if K > 4 {
        e.bool(pre & 16 != 0);
    }
    if K > 5 {
        e.bool(pre & 32 != 0);
    }
    if K > 6 {
        e.bool(pre & 64 != 0);
    }
}
fn get1(d: &mut Decoder, want: bool) {
    let b = d.bool().unwrap();
    assert!(b == want, "prefix bit decodes");
}
fn get_prefix<const K: usize>(d: &mut Decoder, pre: u8) {
    if K > 0 {
        get1(d, pre & 1 != 0);
    }
    if K > 1 {
        get1(d, pre & 2 != 0);
    }
    if K > 2 {
        get1(d, pre & 4 != 0);
    }
    if K > 3 {
        get1(d, pre & 8 != 0);
    }
    if K > 4 {
        get1(d, pre & 16 != 0);
    }
    if K > 5 {
        get1(d, pre & 32 != 0);
    }
    if K > 6 {
        get1(d, pre & 64 != 0);
    }
    assert!(d.used_bits == (K % 8) as i64, "value under test starts at bit offset K");
}

fn finish(mut e: Encoder, t: u8) -> Vec<u8> {
    e.u8(t).unwrap();
    e.encode(Filler::FillerEnd).unwrap();
    e.buffer
}

/// trailing byte, then the rest of the last byte must be exactly the filler pattern 0..01
/// (the only thing Decoder::filler accepts inside one byte), and that is the end of the buffer
fn check_end(mut d: Decoder, t: u8, len: usize) {
    assert!(d.u8().unwrap() == t, "trailing byte after the value decodes");
    let rest = 8 - d.used_bits as usize;
    assert!(d.bits8(rest).unwrap() == 1, "buffer ends with the filler pattern");
    assert!(d.pos == len && d.used_bits == 0, "decoding consumes the whole buffer");
}

fn word_rt<const K: usize>() {
    let pre: u8 = kani::any();
    let v: usize = kani::any();
    let t: u8 = kani::any();
    let mut e = Encoder::new();
    put_prefix::<K>(&mut e, pre);
    e.word(v);
    let buf = finish(e, t);
    let mut d = Decoder::new(&buf);
    get_prefix::<K>(&mut d, pre);
    let got = d.word().unwrap();
    assert!(got == v, "word round-trips");
    check_end(d, t, buf.len());
    kani::cover!(v > (1usize << 63), "10-group word");
    kani::cover!(v < 128, "1-group word");
    core::mem::forget(buf);
}

fn int_rt<const K: usize>() {
    let pre: u8 = kani::any();
    let v: isize = kani::any();
    let t: u8 = kani::any();
    let mut e = Encoder::new();
    put_prefix::<K>(&mut e, pre);
    e.integer(v);
    let buf = finish(e, t);
    let mut d = Decoder::new(&buf);
    get_prefix::<K>(&mut d, pre);
    let got = d.integer().unwrap();
    assert!(got == v, "integer round-trips");
    check_end(d, t, buf.len());
    kani::cover!(v == isize::MIN, "isize::MIN");
    kani::cover!(v == -1, "-1");
    core::mem::forget(buf);
}

fn small_rt<const K: usize>() {
    // bool, u8 and char in one harness (cheap)
    let pre: u8 = kani::any();
    let b: bool = kani::any();
    let x: u8 = kani::any();
    let c: char = kani::any();
    let t: u8 = kani::any();
    let mut e = Encoder::new();
    put_prefix::<K>(&mut e, pre);
    e.bool(b);
    e.u8(x).unwrap();
    e.char(c);
    let buf = finish(e, t);
    let mut d = Decoder::new(&buf);
    get_prefix::<K>(&mut d, pre);
    assert!(d.bool().unwrap() == b, "bool round-trips");
    assert!(d.u8().unwrap() == x, "u8 round-trips");
    assert!(d.char().unwrap() == c, "char round-trips");
    check_end(d, t, buf.len());
    kani::cover!(c as u32 > 0xFFFF, "3-group char");
    kani::cover!(b && x == 0xff, "all ones");
    core::mem::forget(buf);
}

/// bytes with symbolic content, length L concrete (block chunking is decided by L);
/// content compared at a symbolic index (= every index)
fn bytes_rt<const K: usize, const L: usize>() {
    let pre: u8 = kani::any();
    let payload: [u8; L] = kani::any();
    let t: u8 = kani::any();
    let mut e = Encoder::new();
    put_prefix::<K>(&mut e, pre);
    e.bytes(&payload).unwrap();
    let buf = finish(e, t);
    let mut d = Decoder::new(&buf);
    get_prefix::<K>(&mut d, pre);
    let got = d.bytes().unwrap();
    assert!(got.len() == L, "bytes length round-trips");
    if L > 0 {
        let i: usize = kani::any();
        kani::assume(i < L);
        assert!(got[i] == payload[i], "bytes content round-trips");
    }
    check_end(d, t, buf.len());
    kani::cover!(true, "reached");
    core::mem::forget(buf);
    core::mem::forget(got);
}

/// Encoder::utf8 with L symbolic ASCII chars, read back through Decoder::bytes
fn utf8_rt<const K: usize, const L: usize>() {
    let pre: u8 = kani::any();
    let payload: [u8; L] = kani::any();
    let mut j = 0;
    while j < L {
        kani::assume(payload[j] < 128);
        j += 1;
    }
    let t: u8 = kani::any();
    // ASCII bytes are valid UTF-8
    let s = unsafe { core::str::from_utf8_unchecked(&payload) };
    let mut e = Encoder::new();
    put_prefix::<K>(&mut e, pre);
    e.utf8(s).unwrap();
    let buf = finish(e, t);
    let mut d = Decoder::new(&buf);
    get_prefix::<K>(&mut d, pre);
    let got = d.bytes().unwrap();
    assert!(got.len() == L, "utf8 length round-trips");
    if L > 0 {
        let i: usize = kani::any();
        kani::assume(i < L);
        assert!(got[i] == payload[i], "utf8 content round-trips");
    }
    check_end(d, t, buf.len());
    kani::cover!(true, "reached");
    core::mem::forget(buf);
    core::mem::forget(got);
}

/// `string` (list of chars, one continuation bit per element), L symbolic ASCII chars
fn string_rt<const K: usize, const L: usize>() {
    let pre: u8 = kani::any();
    let payload: [u8; L] = kani::any();
    let mut j = 0;
    while j < L {
        kani::assume(payload[j] < 128);
        j += 1;
    }
    let t: u8 = kani::any();
    let s = unsafe { core::str::from_utf8_unchecked(&payload) };
    let mut e = Encoder::new();
    put_prefix::<K>(&mut e, pre);
    e.string(s);
    let buf = finish(e, t);
    let mut d = Decoder::new(&buf);
    get_prefix::<K>(&mut d, pre);
    let got = d.string().unwrap();
    let gb = got.as_bytes();
    assert!(gb.len() == L, "string length round-trips");
    if L > 0 {
        let i: usize = kani::any();
        kani::assume(i < L);
        assert!(gb[i] == payload[i], "string content round-trips");
    }
    check_end(d, t, buf.len());
    kani::cover!(true, "reached");
    core::mem::forget(buf);
    core::mem::forget(got);
}

fn enc_u8(x: &u8, e: &mut Encoder) -> Result<(), pallas_codec::flat::en::Error> {
    e.u8(*x)?;
    Ok(())
}

/// bit lists via encode_list_with / decode_list_with over u8, L elements (symbolic)
fn list_rt<const K: usize, const L: usize>() {
    let pre: u8 = kani::any();
    let items: [u8; L] = kani::any();
    let t: u8 = kani::any();
    let mut e = Encoder::new();
    put_prefix::<K>(&mut e, pre);
    e.encode_list_with(&items, enc_u8).unwrap();
    let buf = finish(e, t);
    let mut d = Decoder::new(&buf);
    get_prefix::<K>(&mut d, pre);
    let got = d.decode_list_with(|d| d.u8()).unwrap();
    assert!(got.len() == L, "list length round-trips");
    if L > 0 {
        let i: usize = kani::any();
        kani::assume(i < L);
        assert!(got[i] == items[i], "list items round-trip");
    }
    check_end(d, t, buf.len());
    kani::cover!(true, "reached");
    core::mem::forget(buf);
    core::mem::forget(got);
}

/// bits(n, val) / bits8(n) for n in 1..=8 symbolic, val < 2^n
fn bits_rt<const K: usize>() {
    let pre: u8 = kani::any();
    let n: usize = kani::any();
    kani::assume(n >= 1 && n <= 8);
    let v: u8 = kani::any();
    kani::assume((v as u16) < (1u16 << n));
    let t: u8 = kani::any();
    let mut e = Encoder::new();
    put_prefix::<K>(&mut e, pre);
    e.bits(n as i64, v);
    let buf = finish(e, t);
    let mut d = Decoder::new(&buf);
    get_prefix::<K>(&mut d, pre);
    let got = d.bits8(n).unwrap();
    assert!(got == v, "bits(n, v) round-trips through bits8(n)");
    check_end(d, t, buf.len());
    kani::cover!(n == 8, "full byte");
    kani::cover!(n == 3, "three bits");
    core::mem::forget(buf);
}

/// the encoder's filler after K symbolic bools is consumed by Decoder::filler and ends the buffer
fn filler_rt<const K: usize>() {
    let pre: u8 = kani::any();
    let mut e = Encoder::new();
    put_prefix::<K>(&mut e, pre);
    e.encode(Filler::FillerEnd).unwrap();
    let buf = e.buffer;
    let mut d = Decoder::new(&buf);
    get_prefix::<K>(&mut d, pre);
    let r = d.filler();
    assert!(r.is_ok(), "filler decodes");
    assert!(d.pos == buf.len() && d.used_bits == 0 && buf.len() == 1, "filler ends the buffer");
    kani::cover!(true, "reached");
    core::mem::forget(r);
    core::mem::forget(buf);
}

macro_rules! fam {
    ($name:ident, $body:ident, $k:expr, $unw:expr) => {
        #[kani::proof]
        #[kani::unwind($unw)]
        #[kani::stub(std::fmt::format, crate::stubs::fmt_format_stub)]
        fn $name() {
            $body::<$k>();
        }
    };
    ($name:ident, $body:ident, $k:expr, $l:expr, $unw:expr) => {
        #[kani::proof]
        #[kani::unwind($unw)]
        #[kani::stub(std::fmt::format, crate::stubs::fmt_format_stub)]
        fn $name() {
            $body::<$k, $l>();
        }
    };
}

// bound: word over the full 64-bit range (<= 10 groups, unwind 11), K leading symbolic bools, trailing symbolic u8
fam!(c01_t_word_a0, word_rt, 0, 11);
fam!(c01_q_word_a3, word_rt, 3, 11);
fam!(c01_t_word_a1, word_rt, 1, 11);
fam!(c01_t_word_a2, word_rt, 2, 11);
fam!(c01_t_word_a4, word_rt, 4, 11);
fam!(c01_t_word_a5, word_rt, 5, 11);
fam!(c01_t_word_a6, word_rt, 6, 11);
fam!(c01_t_word_a7, word_rt, 7, 11);
// bound: integer over the full isize range (zigzag, <= 10 groups, unwind 11), K leading symbolic bools, trailing symbolic u8
fam!(c01_t_int_a5, int_rt, 5, 11);
fam!(c01_t_int_a0, int_rt, 0, 11);
fam!(c01_t_int_a1, int_rt, 1, 11);
fam!(c01_t_int_a2, int_rt, 2, 11);
fam!(c01_t_int_a3, int_rt, 3, 11);
fam!(c01_t_int_a4, int_rt, 4, 11);
fam!(c01_t_int_a6, int_rt, 6, 11);
fam!(c01_t_int_a7, int_rt, 7, 11);
// bound: bool, u8, every char scalar value (<= 3 groups, unwind 4) in sequence after K leading symbolic bools
fam!(c01_q_small_a0, small_rt, 0, 4);
fam!(c01_t_small_a1, small_rt, 1, 4);
fam!(c01_t_small_a2, small_rt, 2, 4);
fam!(c01_q_small_a3, small_rt, 3, 4);
fam!(c01_t_small_a4, small_rt, 4, 4);
fam!(c01_t_small_a5, small_rt, 5, 4);
fam!(c01_t_small_a6, small_rt, 6, 4);
fam!(c01_t_small_a7, small_rt, 7, 4);
// bound: the encoder's filler after K symbolic bools, every K in 0..=7 (Decoder::filler <= 8 bit reads, unwind 9)
fam!(c01_q_filler_a0, filler_rt, 0, 9);
fam!(c01_q_filler_a1, filler_rt, 1, 9);
fam!(c01_q_filler_a2, filler_rt, 2, 9);
fam!(c01_q_filler_a3, filler_rt, 3, 9);
fam!(c01_q_filler_a4, filler_rt, 4, 9);
fam!(c01_q_filler_a5, filler_rt, 5, 9);
fam!(c01_q_filler_a6, filler_rt, 6, 9);
fam!(c01_q_filler_a7, filler_rt, 7, 9);
// bound: bits(n, v) / bits8(n), n symbolic in 1..=8, v < 2^n symbolic, after K symbolic bools
fam!(c01_t_bits_a0, bits_rt, 0, 2);
fam!(c01_q_bits_a3, bits_rt, 3, 2);
fam!(c01_t_bits_a6, bits_rt, 6, 2);
fam!(c01_t_bits_a1, bits_rt, 1, 2);
fam!(c01_t_bits_a2, bits_rt, 2, 2);
fam!(c01_t_bits_a4, bits_rt, 4, 2);
fam!(c01_t_bits_a5, bits_rt, 5, 2);
fam!(c01_t_bits_a7, bits_rt, 7, 2);
// bound: byte strings of concrete length L in 0..=3 with symbolic content (one block; unwind 9-K = the filler loop in front of the block), after K symbolic bools
fam!(c01_q_bytes0_a0, bytes_rt, 0, 0, 9);
fam!(c01_q_bytes3_a4, bytes_rt, 4, 3, 5);
fam!(c01_t_bytes1_a1, bytes_rt, 1, 1, 8);
fam!(c01_t_bytes2_a7, bytes_rt, 7, 2, 4);
fam!(c01_t_bytes3_a0, bytes_rt, 0, 3, 9);
fam!(c01_t_bytes0_a5, bytes_rt, 5, 0, 4);
fam!(c01_t_bytes2_a2, bytes_rt, 2, 2, 7);
fam!(c01_t_bytes1_a6, bytes_rt, 6, 1, 4);
fam!(c01_t_bytes3_a3, bytes_rt, 3, 3, 6);
// bound: Encoder::utf8 on L in 0..=3 symbolic ASCII chars read back with Decoder::bytes
fam!(c01_t_utf8_2_a6, utf8_rt, 6, 2, 5);
fam!(c01_t_utf8_0_a0, utf8_rt, 0, 0, 9);
fam!(c01_t_utf8_3_a3, utf8_rt, 3, 3, 6);
// bound: encode_list_with / decode_list_with over u8, L in 0..=2 symbolic elements (unwind 4)
fam!(c01_q_list2_a5, list_rt, 5, 2, 4);
fam!(c01_t_list0_a0, list_rt, 0, 0, 4);
fam!(c01_t_list1_a2, list_rt, 2, 1, 4);
fam!(c01_t_list2_a7, list_rt, 7, 2, 4);
fam!(c01_t_list1_a4, list_rt, 4, 1, 4);
// bound: byte strings of concrete length at the 255-byte block boundary (255 = one full block, 256 = two blocks), symbolic content
fam!(c01_t_bytes255_a0, bytes_rt, 0, 255, 9);
fam!(c01_t_bytes256_a3, bytes_rt, 3, 256, 6);

/// flat::encode(&v) -> flat::decode::<T>() (value + filler, the public top-level entry points)
macro_rules! top {
    ($name:ident, $t:ty, $unw:expr) => {
        #[kani::proof]
        #[kani::unwind($unw)]
        #[kani::stub(std::fmt::format, crate::stubs::fmt_format_stub)]
        fn $name() {
            let v: $t = kani::any();
            let buf = pallas_codec::flat::encode(&v).unwrap();
            let r = pallas_codec::flat::decode::<$t>(&buf);
            match &r {
                Ok(got) => assert!(*got == v, "flat::decode(flat::encode(v)) == v"),
                Err(_) => assert!(false, "flat::decode accepts flat::encode's output"),
            }
            kani::cover!(true, "reached");
            core::mem::forget(r);
            core::mem::forget(buf);
        }
    };
}
// bound: flat::encode / flat::decode::<T> on every value of T (value at alignment 0 + filler; unwind 9 = filler loop, 11 for 64-bit words)
top!(c01_q_top_bool, bool, 9);
top!(c01_q_top_u8, u8, 9);
top!(c01_t_top_char, char, 9);
top!(c01_t_top_usize, usize, 11);
top!(c01_t_top_isize, isize, 11);

/// bound: flat::encode / flat::decode::<Vec<u8>> on 2 symbolic bytes (unwind 9)
#[kani::proof]
#[kani::unwind(9)]
#[kani::stub(std::fmt::format, crate::stubs::fmt_format_stub)]
fn c01_t_top_vec2() {
    let p: [u8; 2] = kani::any();
    let v: Vec<u8> = p.to_vec();
    let buf = pallas_codec::flat::encode(&v).unwrap();
    let r = pallas_codec::flat::decode::<Vec<u8>>(&buf);
    match &r {
        Ok(got) => assert!(got.len() == 2 && got[0] == p[0] && got[1] == p[1], "flat::decode(flat::encode(v)) == v"),
        Err(_) => assert!(false, "flat::decode accepts flat::encode's output"),
    }
    kani::cover!(true, "reached");
    core::mem::forget(r);
    core::mem::forget(buf);
    core::mem::forget(v);
}

// ---- ordered pairs of values in one buffer (thorough) ----
trait Op {
    fn any() -> Self;
    fn put(&self, e: &mut Encoder);
    fn check(&self, d: &mut Decoder);
}
struct OBool(bool);
struct OU8(u8);
struct OWord(usize);
struct OBytes([u8; 2]);
impl Op for OBool {
    fn any() -> Self {
        OBool(kani::any())
    }
    fn put(&self, e: &mut Encoder) {
        e.bool(self.0);
    }
    fn check(&self, d: &mut Decoder) {
        assert!(d.bool().unwrap() == self.0, "bool round-trips inside a pair");
    }
}
impl Op for OU8 {
    fn any() -> Self {
        OU8(kani::any())
    }
    fn put(&self, e: &mut Encoder) {
        e.u8(self.0).unwrap();
    }
    fn check(&self, d: &mut Decoder) {
        assert!(d.u8().unwrap() == self.0, "u8 round-trips inside a pair");
    }
}
impl Op for OWord {
    fn any() -> Self {
        OWord(kani::any())
    }
    fn put(&self, e: &mut Encoder) {
        e.word(self.0);
    }
    fn check(&self, d: &mut Decoder) {
        assert!(d.word().unwrap() == self.0, "word round-trips inside a pair");
    }
}
impl Op for OBytes {
    /// 2 symbolic bytes (concrete length: symbolic lengths give no verdict)
    fn any() -> Self {
        OBytes(kani::any())
    }
    fn put(&self, e: &mut Encoder) {
        e.bytes(&self.0).unwrap();
    }
    fn check(&self, d: &mut Decoder) {
        let got = d.bytes().unwrap();
        assert!(got.len() == 2, "bytes length round-trips inside a pair");
        assert!(got[0] == self.0[0] && got[1] == self.0[1], "bytes content round-trips inside a pair");
        core::mem::forget(got);
    }
}
fn pair_rt<const K: usize, A: Op, B: Op>() {
    let pre: u8 = kani::any();
    let a = A::any();
    let b = B::any();
    let t: u8 = kani::any();
    let mut e = Encoder::new();
    put_prefix::<K>(&mut e, pre);
    a.put(&mut e);
    b.put(&mut e);
    let buf = finish(e, t);
    let mut d = Decoder::new(&buf);
    get_prefix::<K>(&mut d, pre);
    a.check(&mut d);
    b.check(&mut d);
    check_end(d, t, buf.len());
    kani::cover!(true, "reached");
    core::mem::forget(buf);
}
macro_rules! pair {
    ($name:ident, $k:expr, $a:ty, $b:ty, $unw:expr) => {
        #[kani::proof]
        #[kani::unwind($unw)]
        #[kani::stub(std::fmt::format, crate::stubs::fmt_format_stub)]
        fn $name() {
            pair_rt::<$k, $a, $b>();
        }
    };
}
// bound: ordered pairs over {bool, u8, word (full range), bytes (2 symbolic bytes)} after K in {3, 6} symbolic bools, then the trailing u8 (of the pairs with a word only bool-word, word-bool, word-u8: u8-word, word-word, word-bytes, bytes-word took 600 s or gave no verdict and are left to the composition argument)
pair!(c01_t_pair_bool_bool_a3, 3, OBool, OBool, 4);
pair!(c01_t_pair_bool_u8_a6, 6, OBool, OU8, 4);
pair!(c01_t_pair_bool_word_a3, 3, OBool, OWord, 11);
pair!(c01_t_pair_bool_bytes_a6, 6, OBool, OBytes, 4);
pair!(c01_t_pair_u8_bool_a3, 3, OU8, OBool, 4);
pair!(c01_t_pair_u8_u8_a6, 6, OU8, OU8, 4);
pair!(c01_t_pair_u8_bytes_a3, 3, OU8, OBytes, 6);
pair!(c01_t_pair_word_bool_a6, 6, OWord, OBool, 11);
pair!(c01_t_pair_word_u8_a3, 3, OWord, OU8, 11);
pair!(c01_t_pair_bytes_bool_a3, 3, OBytes, OBool, 6);
pair!(c01_t_pair_bytes_u8_a6, 6, OBytes, OU8, 4);
pair!(c01_t_pair_bytes_bytes_a6, 6, OBytes, OBytes, 9);


// ---- sequences: two consecutive values, the first one ending exactly on a byte boundary for some K, then the
// ---- filler directly (or a trailing u8 first); decoded with the same calls incl. Decoder::filler
struct OWord14(usize);
struct OBytes0;
struct OBytes1(u8);
struct OBits12(usize, u8);
struct OList1(u8);
impl Op for OWord14 {
    /// words below 2^14 (1 or 2 groups)
    fn any() -> Self {
        let v: usize = kani::any();
        kani::assume(v < (1 << 14));
        OWord14(v)
    }
    fn put(&self, e: &mut Encoder) {
        e.word(self.0);
    }
    fn check(&self, d: &mut Decoder) {
        assert!(d.word().unwrap() == self.0, "word round-trips as second value of a sequence");
    }
}
impl Op for OBytes0 {
    fn any() -> Self {
        OBytes0
    }
    fn put(&self, e: &mut Encoder) {
        e.bytes(&[]).unwrap();
    }
    fn check(&self, d: &mut Decoder) {
        let got = d.bytes().unwrap();
        assert!(got.len() == 0, "empty bytes round-trip as second value of a sequence");
        core::mem::forget(got);
    }
}
impl Op for OBytes1 {
    fn any() -> Self {
        OBytes1(kani::any())
    }
    fn put(&self, e: &mut Encoder) {
        e.bytes(&[self.0]).unwrap();
    }
    fn check(&self, d: &mut Decoder) {
        let got = d.bytes().unwrap();
        assert!(got.len() == 1 && got[0] == self.0, "1-byte string round-trips as second value of a sequence");
        core::mem::forget(got);
    }
}
impl Op for OBits12 {
    /// bits(n, v) with n symbolic in 1..=2 and v < 2^n
    fn any() -> Self {
        let n: usize = kani::any();
        kani::assume(n == 1 || n == 2);
        let v: u8 = kani::any();
        kani::assume((v as usize) < (1usize << n));
        OBits12(n, v)
    }
    fn put(&self, e: &mut Encoder) {
        e.bits(self.0 as i64, self.1);
    }
    fn check(&self, d: &mut Decoder) {
        assert!(d.bits8(self.0).unwrap() == self.1, "bits(n<=2) round-trip as first value of a sequence");
    }
}
impl Op for OList1 {
    fn any() -> Self {
        OList1(kani::any())
    }
    fn put(&self, e: &mut Encoder) {
        e.encode_list_with(&[self.0], enc_u8).unwrap();
    }
    fn check(&self, d: &mut Decoder) {
        let got = d.decode_list_with(|d| d.u8()).unwrap();
        assert!(got.len() == 1 && got[0] == self.0, "1-element list round-trips as first value of a sequence");
        core::mem::forget(got);
    }
}

/// K prefix bools, a, b, [trailing u8 if T], filler; decoded with the same calls; the filler is
/// checked as in check_end (bits8 over the rest of the last byte must give 0..01) and pos == len
fn seq2<const K: usize, const T: bool, A: Op, B: Op>() {
    let pre: u8 = kani::any();
    let a = A::any();
    let b = B::any();
    let t: u8 = kani::any();
    let mut e = Encoder::new();
    put_prefix::<K>(&mut e, pre);
    a.put(&mut e);
    b.put(&mut e);
    if T {
        e.u8(t).unwrap();
    }
    e.encode(Filler::FillerEnd).unwrap();
    let buf = e.buffer;
    let mut d = Decoder::new(&buf);
    get_prefix::<K>(&mut d, pre);
    a.check(&mut d);
    b.check(&mut d);
    if T {
        assert!(d.u8().unwrap() == t, "trailing byte after a sequence decodes");
    }
    let rest = 8 - d.used_bits as usize;
    assert!(d.bits8(rest).unwrap() == 1, "a sequence ends with the filler pattern");
    assert!(d.pos == buf.len() && d.used_bits == 0, "decoding a sequence consumes the whole buffer");
    core::mem::forget(buf);
}
/// shapes without a filler loop: (bool,bool) (bits(n<=2),bool) (bool,word<2^14) (list of one u8,bool)
fn seqa<const K: usize, const T: bool>() {
    seq2::<K, T, OBool, OBool>();
    seq2::<K, T, OBits12, OBool>();
    seq2::<K, T, OBool, OWord14>();
    seq2::<K, T, OList1, OBool>();
    kani::cover!(true, "all shapes executed");
}
/// (bool, bytes of length 0) / (bool, bytes of length 1): Decoder::bytes starts with the filler loop
fn seqb0<const K: usize, const T: bool>() {
    seq2::<K, T, OBool, OBytes0>();
    kani::cover!(true, "shape executed");
}
fn seqb1<const K: usize, const T: bool>() {
    seq2::<K, T, OBool, OBytes1>();
    kani::cover!(true, "shape executed");
}
/// (bool, filler directly) decoded with Decoder::filler itself
fn seqf<const K: usize>() {
    let pre: u8 = kani::any();
    let x: bool = kani::any();
    let mut e = Encoder::new();
    put_prefix::<K>(&mut e, pre);
    e.bool(x);
    e.encode(Filler::FillerEnd).unwrap();
    let buf = e.buffer;
    let mut d = Decoder::new(&buf);
    get_prefix::<K>(&mut d, pre);
    assert!(d.bool().unwrap() == x, "bool before the filler decodes");
    let r = d.filler();
    assert!(r.is_ok(), "filler directly after a bool decodes");
    assert!(d.pos == buf.len() && d.used_bits == 0, "decoding consumes the whole buffer");
    kani::cover!(buf.len() == if K == 7 { 2 } else { 1 }, "the filler is a byte of its own iff the bool completed a byte");
    core::mem::forget(r);
    core::mem::forget(buf);
}
macro_rules! seq {
    ($name:ident, $body:ident, $k:expr, $t:expr, $unw:expr) => {
        #[kani::proof]
        #[kani::unwind($unw)]
        #[kani::stub(std::fmt::format, crate::stubs::fmt_format_stub)]
        fn $name() {
            $body::<$k, $t>();
        }
    };
    ($name:ident, $body:ident, $k:expr, $unw:expr) => {
        #[kani::proof]
        #[kani::unwind($unw)]
        #[kani::stub(std::fmt::format, crate::stubs::fmt_format_stub)]
        fn $name() {
            $body::<$k>();
        }
    };
}
// bound: after K symbolic bools the two-value sequences (bool,bool) (bits(n<=2),bool) (bool,word<2^14) (list of one u8,bool), each followed by the filler directly (f) or by a symbolic u8 and the filler (u); all values symbolic (unwind 3)
seq!(c01_q_seqa_a5_f, seqa, 5, false, 3);
seq!(c01_q_seqa_a6_f, seqa, 6, false, 3);
seq!(c01_q_seqa_a7_f, seqa, 7, false, 3);
seq!(c01_t_seqa_a7_u, seqa, 7, true, 3);
seq!(c01_t_seqa_a0_f, seqa, 0, false, 3);
seq!(c01_t_seqa_a1_f, seqa, 1, false, 3);
seq!(c01_t_seqa_a2_f, seqa, 2, false, 3);
seq!(c01_t_seqa_a3_f, seqa, 3, false, 3);
seq!(c01_t_seqa_a4_f, seqa, 4, false, 3);
seq!(c01_t_seqa_a5_u, seqa, 5, true, 3);
seq!(c01_t_seqa_a6_u, seqa, 6, true, 3);
// bound: after K symbolic bools the sequences (bool, bytes of length 0) and (bool, one symbolic byte), followed by the filler directly (f) or by a symbolic u8 and the filler (u); unwind = the filler loop in front of the block (K=7: the bool completes the byte, 8 reads)
seq!(c01_q_seqb1_a7_f, seqb1, 7, false, 9);
seq!(c01_t_seqb0_a7_f, seqb0, 7, false, 9);
seq!(c01_t_seqb1_a5_f, seqb1, 5, false, 4);
seq!(c01_t_seqb0_a6_f, seqb0, 6, false, 4);
seq!(c01_t_seqb1_a7_u, seqb1, 7, true, 9);
seq!(c01_t_seqb0_a0_f, seqb0, 0, false, 8);
seq!(c01_t_seqb1_a3_u, seqb1, 3, true, 5);
// bound: after K symbolic bools a symbolic bool and then the filler directly, decoded with Decoder::filler (unwind 9), every K in 0..=7
seq!(c01_q_seqf_a5, seqf, 5, 9);
seq!(c01_q_seqf_a6, seqf, 6, 9);
seq!(c01_q_seqf_a7, seqf, 7, 9);
seq!(c01_t_seqf_a0, seqf, 0, 9);
seq!(c01_t_seqf_a1, seqf, 1, 9);
seq!(c01_t_seqf_a2, seqf, 2, 9);
seq!(c01_t_seqf_a3, seqf, 3, 9);
seq!(c01_t_seqf_a4, seqf, 4, 9);

/// vacuity twin: must come back FAILED
#[kani::proof]
#[kani::unwind(11)]
fn c01_v_twin() {
    let v: usize = kani::any();
    let mut e = Encoder::new();
    e.word(v);
    let buf = finish(e, 0);
    let mut d = Decoder::new(&buf);
    let got = d.word().unwrap();
    assert!(got != v, "twin: must fail");
    core::mem::forget(buf);
}
