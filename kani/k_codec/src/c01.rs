//! C01: flat codec round-trips values at any bit alignment.
//! fn: pallas_codec::flat::en::Encoder::{bool,u8,word,integer,char,bytes,utf8,string,bits,filler,encode_list_with}
//! fn: pallas_codec::flat::de::Decoder::{bool,u8,word,integer,char,bytes,utf8,string,bits8,filler,decode_list_with}
//! fn: pallas_codec::flat::zigzag::ZigZag for isize/usize
//! outside: sequences longer than (K bools, value, value?, u8) as one solver query (the encoder only appends and the decoder only reads at pos, so one-step results per alignment compose); byte strings above 511 bytes; big_integer (num-bigint feature off)
use pallas_codec::flat::de::Decoder;
use pallas_codec::flat::en::Encoder;
use pallas_codec::flat::filler::Filler;

#[derive(Clone, Copy)]
enum P {
    Bool,
    U8,
    Word,
    Int,
    Char,
}

/// write K leading bools (symbolic values) so that the value under test starts at bit offset K
fn put_prefix<const K: usize>(e: &mut Encoder, pre: u8) {
    let mut i = 0;
    while i < K {
        e.bool((pre >> i) & 1 == 1);
        i += 1;
    }
}
fn get_prefix<const K: usize>(d: &mut Decoder, pre: u8) {
    let mut i = 0;
    while i < K {
        let b = d.bool().unwrap();
        assert!(b == ((pre >> i) & 1 == 1), "prefix bit decodes");
        i += 1;
    }
}

fn finish(mut e: Encoder, t: u8) -> Vec<u8> {
    e.u8(t).unwrap();
    e.encode(Filler::FillerEnd).unwrap();
    e.buffer
}

fn check_end(mut d: Decoder, t: u8, len: usize) {
    assert!(d.u8().unwrap() == t, "trailing byte after the value decodes");
    d.filler().unwrap();
    assert!(d.pos == len && d.used_bits == 0, "decoding consumes the whole buffer");
}

fn word_rt<const K: usize>() {
    let pre: u8 = kani::any();
    let v: usize = kani::any();
    let t: u8 = kani::any();
    let mut e = Encoder::new();
    put_prefix::<K>(&mut e, pre);
    e.word(v);
    let buf = finish(e, t);
    let mut d = Decoder::new(&buf);
    get_prefix::<K>(&mut d, pre);
    let got = d.word().unwrap();
    assert!(got == v, "word round-trips");
    check_end(d, t, buf.len());
    kani::cover!(v > (1usize << 63), "10-group word");
    kani::cover!(v < 128, "1-group word");
    core::mem::forget(buf);
}

fn int_rt<const K: usize>() {
    let pre: u8 = kani::any();
    let v: isize = kani::any();
    let t: u8 = kani::any();
    let mut e = Encoder::new();
    put_prefix::<K>(&mut e, pre);
    e.integer(v);
    let buf = finish(e, t);
    let mut d = Decoder::new(&buf);
    get_prefix::<K>(&mut d, pre);
    let got = d.integer().unwrap();
    assert!(got == v, "integer round-trips");
    check_end(d, t, buf.len());
    kani::cover!(v == isize::MIN, "isize::MIN");
    kani::cover!(v == -1, "-1");
    core::mem::forget(buf);
}

fn small_rt<const K: usize>() {
    // bool, u8 and char in one harness (cheap)
    let pre: u8 = kani::any();
    let b: bool = kani::any();
    let x: u8 = kani::any();
    let c: char = kani::any();
    let t: u8 = kani::any();
    let mut e = Encoder::new();
    put_prefix::<K>(&mut e, pre);
    e.bool(b);
    e.u8(x).unwrap();
    e.char(c);
    let buf = finish(e, t);
    let mut d = Decoder::new(&buf);
    get_prefix::<K>(&mut d, pre);
    assert!(d.bool().unwrap() == b, "bool round-trips");
    assert!(d.u8().unwrap() == x, "u8 round-trips");
    assert!(d.char().unwrap() == c, "char round-trips");
    check_end(d, t, buf.len());
    kani::cover!(c as u32 > 0xFFFF, "3-group char");
    kani::cover!(b && x == 0xff, "all ones");
    core::mem::forget(buf);
}

/// bytes with symbolic content, length L concrete (block chunking decided by L)
fn bytes_rt<const K: usize, const L: usize>() {
    let pre: u8 = kani::any();
    let payload: [u8; L] = kani::any();
    let t: u8 = kani::any();
    let mut e = Encoder::new();
    put_prefix::<K>(&mut e, pre);
    e.bytes(&payload).unwrap();
    let buf = finish(e, t);
    let mut d = Decoder::new(&buf);
    get_prefix::<K>(&mut d, pre);
    let got = d.bytes().unwrap();
    assert!(got.len() == L, "bytes length round-trips");
    let mut i = 0;
    while i < L {
        assert!(got[i] == payload[i], "bytes content round-trips");
        i += 1;
    }
    check_end(d, t, buf.len());
    kani::cover!(true, "reached");
    core::mem::forget(buf);
    core::mem::forget(got);
}

/// bytes with symbolic length 0..=3 and symbolic content
fn bytes_symlen_rt<const K: usize>() {
    let pre: u8 = kani::any();
    let payload: [u8; 3] = kani::any();
    let n: usize = kani::any();
    kani::assume(n <= 3);
    let t: u8 = kani::any();
    let mut e = Encoder::new();
    put_prefix::<K>(&mut e, pre);
    e.bytes(&payload[..n]).unwrap();
    let buf = finish(e, t);
    let mut d = Decoder::new(&buf);
    get_prefix::<K>(&mut d, pre);
    let got = d.bytes().unwrap();
    assert!(got.len() == n, "bytes length round-trips");
    let mut i = 0;
    while i < 3 {
        if i < n {
            assert!(got[i] == payload[i], "bytes content round-trips");
        }
        i += 1;
    }
    check_end(d, t, buf.len());
    kani::cover!(n == 0, "empty");
    kani::cover!(n == 3, "three");
    core::mem::forget(buf);
    core::mem::forget(got);
}

/// utf8 strings: ASCII content (symbolic), length symbolic 0..=3
fn utf8_rt<const K: usize>() {
    let pre: u8 = kani::any();
    let payload: [u8; 3] = kani::any();
    kani::assume(payload[0] < 128 && payload[1] < 128 && payload[2] < 128);
    let n: usize = kani::any();
    kani::assume(n <= 3);
    let t: u8 = kani::any();
    let s = core::str::from_utf8(&payload[..n]).unwrap();
    let mut e = Encoder::new();
    put_prefix::<K>(&mut e, pre);
    e.utf8(s).unwrap();
    let buf = finish(e, t);
    let mut d = Decoder::new(&buf);
    get_prefix::<K>(&mut d, pre);
    let got = d.utf8().unwrap();
    let gb = got.as_bytes();
    assert!(gb.len() == n, "utf8 length round-trips");
    let mut i = 0;
    while i < 3 {
        if i < n {
            assert!(gb[i] == payload[i], "utf8 content round-trips");
        }
        i += 1;
    }
    check_end(d, t, buf.len());
    kani::cover!(n == 3, "three chars");
    core::mem::forget(buf);
    core::mem::forget(got);
}

/// `string` (list of chars, one bit per element) with 0..=2 symbolic ASCII chars,
/// and bit lists via encode_list_with / decode_list_with over u8, 0..=2 elements
fn list_rt<const K: usize>() {
    let pre: u8 = kani::any();
    let items: [u8; 2] = kani::any();
    let n: usize = kani::any();
    kani::assume(n <= 2);
    let t: u8 = kani::any();
    let mut e = Encoder::new();
    put_prefix::<K>(&mut e, pre);
    fn enc_u8(x: &u8, e: &mut Encoder) -> Result<(), pallas_codec::flat::en::Error> {
        e.u8(*x)?;
        Ok(())
    }
    e.encode_list_with(&items[..n], enc_u8).unwrap();
    let buf = finish(e, t);
    let mut d = Decoder::new(&buf);
    get_prefix::<K>(&mut d, pre);
    let got = d.decode_list_with(|d| d.u8()).unwrap();
    assert!(got.len() == n, "list length round-trips");
    if n > 0 {
        assert!(got[0] == items[0], "list item 0");
    }
    if n > 1 {
        assert!(got[1] == items[1], "list item 1");
    }
    check_end(d, t, buf.len());
    kani::cover!(n == 2, "two items");
    kani::cover!(n == 0, "empty list");
    core::mem::forget(buf);
    core::mem::forget(got);
}

/// bits(n, val) / bits8(n) for n in 1..=8 symbolic, val < 2^n
fn bits_rt<const K: usize>() {
    let pre: u8 = kani::any();
    let n: usize = kani::any();
    kani::assume(n >= 1 && n <= 8);
    let v: u8 = kani::any();
    kani::assume((v as u16) < (1u16 << n));
    let t: u8 = kani::any();
    let mut e = Encoder::new();
    put_prefix::<K>(&mut e, pre);
    e.bits(n as i64, v);
    let buf = finish(e, t);
    let mut d = Decoder::new(&buf);
    get_prefix::<K>(&mut d, pre);
    let got = d.bits8(n).unwrap();
    assert!(got == v, "bits(n, v) round-trips through bits8(n)");
    check_end(d, t, buf.len());
    kani::cover!(n == 8, "full byte");
    kani::cover!(n == 3, "three bits");
    core::mem::forget(buf);
}

macro_rules! fam {
    ($name:ident, $body:ident, $k:expr, $unw:expr) => {
        #[kani::proof]
        #[kani::unwind($unw)]
        #[kani::stub(std::fmt::format, crate::stubs::fmt_format_stub)]
        fn $name() {
            $body::<$k>();
        }
    };
    ($name:ident, $body:ident, $k:expr, $l:expr, $unw:expr) => {
        #[kani::proof]
        #[kani::unwind($unw)]
        #[kani::stub(std::fmt::format, crate::stubs::fmt_format_stub)]
        fn $name() {
            $body::<$k, $l>();
        }
    };
}

// bound: word/integer over the full 64-bit range (<= 10 groups, unwind 12), K leading symbolic bools
fam!(c01_q_word_a0, word_rt, 0, 12);
fam!(c01_q_word_a3, word_rt, 3, 12);
fam!(c01_q_word_a7, word_rt, 7, 12);
fam!(c01_t_word_a1, word_rt, 1, 12);
fam!(c01_t_word_a2, word_rt, 2, 12);
fam!(c01_t_word_a4, word_rt, 4, 12);
fam!(c01_t_word_a5, word_rt, 5, 12);
fam!(c01_t_word_a6, word_rt, 6, 12);
fam!(c01_q_int_a0, int_rt, 0, 12);
fam!(c01_q_int_a5, int_rt, 5, 12);
fam!(c01_t_int_a1, int_rt, 1, 12);
fam!(c01_t_int_a2, int_rt, 2, 12);
fam!(c01_t_int_a3, int_rt, 3, 12);
fam!(c01_t_int_a4, int_rt, 4, 12);
fam!(c01_t_int_a6, int_rt, 6, 12);
fam!(c01_t_int_a7, int_rt, 7, 12);
// bound: bool, u8, every char scalar value, at every alignment 0..7
fam!(c01_q_small_a0, small_rt, 0, 9);
fam!(c01_q_small_a1, small_rt, 1, 9);
fam!(c01_q_small_a2, small_rt, 2, 9);
fam!(c01_q_small_a3, small_rt, 3, 9);
fam!(c01_q_small_a4, small_rt, 4, 9);
fam!(c01_q_small_a5, small_rt, 5, 9);
fam!(c01_q_small_a6, small_rt, 6, 9);
fam!(c01_q_small_a7, small_rt, 7, 9);
// bound: byte strings with symbolic content, symbolic length 0..=3
fam!(c01_q_bytes_a0, bytes_symlen_rt, 0, 9);
fam!(c01_q_bytes_a4, bytes_symlen_rt, 4, 9);
fam!(c01_t_bytes_a1, bytes_symlen_rt, 1, 9);
fam!(c01_t_bytes_a7, bytes_symlen_rt, 7, 9);
fam!(c01_q_utf8_a0, utf8_rt, 0, 9);
fam!(c01_q_utf8_a6, utf8_rt, 6, 9);
fam!(c01_q_list_a0, list_rt, 0, 9);
fam!(c01_q_list_a5, list_rt, 5, 9);
fam!(c01_t_list_a2, list_rt, 2, 9);
fam!(c01_t_list_a7, list_rt, 7, 9);
fam!(c01_q_bits_a0, bits_rt, 0, 9);
fam!(c01_q_bits_a3, bits_rt, 3, 9);
fam!(c01_t_bits_a1, bits_rt, 1, 9);
fam!(c01_t_bits_a2, bits_rt, 2, 9);
fam!(c01_t_bits_a4, bits_rt, 4, 9);
fam!(c01_t_bits_a5, bits_rt, 5, 9);
fam!(c01_t_bits_a6, bits_rt, 6, 9);
fam!(c01_t_bits_a7, bits_rt, 7, 9);
// bound: byte strings of concrete length at the 255-byte block boundary, symbolic content
fam!(c01_t_bytes255_a0, bytes_rt, 0, 255, 258);
fam!(c01_t_bytes256_a3, bytes_rt, 3, 256, 258);
fam!(c01_t_bytes511_a0, bytes_rt, 0, 511, 514);

/// vacuity twin: must come back FAILED
#[kani::proof]
#[kani::unwind(12)]
fn c01_v_twin() {
    let v: usize = kani::any();
    let mut e = Encoder::new();
    e.word(v);
    let buf = finish(e, 0);
    let mut d = Decoder::new(&buf);
    let got = d.word().unwrap();
    assert!(got != v, "twin: must fail");
    core::mem::forget(buf);
}
