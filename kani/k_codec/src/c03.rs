//! C03: CBOR helper wrappers round-trip and preserve original encodings.
//! fn: pallas_codec::utils::{KeyValuePairs,NonEmptyKeyValuePairs,MaybeIndefArray,OrderPreservingProperties,CborWrap,TagWrap,EmptyMap,ZeroOrOneArray,Set,NonEmptySet,AnyUInt,PositiveCoin,NonZeroInt,KeepRaw,AnyCbor,Nullable,Bytes,Int}::{decode,encode}
//! fn: pallas_codec::utils::KeepRaw::{raw_cbor,deref,deref_mut,clear_raw,from}
//! fn: pallas_codec::codec_by_datatype! (decode/encode generated for a 3-variant harness enum)
//! stub: std::fmt::format -> empty String
//! stub: minicbor::encode::Error::write -> Error::message (kind of a write error only)
//! assume: value -> bytes -> value decodes from the encoding followed by arbitrary bytes and requires position == encoded length (symbolic slice lengths make every read fallible and cost 7x); bytes -> value -> bytes uses buffers of exactly the laid-out item length
//! assume: minicbor 0.26.5 primitive codecs (u8..u64, bool, tuples, Vec, tag/array/map heads, skip) are executed as they are, not modelled
//! outside: KeyValuePairs / NonEmptyKeyValuePairs / OrderPreservingProperties with 2 entries (value round-trip and exactness: no verdict in 1000..1500 s even with bool payloads) and their value round-trip with 1 entry as a single query (no verdict in 700 s; covered through bytes->value->bytes on every minimal-head class + decoder determinism); AnyCbor on arrays / maps / tags / a fully symbolic buffer and AnyCbor::from_encode (Decoder::skip behind symbolic heads: CBMC abort or no verdict in 700..900 s); KeyValuePairs with KeepRaw items; nested MaybeIndefArray (depth 2: no verdict in 700 s); indefinite 1-entry maps whose items are immediates (symbolic head bytes next to the break test: no verdict in 1500 s; the 18 xx class is checked)
//! outside: containers with more than 2 elements, nesting of containers (property: depth 3; here only Nullable<KeepRaw>, MaybeIndefArray<KeepRaw>, CborWrap/TagWrap over integers), payload types other than u8/u32/u64, buffers longer than 10 bytes; SkipCbor (encode is todo!()); serde impls; HashMap conversions (not executable under the model checker)
//! outside: KeepRaw equality is asserted on (inner value, raw bytes == own encoding), not with the derived PartialEq: KeepRaw::from(v) has an empty raw by design
use pallas_codec::minicbor::{self, encode::write::Cursor, Decoder, Encoder};
use pallas_codec::utils::*;
use std::ops::{Deref, DerefMut};

const OUT: usize = 24;

/// encode `v` into a fixed array whose initial content is arbitrary (so whatever follows the
/// encoding is arbitrary); returns (array, used length)
fn enc<T: minicbor::Encode<()>>(v: &T) -> ([u8; OUT], usize) {
    let mut e = Encoder::new(Cursor::new(kani::any::<[u8; OUT]>()));
    let r = e.encode(v);
    assert!(r.is_ok(), "encoding succeeds");
    core::mem::forget(r);
    let c = e.into_writer();
    let n = c.position();
    (c.into_inner(), n)
}

// ---------------------------------------------------------------------------------------------
// (a) value -> bytes -> value
// ---------------------------------------------------------------------------------------------

/// symbolic parts `(a: T, ..)` are declared first; $build makes the value from them, $same compares the decoded value `g` with them
macro_rules! v2b {
    ($name:ident, $t:ty, $unw:expr, ($($s:ident : $st:ty),*), $build:expr, |$g:ident| $same:expr, |$n:ident| $cov:expr) => {
        #[kani::proof]
        #[kani::unwind($unw)]
        #[kani::stub(std::fmt::format, crate::stubs::fmt_format_stub)]
        #[kani::stub(pallas_codec::minicbor::encode::Error::write, crate::stubs::mcb_write_err_stub)]
        fn $name() {
            $(let $s: $st = kani::any();)*
            let val: $t = $build;
            let (buf, $n) = enc(&val);
            let mut d = Decoder::new(&buf);
            let r: Result<$t, _> = d.decode();
            match &r {
                Ok($g) => assert!($same, "decoding the encoding yields an equal value"),
                Err(_) => assert!(false, "the encoding of a value decodes"),
            }
            assert!(d.position() == $n, "decoding consumes exactly the encoding");
            kani::cover!($cov, "witness");
            core::mem::forget(r);
            core::mem::forget(val);
        }
    };
}

fn kv_is<K: Clone + PartialEq, V: Clone + PartialEq>(g: &KeyValuePairs<K, V>, def: bool, want: &[(K, V)]) -> bool {
    match g {
        KeyValuePairs::Def(x) => def && pairs_are(x, want),
        KeyValuePairs::Indef(x) => !def && pairs_are(x, want),
    }
}
fn nekv_is<K: Clone + PartialEq, V: Clone + PartialEq>(g: &NonEmptyKeyValuePairs<K, V>, def: bool, want: &[(K, V)]) -> bool {
    match g {
        NonEmptyKeyValuePairs::Def(x) => def && pairs_are(x, want),
        NonEmptyKeyValuePairs::Indef(x) => !def && pairs_are(x, want),
    }
}
fn pairs_are<K: PartialEq, V: PartialEq>(v: &Vec<(K, V)>, want: &[(K, V)]) -> bool {
    if v.len() != want.len() {
        return false;
    }
    if want.len() > 0 && !(v[0].0 == want[0].0 && v[0].1 == want[0].1) {
        return false;
    }
    if want.len() > 1 && !(v[1].0 == want[1].0 && v[1].1 == want[1].1) {
        return false;
    }
    true
}
fn arr_is<A: PartialEq>(g: &MaybeIndefArray<A>, def: bool, want: &[A]) -> bool {
    match g {
        MaybeIndefArray::Def(x) => def && vec_is(x, want),
        MaybeIndefArray::Indef(x) => !def && vec_is(x, want),
    }
}
fn vec_is<A: PartialEq>(v: &Vec<A>, want: &[A]) -> bool {
    if v.len() != want.len() {
        return false;
    }
    if want.len() > 0 && !(v[0] == want[0]) {
        return false;
    }
    if want.len() > 1 && !(v[1] == want[1]) {
        return false;
    }
    true
}

// bound: KeyValuePairs with 0 entries, Def and Indef (non-empty maps: value round-trip gives no verdict in 700 s even for one entry; it follows from the bytes->value->bytes harnesses below, which cover every definite 1-entry map over minimal u8 heads and the indefinite one over 18 xx heads, and the determinism of the decoder)
v2b!(c03_t_v2b_kvp_def0, KeyValuePairs<u8, u8>, 3, (), KeyValuePairs::Def(vec![]), |g| kv_is(g, true, &[]), |n| n == 1);
v2b!(c03_q_v2b_kvp_indef0, KeyValuePairs<u8, u8>, 3, (), KeyValuePairs::Indef(vec![]), |g| kv_is(g, false, &[]), |n| n == 2);

// bound: MaybeIndefArray with 0..=2 symbolic elements of bool/u8/u32/u64, Def and Indef (concrete per harness; 2 integer elements: thorough only)
v2b!(c03_t_v2b_mia_def0, MaybeIndefArray<u8>, 3, (), MaybeIndefArray::Def(vec![]), |g| arr_is(g, true, &[]), |n| n == 1);
v2b!(c03_q_v2b_mia_indef0, MaybeIndefArray<u8>, 3, (), MaybeIndefArray::Indef(vec![]), |g| arr_is(g, false, &[]), |n| n == 2);
v2b!(c03_q_v2b_mia_def1_u32, MaybeIndefArray<u32>, 4, (a: u32), MaybeIndefArray::Def(vec![a]), |g| arr_is(g, true, &[a]), |n| n == 6);
v2b!(c03_t_v2b_mia_indef2_bool, MaybeIndefArray<bool>, 5, (a: bool, b: bool), MaybeIndefArray::Indef(vec![a, b]), |g| arr_is(g, false, &[a, b]), |n| n == 4);
v2b!(c03_q_v2b_mia_def2_bool, MaybeIndefArray<bool>, 5, (a: bool, b: bool), MaybeIndefArray::Def(vec![a, b]), |g| arr_is(g, true, &[a, b]), |n| n == 3);
v2b!(c03_x_v2b_mia_indef1_u64, MaybeIndefArray<u64>, 4, (a: u64), MaybeIndefArray::Indef(vec![a]), |g| arr_is(g, false, &[a]), |n| n == 11);

// bound: Set / NonEmptySet (always written with tag 258) with 0..=2 symbolic elements of bool/u8/u32/u64 (2 integer elements: thorough only)
v2b!(c03_t_v2b_set0, Set<u8>, 3, (), Set::from(vec![]), |g| vec_is(g.deref(), &[]), |n| n == 4);
v2b!(c03_q_v2b_set1_u32, Set<u32>, 4, (a: u32), Set::from(vec![a]), |g| vec_is(g.deref(), &[a]), |n| n == 9);
v2b!(c03_q_v2b_set2_bool, Set<bool>, 5, (a: bool, b: bool), Set::from(vec![a, b]), |g| vec_is(g.deref(), &[a, b]), |n| n == 6);
v2b!(c03_t_v2b_set2_u8, Set<u8>, 5, (a: u8, b: u8), Set::from(vec![a, b]), |g| vec_is(g.deref(), &[a, b]), |n| n == 8);
v2b!(c03_t_v2b_neset1_u64, NonEmptySet<u64>, 4, (a: u64), NonEmptySet::from_vec(vec![a]).unwrap(), |g| vec_is(g.deref(), &[a]), |n| n == 13);
v2b!(c03_q_v2b_neset2_bool, NonEmptySet<bool>, 5, (a: bool, b: bool), NonEmptySet::try_from(vec![a, b]).unwrap(), |g| vec_is(g.deref(), &[a, b]), |n| n == 6);

// bound: Nullable<u8|u32> over Some(symbolic) / Null / Undefined
v2b!(c03_q_v2b_nullable_some_u32, Nullable<u32>, 3, (a: u32), Nullable::Some(a), |g| matches!(g, Nullable::Some(x) if *x == a), |n| n == 5);
v2b!(c03_q_v2b_nullable_null, Nullable<u8>, 3, (), Nullable::Null, |g| matches!(g, Nullable::Null), |n| n == 1);
v2b!(c03_t_v2b_nullable_undef, Nullable<u8>, 3, (), Nullable::Undefined, |g| matches!(g, Nullable::Undefined), |n| n == 1);

// bound: CborWrap<u8|u32|u64> (tag 24 + byte string holding the inner encoding), TagWrap<_, T> for T in {2, 24, 258}
v2b!(c03_q_v2b_cborwrap_u32, CborWrap<u32>, 4, (a: u32), CborWrap(a), |g| g.0 == a, |n| n == 8);
v2b!(c03_t_v2b_cborwrap_u64, CborWrap<u64>, 4, (a: u64), CborWrap(a), |g| g.0 == a, |n| n == 12);
v2b!(c03_t_v2b_cborwrap_u8, CborWrap<u8>, 4, (a: u8), CborWrap(a), |g| g.0 == a, |n| n == 5);
v2b!(c03_q_v2b_tagwrap_u32_t24, TagWrap<u32, 24>, 3, (a: u32), TagWrap::new(a), |g| g.0 == a, |n| n == 7);
v2b!(c03_q_v2b_tagwrap_u64_t258, TagWrap<u64, 258>, 3, (a: u64), TagWrap::from(a), |g| g.0 == a, |n| n == 12);
v2b!(c03_t_v2b_tagwrap_u8_t2, TagWrap<u8, 2>, 3, (a: u8), TagWrap(a), |g| g.0 == a, |n| n == 3);

// bound: EmptyMap (unit)
v2b!(c03_q_v2b_emptymap, EmptyMap, 3, (), EmptyMap, |g| *g == EmptyMap, |n| n == 1);

// bound: AnyUInt, one harness per variant, payload over the variant's full range (MajorByte: the CBOR immediates 0..=0x17)
v2b!(c03_q_v2b_anyuint_major, AnyUInt, 4, (a: u8), { kani::assume(a <= 0x17); AnyUInt::MajorByte(a) }, |g| *g == AnyUInt::MajorByte(a), |n| n == 1);
v2b!(c03_q_v2b_anyuint_u8, AnyUInt, 4, (a: u8), AnyUInt::U8(a), |g| *g == AnyUInt::U8(a), |n| n == 2);
v2b!(c03_t_v2b_anyuint_u16, AnyUInt, 4, (a: u16), AnyUInt::U16(a), |g| *g == AnyUInt::U16(a), |n| n == 3);
v2b!(c03_q_v2b_anyuint_u32, AnyUInt, 4, (a: u32), AnyUInt::U32(a), |g| *g == AnyUInt::U32(a), |n| n == 5);
v2b!(c03_t_v2b_anyuint_u64, AnyUInt, 4, (a: u64), AnyUInt::U64(a), |g| *g == AnyUInt::U64(a), |n| n == 9);
// bound: AnyUInt::MajorByte over the whole u8 payload the public variant admits (0x18..=0xff are not CBOR immediates)
v2b!(c03_q_v2b_anyuint_major_wide, AnyUInt, 4, (a: u8), AnyUInt::MajorByte(a), |g| *g == AnyUInt::MajorByte(a), |n| n == 1);

// bound: PositiveCoin over 1..=u64::MAX, NonZeroInt over i64 without 0 (values from the checked constructors)
v2b!(c03_t_v2b_positive_coin, PositiveCoin, 3, (a: u64), { kani::assume(a != 0); PositiveCoin::try_from(a).unwrap() }, |g| u64::from(*g) == a, |n| n == 9);
v2b!(c03_t_v2b_nonzero_int, NonZeroInt, 3, (a: i64), { kani::assume(a != 0); NonZeroInt::try_from(a).unwrap() }, |g| i64::from(*g) == a, |n| n == 9);

// bound: Int over the full CBOR integer range -2^64..=2^64-1
v2b!(c03_q_v2b_int, Int, 3, (a: i128), { kani::assume(a >= -(1i128 << 64) && a < (1i128 << 64)); Int::try_from(a).unwrap() }, |g| i128::from(*g) == a, |n| n == 9);

// bound: Bytes with 0 or 2 symbolic bytes (length concrete per harness)
v2b!(c03_t_v2b_bytes0, Bytes, 3, (), Bytes::from(vec![]), |g| g.deref().len() == 0, |n| n == 1);
v2b!(c03_q_v2b_bytes2, Bytes, 4, (a: u8, b: u8), Bytes::from(vec![a, b]), |g| vec_is(g.deref(), &[a, b]), |n| n == 3);

/// a property in the style of the era codecs: one map entry = key item followed by value item
#[derive(Clone, Copy, PartialEq)]
struct Prop {
    k: u8,
    v: u32,
}
impl kani::Arbitrary for Prop {
    fn any() -> Self {
        Prop { k: kani::any(), v: kani::any() }
    }
}
impl<C> minicbor::Encode<C> for Prop {
    fn encode<W: minicbor::encode::Write>(&self, e: &mut Encoder<W>, _: &mut C) -> Result<(), minicbor::encode::Error<W::Error>> {
        e.u8(self.k)?.u32(self.v)?;
        Ok(())
    }
}
impl<'b, C> minicbor::Decode<'b, C> for Prop {
    fn decode(d: &mut Decoder<'b>, _: &mut C) -> Result<Self, minicbor::decode::Error> {
        Ok(Prop { k: d.u8()?, v: d.u32()? })
    }
}
// bound: OrderPreservingProperties with 0 entries (1 entry: see the bytes->value->bytes harnesses)
v2b!(c03_t_v2b_opp0, OrderPreservingProperties<Prop>, 3, (), OrderPreservingProperties::from(vec![]), |g| g.deref().len() == 0, |n| n == 1);


/// bound: KeepRaw::from(symbolic u32) (empty raw: encodes the inner value); decoded inner equal and decoded raw == the encoding
#[kani::proof]
#[kani::unwind(3)]
#[kani::stub(std::fmt::format, crate::stubs::fmt_format_stub)]
#[kani::stub(pallas_codec::minicbor::encode::Error::write, crate::stubs::mcb_write_err_stub)]
fn c03_q_v2b_keepraw_u32() {
    let a: u32 = kani::any();
    let val = KeepRaw::from(a);
    assert!(val.raw_cbor().is_empty(), "KeepRaw::from has no raw bytes");
    let (buf, n) = enc(&val);
    let mut d = Decoder::new(&buf);
    let r: Result<KeepRaw<u32>, _> = d.decode();
    match &r {
        Ok(g) => {
            assert!(**g == a, "decoding the encoding yields an equal inner value");
            assert!(g.raw_cbor().len() == n, "raw bytes are the whole encoding");
            let i: usize = kani::any();
            kani::assume(i < n);
            assert!(g.raw_cbor()[i] == buf[i], "raw bytes are the whole encoding");
        }
        Err(_) => assert!(false, "the encoding of a value decodes"),
    }
    assert!(d.position() == n, "decoding consumes exactly the encoding");
    kani::cover!(n == 5, "4-byte payload");
    kani::cover!(n == 1, "immediate");
    core::mem::forget(r);
    core::mem::forget(val);
}

/// bound: ZeroOrOneArray<u32> has no public constructor: values are obtained from the two accepted shapes (80 / 81 + symbolic u32 item), then value -> bytes -> value
#[kani::proof]
#[kani::unwind(3)]
#[kani::stub(std::fmt::format, crate::stubs::fmt_format_stub)]
#[kani::stub(pallas_codec::minicbor::encode::Error::write, crate::stubs::mcb_write_err_stub)]
fn c03_t_v2b_zero_or_one() {
    let mut src: [u8; 6] = kani::any();
    let one: bool = kani::any();
    src[0] = if one { 0x81 } else { 0x80 };
    let r0: Result<ZeroOrOneArray<u32>, _> = minicbor::decode(&src);
    if let Ok(val) = &r0 {
        assert!(val.deref().is_some() == one, "array length decides the option");
        let (buf, n) = enc(val);
        let mut d = Decoder::new(&buf);
        let r: Result<ZeroOrOneArray<u32>, _> = d.decode();
        match &r {
            Ok(g) => assert!(*g.deref() == *val.deref(), "decoding the encoding yields an equal value"),
            Err(_) => assert!(false, "the encoding of a value decodes"),
        }
        assert!(d.position() == n, "decoding consumes exactly the encoding");
        core::mem::forget(r);
    }
    kani::cover!(r0.is_ok() && one, "one element");
    kani::cover!(r0.is_ok() && !one, "zero elements");
    core::mem::forget(r0);
}

// ---------------------------------------------------------------------------------------------
// (d) codec_by_datatype!
// ---------------------------------------------------------------------------------------------
#[derive(Clone, PartialEq)]
enum Thing {
    Coin(u32),
    Change(bool),
    Multi(bool, u8, bool),
}
pallas_codec::codec_by_datatype! {
    Thing,
    U8 | U16 | U32 => Coin,
    Bool => Change,
    (b, u, i => Multi)
}
// bound: codec_by_datatype! on a 3-variant enum (u32 | bool | array of (bool, u8, bool)), variant concrete per harness, fields symbolic
v2b!(c03_q_v2b_bydt_coin, Thing, 3, (a: u32), Thing::Coin(a), |g| matches!(g, Thing::Coin(x) if *x == a), |n| n == 5);
v2b!(c03_t_v2b_bydt_change, Thing, 3, (a: bool), Thing::Change(a), |g| matches!(g, Thing::Change(x) if *x == a), |n| n == 1);
v2b!(c03_t_v2b_bydt_multi, Thing, 3, (a: bool, b: u8, c: bool), Thing::Multi(a, b, c), |g| matches!(g, Thing::Multi(x, y, z) if *x == a && *y == b && *z == c), |n| n == 5);

// ---------------------------------------------------------------------------------------------
// (b) bytes -> value -> bytes for the form-preserving wrappers
// ---------------------------------------------------------------------------------------------

/// re-encode `v`; it must be byte for byte the consumed prefix of the input
fn same_bytes<const N: usize, T: minicbor::Encode<()>>(v: &T, input: &[u8; N], consumed: usize) {
    let (out, m) = enc(v);
    assert!(m == consumed, "re-encoding has the length of the consumed input");
    let i: usize = kani::any();
    kani::assume(i < consumed && i < m && i < N);
    assert!(out[i] == input[i], "re-encoding equals the consumed input byte for byte");
}

/// $lay lays the concrete structural bytes / class constraints over a fully symbolic [u8; $n]
/// ($n = the exact length of the laid-out item where the class fixes it)
macro_rules! b2b {
    ($name:ident, $t:ty, $n:expr, $unw:expr, |$b:ident| $lay:block) => {
        #[kani::proof]
        #[kani::unwind($unw)]
        #[kani::stub(std::fmt::format, crate::stubs::fmt_format_stub)]
        #[kani::stub(pallas_codec::minicbor::encode::Error::write, crate::stubs::mcb_write_err_stub)]
        fn $name() {
            let mut $b: [u8; $n] = kani::any();
            $lay;
            let mut d = Decoder::new(&$b);
            let r: Result<$t, _> = d.decode();
            if let Ok(v) = &r {
                same_bytes(v, &$b, d.position());
            }
            kani::cover!(r.is_ok() && d.position() == $n, "an input of this class is accepted and uses the whole buffer");
            core::mem::forget(r);
        }
    };
}

/// like b2b!, for classes where the accepted item may be shorter than the buffer
macro_rules! b2bx {
    ($name:ident, $t:ty, $n:expr, $unw:expr, |$b:ident| $lay:block) => {
        #[kani::proof]
        #[kani::unwind($unw)]
        #[kani::stub(std::fmt::format, crate::stubs::fmt_format_stub)]
        #[kani::stub(pallas_codec::minicbor::encode::Error::write, crate::stubs::mcb_write_err_stub)]
        fn $name() {
            let mut $b: [u8; $n] = kani::any();
            $lay;
            let mut d = Decoder::new(&$b);
            let r: Result<$t, _> = d.decode();
            if let Ok(v) = &r {
                same_bytes(v, &$b, d.position());
            }
            kani::cover!(r.is_ok() && d.position() > 1, "an input of this class with more than the head byte is accepted");
            kani::cover!(r.is_err(), "an input of this class is rejected");
            core::mem::forget(r);
        }
    };
}

// bound: AnyUInt from a buffer of exactly the item length, split by the class of the head byte (immediate 00..17 / 18 xx / 19 xxxx / 1a / 1b), payload symbolic
b2b!(c03_q_b2b_anyuint_imm, AnyUInt, 1, 4, |b| { kani::assume(b[0] <= 0x17); });
b2b!(c03_q_b2b_anyuint_h18, AnyUInt, 2, 4, |b| { b[0] = 0x18; });
b2b!(c03_t_b2b_anyuint_h19, AnyUInt, 3, 4, |b| { b[0] = 0x19; });
b2b!(c03_q_b2b_anyuint_h1a, AnyUInt, 5, 4, |b| { b[0] = 0x1a; });
b2b!(c03_t_b2b_anyuint_h1b, AnyUInt, 9, 4, |b| { b[0] = 0x1b; });

// bound: KeepRaw<u32> from an arbitrary (fully symbolic) buffer of 1, 2, 3, 5 and 9 bytes: every head the u32 decoder accepts incl. non-minimal ones, with and without trailing bytes
b2b!(c03_t_b2b_keepraw_u32_n1, KeepRaw<u32>, 1, 3, |b| {});
b2b!(c03_q_b2b_keepraw_u32_n2, KeepRaw<u32>, 2, 3, |b| {});
b2b!(c03_t_b2b_keepraw_u32_n3, KeepRaw<u32>, 3, 3, |b| {});
b2b!(c03_q_b2b_keepraw_u32_n5, KeepRaw<u32>, 5, 3, |b| {});
b2b!(c03_t_b2b_keepraw_u32_n9, KeepRaw<u32>, 9, 3, |b| {});

// bound: Nullable<u8> from a buffer of exactly the item length: f6 / f7 / minimal u8 heads (immediate, 18 xx with xx >= 0x18; u8 itself does not keep a non-minimal head)
b2b!(c03_q_b2b_nullable_null, Nullable<u8>, 1, 3, |b| { b[0] = 0xf6; });
b2b!(c03_t_b2b_nullable_undef, Nullable<u8>, 1, 3, |b| { b[0] = 0xf7; });
b2b!(c03_q_b2b_nullable_some_imm, Nullable<u8>, 1, 3, |b| { kani::assume(b[0] <= 0x17); });
b2b!(c03_t_b2b_nullable_some_h18, Nullable<u8>, 2, 3, |b| { b[0] = 0x18; kani::assume(b[1] >= 0x18); });
// bound: Nullable<KeepRaw<u32>> from an arbitrary 9-byte buffer (any head the inner accepts)
b2bx!(c03_t_b2b_nullable_keepraw, Nullable<KeepRaw<u32>>, 9, 3, |b| {});

// bound: KeyValuePairs<u8,u8> on hand-laid maps: a0 / bf ff / a1 k v / bf k v ff with minimal u8 items (immediates, or 18 xx with xx >= 0x18)
b2b!(c03_t_b2b_kvp_def0, KeyValuePairs<u8, u8>, 1, 3, |b| { b[0] = 0xa0; });
b2b!(c03_q_b2b_kvp_indef0, KeyValuePairs<u8, u8>, 2, 3, |b| { b[0] = 0xbf; b[1] = 0xff; });
b2b!(c03_t_b2b_kvp_def1_imm, KeyValuePairs<u8, u8>, 3, 4, |b| { b[0] = 0xa1; kani::assume(b[1] <= 0x17 && b[2] <= 0x17); });
b2b!(c03_q_b2b_kvp_indef1_h18, KeyValuePairs<u8, u8>, 6, 4, |b| { b[0] = 0xbf; b[1] = 0x18; b[3] = 0x18; b[5] = 0xff; kani::assume(b[2] >= 0x18 && b[4] >= 0x18); });
b2b!(c03_t_b2b_kvp_def1_imm_h18, KeyValuePairs<u8, u8>, 4, 4, |b| { b[0] = 0xa1; b[2] = 0x18; kani::assume(b[1] <= 0x17 && b[3] >= 0x18); });
b2b!(c03_t_b2b_kvp_def1_h18_imm, KeyValuePairs<u8, u8>, 4, 4, |b| { b[0] = 0xa1; b[1] = 0x18; kani::assume(b[2] >= 0x18 && b[3] <= 0x17); });
// bound: NonEmptyKeyValuePairs<u8,u8> on a1 k v (immediates) / bf 18 k 18 v ff (k, v >= 0x18); OrderPreservingProperties<(u8 key, u32 value)> on a1 k v with immediates and with a 1a value >= 0x10000
b2b!(c03_t_b2b_nekvp_def1_imm, NonEmptyKeyValuePairs<u8, u8>, 3, 4, |b| { b[0] = 0xa1; kani::assume(b[1] <= 0x17 && b[2] <= 0x17); });
b2b!(c03_t_b2b_nekvp_indef1_h18, NonEmptyKeyValuePairs<u8, u8>, 6, 4, |b| { b[0] = 0xbf; b[1] = 0x18; b[3] = 0x18; b[5] = 0xff; kani::assume(b[2] >= 0x18 && b[4] >= 0x18); });
b2b!(c03_t_b2b_opp1_imm, OrderPreservingProperties<Prop>, 3, 4, |b| { b[0] = 0xa1; kani::assume(b[1] <= 0x17 && b[2] <= 0x17); });
b2b!(c03_q_b2b_opp1_h1a, OrderPreservingProperties<Prop>, 7, 4, |b| { b[0] = 0xa1; b[1] = 0x05; b[2] = 0x1a; kani::assume(b[3] != 0 || b[4] != 0); });
// bound: KeyValuePairs<u8,u8> with a non-minimal definite length head (b8 01 k v)
b2b!(c03_t_b2b_kvp_len_h18, KeyValuePairs<u8, u8>, 4, 4, |b| { b[0] = 0xb8; b[1] = 0x01; kani::assume(b[2] <= 0x17 && b[3] <= 0x17); });

// bound: MaybeIndefArray<u8|u32> on hand-laid arrays: 80 / 9f ff / 81 x / 9f x ff / 82 x y / 9f x y ff with minimal items (u32 under a 1a head: value >= 0x10000)
b2b!(c03_t_b2b_mia_def0, MaybeIndefArray<u8>, 1, 3, |b| { b[0] = 0x80; });
b2b!(c03_q_b2b_mia_indef0, MaybeIndefArray<u8>, 2, 3, |b| { b[0] = 0x9f; b[1] = 0xff; });
b2b!(c03_q_b2b_mia_def1_imm, MaybeIndefArray<u8>, 2, 4, |b| { b[0] = 0x81; kani::assume(b[1] <= 0x17); });
b2b!(c03_q_b2b_mia_indef1_u32, MaybeIndefArray<u32>, 7, 4, |b| { b[0] = 0x9f; b[1] = 0x1a; b[6] = 0xff; kani::assume(b[2] != 0 || b[3] != 0); });
b2b!(c03_t_b2b_mia_def2_h18, MaybeIndefArray<u8>, 5, 5, |b| { b[0] = 0x82; b[1] = 0x18; b[3] = 0x18; kani::assume(b[2] >= 0x18 && b[4] >= 0x18); });
b2b!(c03_t_b2b_mia_indef2_imm, MaybeIndefArray<u8>, 4, 5, |b| { b[0] = 0x9f; b[3] = 0xff; kani::assume(b[1] <= 0x17 && b[2] <= 0x17); });
// bound: MaybeIndefArray<KeepRaw<u32>> on 81 + 9 symbolic bytes
b2bx!(c03_t_b2b_mia_def1_keepraw, MaybeIndefArray<KeepRaw<u32>>, 10, 4, |b| { b[0] = 0x81; });
// bound: MaybeIndefArray<u8> with a non-minimal definite length head (98 01 x)
b2b!(c03_q_b2b_mia_len_h18, MaybeIndefArray<u8>, 3, 4, |b| { b[0] = 0x98; b[1] = 0x01; kani::assume(b[2] <= 0x17); });

// bound: AnyCbor (Decoder::skip) on hand-laid items of exactly the buffer length: 1a + 4 bytes, 38 + 1 byte, 42 + 2 bytes, c2 + immediate, f9 + 2 bytes (head byte concrete, payload symbolic); AnyCbor::from_encode(v) == these bytes by construction
b2b!(c03_q_b2b_anycbor_u32, AnyCbor, 5, 4, |b| { b[0] = 0x1a; });
b2b!(c03_t_b2b_anycbor_nint8, AnyCbor, 2, 4, |b| { b[0] = 0x38; });
b2b!(c03_q_b2b_anycbor_bytes2, AnyCbor, 3, 5, |b| { b[0] = 0x42; });
b2b!(c03_t_b2b_anycbor_f16, AnyCbor, 3, 4, |b| { b[0] = 0xf9; });

// ---------------------------------------------------------------------------------------------
// (c) KeepRaw lemmas
// ---------------------------------------------------------------------------------------------

/// inner decoder that consumes a nondeterministic number of bytes (or fails)
struct Nd(usize);
impl<'b, C> minicbor::Decode<'b, C> for Nd {
    fn decode(d: &mut Decoder<'b>, _: &mut C) -> Result<Self, minicbor::decode::Error> {
        let k: usize = kani::any();
        let fail: bool = kani::any();
        if fail || k > d.input().len() - d.position() {
            return Err(minicbor::decode::Error::message("nd"));
        }
        d.set_position(d.position() + k);
        Ok(Nd(k))
    }
}

/// capture lemma: whatever the inner decoder consumes, raw == exactly input[start..end]
/// bound: arbitrary 8-byte input, symbolic start position 0..=8, inner decoder consuming any k bytes (or failing)
#[kani::proof]
#[kani::unwind(3)]
#[kani::stub(std::fmt::format, crate::stubs::fmt_format_stub)]
fn c03_q_keepraw_capture() {
    let b: [u8; 8] = kani::any();
    let start: usize = kani::any();
    kani::assume(start <= 8);
    let mut d = Decoder::new(&b);
    d.set_position(start);
    let r: Result<KeepRaw<Nd>, _> = d.decode();
    if let Ok(kr) = &r {
        let k = kr.deref().0;
        let end = d.position();
        assert!(end == start + k, "decoder advanced by what the inner decoder consumed");
        assert!(kr.raw_cbor().len() == k, "raw has the consumed length");
        if k > 0 {
            let i: usize = kani::any();
            kani::assume(i < k);
            assert!(kr.raw_cbor()[i] == b[start + i], "raw is the consumed input slice");
        }
    }
    kani::cover!(matches!(&r, Ok(kr) if kr.deref().0 == 8), "whole input consumed");
    kani::cover!(matches!(&r, Ok(kr) if kr.deref().0 == 0), "nothing consumed");
    kani::cover!(r.is_err(), "inner error propagates");
    core::mem::forget(r);
}

/// capture inside a structure: (u8, KeepRaw<u32>, u8) on 83 05 <u32 item> <u8 item>; raw must be exactly the middle item.
/// $head = head byte of the middle item (concrete per harness), $w = its width
macro_rules! embedded {
    ($name:ident, $head:expr, $w:expr) => {
        #[kani::proof]
        #[kani::unwind(3)]
        #[kani::stub(std::fmt::format, crate::stubs::fmt_format_stub)]
        fn $name() {
            let mut b: [u8; 2 + $w + 1] = kani::any();
            b[0] = 0x83;
            b[1] = 0x05;
            if $w > 1 {
                b[2] = $head;
            } else {
                kani::assume(b[2] <= 0x17);
            }
            kani::assume(b[2 + $w] <= 0x17);
            let r: Result<(u8, KeepRaw<u32>, u8), _> = minicbor::decode(&b);
            match &r {
                Ok((a, kr, c)) => {
                    assert!(*a == 5 && *c == b[2 + $w], "neighbours decode");
                    let raw = kr.raw_cbor();
                    assert!(raw.len() == $w, "raw has the width of the middle item");
                    let i: usize = kani::any();
                    kani::assume(i < $w);
                    assert!(raw[i] == b[2 + i], "raw is the slice of the middle item");
                }
                Err(_) => assert!(false, "well-formed triple decodes"),
            }
            kani::cover!(r.is_ok(), "decoded");
            core::mem::forget(r);
        }
    };
}
// bound: (u8, KeepRaw<u32>, u8) on a hand-laid 3-array, middle item of head class immediate / 18 / 19 / 1a with symbolic payload (non-minimal payloads included)
embedded!(c03_q_keepraw_embedded_imm, 0x00, 1);
embedded!(c03_q_keepraw_embedded_h1a, 0x1a, 5);
embedded!(c03_t_keepraw_embedded_h18, 0x18, 2);
embedded!(c03_t_keepraw_embedded_h19, 0x19, 3);

/// mutation lemma: after deref_mut the wrapper re-encodes from the new inner value
/// bound: KeepRaw<u32> decoded from an arbitrary 9-byte buffer, new inner value symbolic
#[kani::proof]
#[kani::unwind(3)]
#[kani::stub(std::fmt::format, crate::stubs::fmt_format_stub)]
#[kani::stub(pallas_codec::minicbor::encode::Error::write, crate::stubs::mcb_write_err_stub)]
fn c03_q_keepraw_mutation() {
    let b: [u8; 9] = kani::any();
    let y: u32 = kani::any();
    let mut r: Result<KeepRaw<u32>, _> = minicbor::decode(&b);
    if let Ok(kr) = &mut r {
        *kr.deref_mut() = y;
        assert!(kr.raw_cbor().is_empty(), "raw is invalidated by mutation");
        assert!(**kr == y, "inner holds the new value");
        let (out, m) = enc(&*kr);
        let (want, w) = enc(&y);
        assert!(m == w, "re-encoding is the encoding of the new inner value (length)");
        let i: usize = kani::any();
        kani::assume(i < m);
        assert!(out[i] == want[i], "re-encoding is the encoding of the new inner value");
    }
    kani::cover!(r.is_ok(), "decoded");
    core::mem::forget(r);
}

/// mutation lemma on a KeepRaw built from arbitrary raw bytes (hook), tuple payload
/// bound: raw = 6 symbolic bytes (symbolic length 1..=6), inner (u8,u8) symbolic, new value symbolic
#[kani::proof]
#[kani::unwind(3)]
#[kani::stub(std::fmt::format, crate::stubs::fmt_format_stub)]
#[kani::stub(pallas_codec::minicbor::encode::Error::write, crate::stubs::mcb_write_err_stub)]
fn c03_q_keepraw_mutation_parts() {
    let raw: [u8; 6] = kani::any();
    let n: usize = kani::any();
    kani::assume(n >= 1 && n <= 6);
    let inner: (u8, u8) = kani::any();
    let y: (u8, u8) = kani::any();
    let mut kr = KeepRaw::verif_from_parts(&raw[..n], inner);
    // untouched: encodes the raw bytes verbatim
    let (o0, m0) = enc(&kr);
    assert!(m0 == n, "unmutated wrapper re-encodes its raw bytes (length)");
    let j: usize = kani::any();
    kani::assume(j < n);
    assert!(o0[j] == raw[j], "unmutated wrapper re-encodes its raw bytes");
    *kr.deref_mut() = y;
    let (out, m) = enc(&kr);
    let (want, w) = enc(&y);
    assert!(m == w, "re-encoding is the encoding of the new inner value (length)");
    let i: usize = kani::any();
    kani::assume(i < m);
    assert!(out[i] == want[i], "re-encoding is the encoding of the new inner value");
    kani::cover!(m == 5, "two 2-byte items");
    core::mem::forget(kr);
}

/// mutation lemma after `to_owned()`: the wrapper owns its raw bytes (a non-empty owned buffer) and must still
/// re-encode from the new inner value once it has been mutated
/// bound: raw = 3 symbolic bytes (hook), inner (u8,u8) symbolic, new value symbolic; unwind 5
#[kani::proof]
#[kani::unwind(5)]
#[kani::stub(std::fmt::format, crate::stubs::fmt_format_stub)]
#[kani::stub(pallas_codec::minicbor::encode::Error::write, crate::stubs::mcb_write_err_stub)]
fn c03_q_keepraw_mutation_owned() {
    let raw: [u8; 3] = kani::any();
    let inner: (u8, u8) = kani::any();
    let y: (u8, u8) = kani::any();
    let mut kr: KeepRaw<'static, (u8, u8)> = KeepRaw::verif_from_parts(&raw[..], inner).to_owned();
    assert!(kr.raw_cbor().len() == 3, "to_owned keeps the raw bytes");
    *kr.deref_mut() = y;
    assert!(kr.raw_cbor().is_empty(), "raw is invalidated by mutation (owned buffer)");
    let (out, m) = enc(&kr);
    let (want, w) = enc(&y);
    assert!(m == w, "re-encoding is the encoding of the new inner value (length)");
    let i: usize = kani::any();
    kani::assume(i < m);
    assert!(out[i] == want[i], "re-encoding is the encoding of the new inner value");
    kani::cover!(m == 3, "one immediate and one 2-byte item");
    core::mem::forget(kr);
}

/// vacuity twin: must come back FAILED
#[kani::proof]
#[kani::unwind(4)]
#[kani::stub(std::fmt::format, crate::stubs::fmt_format_stub)]
#[kani::stub(pallas_codec::minicbor::encode::Error::write, crate::stubs::mcb_write_err_stub)]
fn c03_v_twin() {
    let a: u32 = kani::any();
    let val = AnyUInt::U32(a);
    let (buf, n) = enc(&val);
    let r: Result<AnyUInt, _> = minicbor::decode(&buf);
    assert!(!matches!(&r, Ok(AnyUInt::U32(x)) if *x == a), "twin: must fail");
    core::mem::forget(r);
}
