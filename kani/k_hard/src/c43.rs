//! C43: the immutable-DB readers turn corrupted / truncated index data into errors (or fewer items), never a panic.
//! fn: pallas_hardano::storage::immutable::chunk::Reader::{read_middle_block,read_last_block,next} (via verif_hooks)
//! fn: pallas_hardano::storage::immutable::secondary::Reader::next, secondary::Entry::from
//! fn: pallas_hardano::storage::immutable::primary::Reader::{read_offset,next,next_occupied}
//! stub: std::fmt::format -> empty String; std::panic::catch_unwind -> Ok(f()) (tracing); tracing LevelFilter::current -> OFF (no subscriber installed); std::alloc::handle_alloc_error -> panic (allocation failure is outside)
//! stub: <std::fs::File as std::io::Read>::{read,read_buf,read_to_end} -> file model: a per-harness CONCRETE script says for each read call "n bytes" (n may be short of the request; bytes arbitrary) or "I/O error"; after the script the file is at end-of-file. Position advances by the bytes served.
//! stub: <std::fs::File as std::io::Seek>::{stream_position,seek} -> file model: the tracked position (symbolic u64 start value) or, per harness, an I/O error; seek(Current(d)) fails with InvalidInput when the sum leaves 0..=u64::MAX
//! stub: BufReader<File> values are built with capacity 1 (pass-through for every non-empty read), i.e. std's buffering logic is replaced by its contract "transparent"; Reader::open / BufReader::new are therefore outside
//! assume: read sizes, error positions and enum variants of the reader state are concrete per harness (case split), because a merged symbolic io::Error makes CBMC explore the recursive `Box<dyn Error>` drop glue (no verdict in 300 s); offsets, positions, slots and file content are symbolic
//! assume: the kernel never reports ErrorKind::Interrupted forever (std retries it) and never reports a read longer than the buffer; std::io::BufReader itself is trusted
//! outside: an I/O error other than end-of-file in the middle of read_middle_block's read_exact (no verdict in 250 s; the same map_err path is covered for end-of-file and, in read_last_block, for I/O errors); next_occupied over entries whose Occupied/Empty status is symbolic (the niche-packed Option<Result<Entry, Error>> drop glue explodes; the per-entry decision is covered symbolically by the prim_next family); next_occupied runs that end in end-of-index or an error after skipping empty slots (no verdict in 200 s even with concrete offsets)
//! outside: real files and directories (read_blocks / read_entries open files), `vec![0; delta]` allocation failure for huge deltas (bounded here by delta <= 8), last blocks beyond 16 bytes
use pallas_hardano::storage::immutable::{chunk, primary, secondary};
use std::fs::File;
use std::io::{self, BorrowedCursor, BufReader, ErrorKind, Read, Seek, SeekFrom};
use std::os::fd::FromRawFd;
use std::panic::catch_unwind as cu;

// ---------------------------------------------------------------------------------------------
// file model (Kani side): arbitrary content, tracked position, scripted read sizes / errors
// ---------------------------------------------------------------------------------------------
/// All model state lives in ONE static with a non-trivial initial value: Kani 0.68 was observed to give a
/// `static mut X: u64 = 0` the same storage as the all-zero constant behind `Vec::new()`'s capacity
/// (writing X changed the capacity of fresh Vecs). A unique bit pattern cannot be merged with a constant.
pub struct Model {
    pub magic: u64,
    pub pos: u64,
    /// read script: n >= 0: serve min(n, room) bytes; E: I/O error; past the end: end-of-file
    pub script: [i8; 6],
    pub sp: usize,
    pub err_pos: bool,
    pub err_seek: bool,
    /// content served by reads: -1 = arbitrary (symbolic) bytes, 0..=255 = every byte has this value
    pub fill: i16,
}
pub static mut M: Model = Model {
    magic: 0x4b48_4152_445f_4333,
    pos: 0x7777_1234_5678_9abc,
    script: [7, 7, 7, 7, 7, 7],
    sp: 99,
    err_pos: true,
    err_seek: true,
    fill: 0x55,
};
/// script entry: injected I/O error
pub const E: i8 = -1;
const CHUNK: usize = 56;

fn content<const N: usize>() -> [u8; N] {
    let f = unsafe { M.fill };
    if f < 0 {
        kani::any()
    } else {
        [f as u8; N]
    }
}

fn io_err() -> io::Error {
    io::Error::from(ErrorKind::Other)
}

fn next_op() -> i8 {
    unsafe {
        if M.sp < 6 {
            let v = M.script[M.sp];
            M.sp += 1;
            v
        } else {
            0
        }
    }
}

pub fn file_read_stub(_f: &mut File, buf: &mut [u8]) -> io::Result<usize> {
    let op = next_op();
    if op < 0 {
        return Err(io_err());
    }
    let n = op as usize;
    let k = if n < buf.len() { n } else { buf.len() };
    let bytes: [u8; CHUNK] = content();
    buf[..k].copy_from_slice(&bytes[..k]);
    unsafe { M.pos = M.pos.wrapping_add(k as u64) };
    Ok(k)
}

pub fn file_read_buf_stub(_f: &mut File, mut cursor: BorrowedCursor<'_, u8>) -> io::Result<()> {
    let op = next_op();
    if op < 0 {
        return Err(io_err());
    }
    let n = op as usize;
    let k = if n < cursor.capacity() { n } else { cursor.capacity() };
    let bytes: [u8; CHUNK] = content();
    cursor.append(&bytes[..k]);
    unsafe { M.pos = M.pos.wrapping_add(k as u64) };
    Ok(())
}

pub fn file_read_to_end_stub(_f: &mut File, buf: &mut Vec<u8>) -> io::Result<usize> {
    // the rest of the file: script entries (each <= 8 bytes) up to the first 0 / error, at most 2 of them
    let mut total = 0usize;
    let mut r = 0;
    while r < 2 {
        let op = next_op();
        if op < 0 {
            return Err(io_err());
        }
        if op == 0 {
            break;
        }
        total += if op > 8 { 8 } else { op as usize };
        r += 1;
    }
    let bytes: [u8; 16] = content();
    buf.extend_from_slice(&bytes[..total]);
    unsafe { M.pos = M.pos.wrapping_add(total as u64) };
    Ok(total)
}

pub fn file_stream_position_stub(_f: &mut File) -> io::Result<u64> {
    if unsafe { M.err_pos } {
        return Err(io_err());
    }
    Ok(unsafe { M.pos })
}

pub fn file_seek_stub(_f: &mut File, pos: SeekFrom) -> io::Result<u64> {
    if unsafe { M.err_seek } {
        return Err(io_err());
    }
    unsafe {
        match pos {
            SeekFrom::Start(p) => M.pos = p,
            SeekFrom::Current(d) => match M.pos.checked_add_signed(d) {
                Some(p) => M.pos = p,
                None => return Err(io::Error::from(ErrorKind::InvalidInput)),
            },
            SeekFrom::End(_) => return Err(io::Error::from(ErrorKind::InvalidInput)),
        }
        Ok(M.pos)
    }
}

/// no tracing subscriber is installed: the global max level is OFF (its initial value)
pub fn level_off_stub() -> tracing_core::metadata::LevelFilter {
    tracing_core::metadata::LevelFilter::OFF
}

/// allocation failure is outside the claim (Kani's allocator never fails); std's real handler prints
/// through stderr, thread-locals and a hook function pointer, which CBMC cannot prune
pub fn alloc_error_stub(_l: std::alloc::Layout) -> ! {
    panic!("allocation failure (outside the claim)")
}

/// Natively (replay of a counterexample under plain rustc, where Kani stubs do not apply): a real,
/// zero-filled sparse temp file of length `pos + tail` positioned at `pos`.
/// Under Kani this function is replaced by `raw_file_stub`: a handle that is never used, all I/O goes
/// to the model. (Replaced rather than branched over, so that none of this code is in Kani's reach.)
pub fn raw_file(pos: u64, tail: u64) -> File {
    use std::sync::atomic::{AtomicU32, Ordering};
    static N: AtomicU32 = AtomicU32::new(0);
    let mut p = std::env::temp_dir();
    let mut name = String::from("k_hard_c43_");
    name.push_str(&std::process::id().to_string());
    name.push('_');
    name.push_str(&N.fetch_add(1, Ordering::SeqCst).to_string());
    p.push(name);
    let mut f = std::fs::OpenOptions::new()
        .read(true)
        .write(true)
        .create(true)
        .truncate(true)
        .open(&p)
        .unwrap();
    f.set_len(pos.saturating_add(tail)).unwrap();
    f.seek(SeekFrom::Start(pos)).unwrap();
    let _ = std::fs::remove_file(&p);
    f
}
pub fn raw_file_stub(_pos: u64, _tail: u64) -> File {
    unsafe { File::from_raw_fd(3) }
}

/// The file under test: model state (Kani) / real file (native) positioned at `pos`; `script` = what the reads return.
fn file_at(pos: u64, tail: u64, script: &[i8]) -> File {
    unsafe {
        assert!(M.magic == 0x4b48_4152_445f_4333, "model storage intact");
        M.pos = pos;
        M.sp = 0;
        M.err_pos = false;
        M.err_seek = false;
        M.fill = -1;
        let mut i = 0;
        while i < 6 {
            M.script[i] = if i < script.len() { script[i] } else { 0 };
            i += 1;
        }
    }
    raw_file(pos, tail)
}

/// Pass-through BufReader (capacity 1: every non-empty read, every seek and position query goes straight
/// to the file model), so std's buffering logic -- trusted, transparent by contract -- is not in the formula.
fn bufr(f: File) -> BufReader<File> {
    BufReader::with_capacity(1, f)
}

macro_rules! io_harness {
    ($(#[$m:meta])* fn $name:ident() $body:block) => {
        $(#[$m])*
        #[kani::proof]
        #[kani::unwind(9)]
        #[kani::stub(std::fmt::format, crate::stubs::fmt_format_stub)]
        #[kani::stub(cu, crate::stubs::catch_unwind_stub)]
        #[kani::stub(raw_file, raw_file_stub)]
        #[kani::stub(std::alloc::handle_alloc_error, alloc_error_stub)]
        #[kani::stub(tracing_core::metadata::LevelFilter::current, level_off_stub)]
        #[kani::stub(<std::fs::File as std::io::Read>::read, file_read_stub)]
        #[kani::stub(<std::fs::File as std::io::Read>::read_buf, file_read_buf_stub)]
        #[kani::stub(<std::fs::File as std::io::Read>::read_to_end, file_read_to_end_stub)]
        #[kani::stub(<std::fs::File as std::io::Seek>::stream_position, file_stream_position_stub)]
        #[kani::stub(<std::fs::File as std::io::Seek>::seek, file_seek_stub)]
        fn $name() $body
    };
}

// ---------------------------------------------------------------------------------------------
// chunk::Reader::read_middle_block / read_last_block
// ---------------------------------------------------------------------------------------------

io_harness! {
/// FINDING harness (kept as is): a secondary-index entry whose block_offset lies before the current
/// position of the chunk file (`next_offset < start`) must give an error, not a panic.
/// bound: file position start: any u64 < 2^32 (realisable natively as a sparse file), next_offset: any u64 < start; no I/O errors; unwind 9
fn c43_q_chunk_middle_backwards() {
    let start: u64 = kani::any();
    let next_offset: u64 = kani::any();
    kani::assume(start < (1 << 32));
    kani::assume(next_offset < start);
    let mut br = bufr(file_at(start, 0, &[]));
    let r = chunk::verif_hooks::read_middle_block(&mut br, next_offset);
    kani::cover!(r.is_err(), "backwards offset reported as an error");
    core::mem::forget(r);
    core::mem::forget(br);
}
}

io_harness! {
/// forward arithmetic: for every position and every next_offset at or after it the subtraction, the
/// allocation and the read are panic-free; the file is at end-of-file, so only an empty block succeeds.
/// assume: next_offset >= start (the excluded case next_offset < start has its own harness c43_q_chunk_middle_backwards); delta = next_offset - start <= 8 (allocation size is outside)
/// bound: start any u64, next_offset any u64 with 0 <= next_offset - start <= 8; file at end-of-file; unwind 9
fn c43_q_chunk_middle_forward() {
    let start: u64 = kani::any();
    let next_offset: u64 = kani::any();
    kani::assume(next_offset >= start);
    kani::assume(next_offset - start <= 8);
    let mut br = bufr(file_at(start, 0, &[]));
    let r = chunk::verif_hooks::read_middle_block(&mut br, next_offset);
    match &r {
        Ok(b) => assert!(b.len() == 0 && next_offset == start, "only the empty block can be read at end of file"),
        Err(_) => assert!(next_offset > start, "a missing block is an error"),
    }
    kani::cover!(r.is_ok(), "empty block");
    kani::cover!(r.is_err() && start == u64::MAX - 8 && next_offset == u64::MAX, "truncated chunk file reported at the top of the range");
    core::mem::forget(r);
    core::mem::forget(br);
}
}

macro_rules! chunk_middle {
    ($name:ident, $delta:expr, $script:expr, $errpos:expr, |$r:ident| $cov:block) => {
        io_harness! {
        fn $name() {
            // concrete position (a symbolic one makes the block length symbolic for CBMC, see _forward)
            let start: u64 = 0x1_0000_0000;
            let next_offset: u64 = start + $delta;
            let mut br = bufr(file_at(start, 8, &$script));
            unsafe { M.err_pos = $errpos };
            let r = chunk::verif_hooks::read_middle_block(&mut br, next_offset);
            match &r {
                Ok(b) => assert!(b.len() as u64 == $delta, "block has exactly the indexed length"),
                Err(_) => {}
            }
            {
                let $r = &r;
                $cov
            }
            core::mem::forget(r);
            core::mem::forget(br);
        }
        }
    };
}
// bound: start = 2^32 concrete, delta = next_offset - start in {0, 1, 8} concrete per harness, file content arbitrary; read script concrete per harness (full read / short read then rest / truncated file / position query fails); unwind 9
chunk_middle!(c43_q_chunk_middle_d8_full, 8, [8], false, |r| { assert!(r.is_ok(), "complete block is read"); kani::cover!(matches!(r, Ok(b) if b[7] == 0xab), "8-byte block read"); });
chunk_middle!(c43_t_chunk_middle_d1, 1, [8], false, |r| { assert!(r.is_ok(), "1-byte block is read"); kani::cover!(r.is_ok(), "1-byte block"); });
chunk_middle!(c43_t_chunk_middle_d8_short, 8, [3, 8], false, |r| { assert!(r.is_ok(), "block split over two reads is read"); kani::cover!(r.is_ok(), "8-byte block read in two reads"); });
chunk_middle!(c43_t_chunk_middle_d8_trunc, 8, [3], false, |r| { assert!(r.is_err(), "truncated chunk file is an error"); kani::cover!(r.is_err(), "truncated chunk file reported"); });
chunk_middle!(c43_q_chunk_middle_d8_poserr, 8, [8], true, |r| { assert!(r.is_err(), "failing position query is reported"); kani::cover!(r.is_err(), "failing position query reported"); });

macro_rules! chunk_last {
    ($name:ident, $script:expr, $errpos:expr, |$r:ident| $cov:block) => {
        io_harness! {
        fn $name() {
            let mut br = bufr(file_at(kani::any(), 16, &$script));
            unsafe { M.err_pos = $errpos };
            let r = chunk::verif_hooks::read_last_block(&mut br);
            {
                let $r = &r;
                $cov
            }
            core::mem::forget(r);
            core::mem::forget(br);
        }
        }
    };
}
// bound: start any u64; the rest of the file is 0, 8 or 16 arbitrary bytes, or an I/O error after 5 bytes, or a failing position query; unwind 9
chunk_last!(c43_t_chunk_last_two, [8, 8], false, |r| {
    kani::cover!(matches!(r, Ok(b) if b.len() == 16), "block read with two reads");
});
chunk_last!(c43_t_chunk_last_empty, [], false, |r| {
    kani::cover!(matches!(r, Ok(b) if b.len() == 0), "empty last block");
});
chunk_last!(c43_q_chunk_last_err, [5, E], false, |r| {
    kani::cover!(r.is_err(), "I/O error reported");
});
chunk_last!(c43_t_chunk_last_poserr, [8], true, |r| {
    kani::cover!(r.is_err(), "failing position query reported");
});

// ---------------------------------------------------------------------------------------------
// primary::Reader
// ---------------------------------------------------------------------------------------------

/// reader-state slot, variant concrete per harness
#[derive(Clone, Copy)]
enum Slot {
    Non,
    Err,
    Ok,
    /// Ok(concrete value)
    Val(u32),
}

fn offset_slot(s: Slot) -> Option<Result<u32, primary::Error>> {
    match s {
        Slot::Non => None,
        Slot::Err => Some(Err(primary::Error::CannotReadPrimaryIndex(io_err()))),
        Slot::Ok => Some(Ok(kani::any())),
        Slot::Val(v) => Some(Ok(v)),
    }
}

macro_rules! read_offset {
    ($name:ident, $script:expr, |$r:ident| $post:block) => {
        io_harness! {
        fn $name() {
            let mut br = bufr(file_at(kani::any(), 8, &$script));
            let r = primary::verif_hooks::read_offset(&mut br);
            {
                let $r = &r;
                $post
            }
            core::mem::forget(r);
            core::mem::forget(br);
        }
        }
    };
}
// bound: 4-byte offset with arbitrary content; read script concrete per harness: one read, 2+2, 1+1+1+1, end of file at the entry boundary, end of file after 1/2/3 bytes, I/O error first or after a short read; unwind 9
read_offset!(c43_q_prim_read_offset_full, [4], |r| {
    assert!(matches!(r, Some(Ok(_))), "complete entry is read");
    kani::cover!(matches!(r, Some(Ok(x)) if *x == 0x01020304), "an offset is read");
});
read_offset!(c43_t_prim_read_offset_2_2, [2, 2], |r| {
    assert!(matches!(r, Some(Ok(_))), "entry split over two reads is read");
    kani::cover!(matches!(r, Some(Ok(x)) if *x == 0xfffffffe), "an offset is read");
});
read_offset!(c43_t_prim_read_offset_1x4, [1, 1, 1, 1], |r| {
    assert!(matches!(r, Some(Ok(_))), "entry split over four reads is read");
    kani::cover!(matches!(r, Some(Ok(x)) if *x == 7), "an offset is read");
});
read_offset!(c43_q_prim_read_offset_eof, [], |r| {
    assert!(r.is_none(), "end of file ends the index");
    kani::cover!(r.is_none(), "end of index");
});
read_offset!(c43_q_prim_read_offset_trunc1, [1], |r| {
    assert!(r.is_none(), "file truncated inside an entry ends the index");
    kani::cover!(r.is_none(), "end of index");
});
read_offset!(c43_t_prim_read_offset_trunc3, [2, 1], |r| {
    assert!(r.is_none(), "file truncated inside an entry ends the index");
    kani::cover!(r.is_none(), "end of index");
});
read_offset!(c43_q_prim_read_offset_err, [E], |r| {
    assert!(matches!(r, Some(Err(primary::Error::CannotReadPrimaryIndex(_)))), "I/O error is reported");
    kani::cover!(r.is_some(), "error reported");
});
read_offset!(c43_t_prim_read_offset_short_err, [3, E], |r| {
    assert!(matches!(r, Some(Err(primary::Error::CannotReadPrimaryIndex(_)))), "I/O error after a short read is reported");
    kani::cover!(r.is_some(), "error reported");
});

macro_rules! prim_next {
    ($name:ident, $last:expr, $next:expr, $script:expr, |$r:ident, $st:ident| $post:block) => {
        io_harness! {
        fn $name() {
            let br = bufr(file_at(kani::any(), 8, &$script));
            let last_slot: Option<u32> = kani::any();
            kani::assume(last_slot != Some(u32::MAX));
            let lo = offset_slot($last);
            let no = offset_slot($next);
            let lo_ok = if let Some(Ok(x)) = &lo { Some(*x) } else { None };
            let no_ok = if let Some(Ok(x)) = &no { Some(*x) } else { None };
            let mut rd = primary::verif_hooks::from_parts(br, 1, last_slot, lo, no);
            let r = rd.next();
            let st = primary::verif_hooks::state(&rd);
            if let Some(Ok(e)) = &r {
                let (l, n) = (lo_ok.unwrap(), no_ok.unwrap());
                let slot = match last_slot { Some(s) => s + 1, None => 0 };
                match e {
                    primary::Entry::Occupied(s, o) => assert!(n > l && *s == slot && *o == l, "occupied entry = (next slot, last offset) iff offsets increase"),
                    primary::Entry::Empty(s) => assert!(n <= l && *s == slot, "empty entry iff offsets do not increase"),
                }
                assert!(st.0 == Some(slot) && st.1, "reader advanced by one slot");
            }
            if let Some(Err(_)) = &r {
                assert!(!st.1 && !st.2, "an error ends the iteration");
            }
            {
                let ($r, $st) = (&r, st);
                $post
            }
            core::mem::forget(r);
            core::mem::forget(rd);
        }
        }
    };
}
// assume: last_slot != Some(u32::MAX) (needs a primary index of 2^32 entries = 16 GiB; own harness c43_t_prim_slot_wrap)
// bound: one Iterator::next step from every reader state: (last_offset, next_offset) variants concrete per harness over {None, Err, Ok(any u32)}^2, last_slot any; the read that follows an (Ok, Ok) step: complete / end of file / truncated / I/O error; unwind 9
prim_next!(c43_t_prim_next_non_non, Slot::Non, Slot::Non, [4], |r, st| { assert!(r.is_none(), "exhausted reader stays exhausted"); kani::cover!(r.is_none(), "end"); });
prim_next!(c43_t_prim_next_non_ok, Slot::Non, Slot::Ok, [4], |r, st| { assert!(r.is_none(), "no last offset: end"); kani::cover!(r.is_none(), "end"); });
prim_next!(c43_t_prim_next_non_err, Slot::Non, Slot::Err, [4], |r, st| { assert!(r.is_none(), "no last offset: end"); kani::cover!(r.is_none(), "end"); });
prim_next!(c43_q_prim_next_ok_non, Slot::Ok, Slot::Non, [4], |r, st| { assert!(r.is_none(), "a single trailing offset is not an entry"); kani::cover!(r.is_none(), "end"); });
prim_next!(c43_t_prim_next_err_non, Slot::Err, Slot::Non, [4], |r, st| { assert!(r.is_none(), "original behaviour: (Some(Err), None) ends silently"); kani::cover!(r.is_none(), "end"); });
prim_next!(c43_q_prim_next_ok_err, Slot::Ok, Slot::Err, [4], |r, st| { assert!(matches!(r, Some(Err(_))), "stored error surfaces"); kani::cover!(r.is_some(), "error"); });
prim_next!(c43_q_prim_next_err_ok, Slot::Err, Slot::Ok, [4], |r, st| { assert!(matches!(r, Some(Err(_))), "stored error surfaces"); kani::cover!(r.is_some(), "error"); });
prim_next!(c43_t_prim_next_err_err, Slot::Err, Slot::Err, [4], |r, st| { assert!(matches!(r, Some(Err(_))), "stored error surfaces"); kani::cover!(r.is_some(), "error"); });
prim_next!(c43_q_prim_next_ok_ok_full, Slot::Ok, Slot::Ok, [4], |r, st| { assert!(matches!(r, Some(Ok(_))) && st.2, "entry produced, next offset loaded"); kani::cover!(st.2, "next loaded");  kani::cover!(matches!(r, Some(Ok(primary::Entry::Occupied(..)))), "occupied slot"); kani::cover!(matches!(r, Some(Ok(primary::Entry::Empty(..)))), "equal or decreasing offsets (corruption) read as an empty slot"); });
prim_next!(c43_t_prim_next_ok_ok_eof, Slot::Ok, Slot::Ok, [], |r, st| { assert!(matches!(r, Some(Ok(_))) && !st.2, "entry produced, file ended"); kani::cover!(!st.2, "file ended right after this entry");  kani::cover!(matches!(r, Some(Ok(primary::Entry::Occupied(..)))), "occupied slot"); kani::cover!(matches!(r, Some(Ok(primary::Entry::Empty(..)))), "equal or decreasing offsets (corruption) read as an empty slot"); });
prim_next!(c43_t_prim_next_ok_ok_trunc, Slot::Ok, Slot::Ok, [3], |r, st| { assert!(matches!(r, Some(Ok(_))) && !st.2, "entry produced, truncated tail ignored"); kani::cover!(!st.2, "truncated tail");  kani::cover!(matches!(r, Some(Ok(primary::Entry::Occupied(..)))), "occupied slot"); kani::cover!(matches!(r, Some(Ok(primary::Entry::Empty(..)))), "equal or decreasing offsets (corruption) read as an empty slot"); });
prim_next!(c43_t_prim_next_ok_ok_err, Slot::Ok, Slot::Ok, [E], |r, st| { assert!(matches!(r, Some(Ok(_))) && st.2, "entry produced, the I/O error is stored for the next step"); kani::cover!(st.2, "error stored");  kani::cover!(matches!(r, Some(Ok(primary::Entry::Occupied(..)))), "occupied slot"); kani::cover!(matches!(r, Some(Ok(primary::Entry::Empty(..)))), "equal or decreasing offsets (corruption) read as an empty slot"); });

macro_rules! prim_occ {
    ($name:ident, $last:expr, $next:expr, $fill:expr, $script:expr, |$r:ident, $skipped:ident| $post:block) => {
        io_harness! {
        fn $name() {
            let br = bufr(file_at(kani::any(), 8, &$script));
            unsafe { M.fill = $fill };
            let last_slot: Option<u32> = kani::any();
            kani::assume(match last_slot { Some(s) => s < u32::MAX - 4, None => true });
            let mut rd = primary::verif_hooks::from_parts(br, 1, last_slot, Some(Ok($last)), Some(Ok($next)));
            let r = rd.next_occupied();
            let st = primary::verif_hooks::state(&rd);
            let skipped = match (last_slot, st.0) {
                (Some(a), Some(b)) => b - a - 1,
                (None, Some(b)) => b,
                _ => 0,
            };
            {
                let ($r, $skipped) = (&r, skipped);
                $post
            }
            core::mem::forget(r);
            core::mem::forget(rd);
        }
        }
    };
}
// assume: last_slot < u32::MAX - 4 (slot counter wrap: c43_t_prim_slot_wrap)
// bound: next_occupied with a symbolic slot counter (last_slot any) but CONCRETE offsets (state and file content), so that each entry's Occupied/Empty status is concrete: first entry occupied / one empty entry then an occupied one; unwind 9
prim_occ!(c43_x_prim_occ_first, 0, 56, 0, [4], |r, skipped| {
    assert!(matches!(r, Some(Ok(primary::Entry::Occupied(_, 0)))) && skipped == 0, "first slot occupied: returned at once");
    kani::cover!(r.is_some(), "occupied");
});
prim_occ!(c43_x_prim_occ_then_occupied, 0, 0, 1, [4, 4], |r, skipped| {
    assert!(matches!(r, Some(Ok(primary::Entry::Occupied(_, 0)))) && skipped == 1, "one empty slot skipped, then offsets 0 -> 0x01010101 is occupied");
    kani::cover!(r.is_some(), "occupied after an empty slot");
});

io_harness! {
/// slot counter at u32::MAX (needs 2^32 index entries = a 16 GiB primary file): `x + 1` used to overflow (fixed: 5f7d5004), the iteration now ends
/// bound: last_slot = u32::MAX, offsets symbolic; unwind 9
fn c43_t_prim_slot_wrap() {
    let br = bufr(file_at(0, 8, &[4]));
    let mut rd = primary::verif_hooks::from_parts(br, 1, Some(u32::MAX), Some(Ok(kani::any())), Some(Ok(kani::any())));
    let r = rd.next();
    assert!(r.is_none(), "no relative slot is left after u32::MAX: the iteration ends (it used to overflow `x + 1`)");
    kani::cover!(r.is_none(), "iteration ended");
    core::mem::forget(r);
    core::mem::forget(rd);
}
}

// ---------------------------------------------------------------------------------------------
// secondary::Reader::next
// ---------------------------------------------------------------------------------------------

io_harness! {
/// FINDING harness (kept as is): a primary-index offset that lies before the current position of the
/// secondary file (`current < start`) must give an error or a seek backwards, not a panic.
/// bound: secondary file position start: any u64 < 2^32, primary offset current: any u32 < start; no I/O errors; unwind 9
fn c43_q_secondary_backwards() {
    let start: u64 = kani::any();
    let current: u32 = kani::any();
    kani::assume(start < (1 << 32));
    kani::assume((current as u64) < start);
    let br = bufr(file_at(start, 64, &[56]));
    let pbr = bufr(raw_file(0, 0));
    let index = primary::verif_hooks::from_parts(pbr, 1, None, None, None);
    let mut rd = secondary::verif_hooks::from_parts(br, index, Some(Ok(primary::Entry::Occupied(0, current))));
    let r = rd.next();
    kani::cover!(r.is_some(), "step taken");
    core::mem::forget(r);
    core::mem::forget(rd);
}
}

/// `current` of the secondary reader, variant concrete per harness
#[derive(Clone, Copy)]
enum Cur {
    Non,
    Err,
    Empty,
    Occ,
}

macro_rules! sec_next {
    ($name:ident, $start:expr, $off:expr, $cur:expr, $prim:expr, $script:expr, $errpos:expr, $errseek:expr, |$r:ident, $has:ident| $post:block) => {
        io_harness! {
        fn $name() {
            let start: u64 = $start;
            let br = bufr(file_at(start, 64, &$script));
            unsafe { M.err_pos = $errpos; M.err_seek = $errseek; }
            let pbr = bufr(raw_file(0, 0));
            let last_slot: Option<u32> = kani::any();
            kani::assume(match last_slot { Some(s) => s < u32::MAX - 4, None => true });
            let (pl, pn) = $prim;
            let index = primary::verif_hooks::from_parts(pbr, 1, last_slot, offset_slot(pl), offset_slot(pn));
            let cur = match $cur {
                Cur::Non => None,
                Cur::Err => Some(Err(primary::Error::CannotReadPrimaryIndex(io_err()))),
                Cur::Empty => Some(Ok(primary::Entry::Empty(kani::any()))),
                Cur::Occ => {
                    let o: u32 = $off;
                    kani::assume(o as u64 >= start);
                    Some(Ok(primary::Entry::Occupied(kani::any(), o)))
                }
            };
            let mut rd = secondary::verif_hooks::from_parts(br, index, cur);
            let r = rd.next();
            let has = secondary::verif_hooks::has_current(&rd);
            if let Some(Err(_)) = &r {
                assert!(!has, "an error ends the iteration");
            }
            {
                let ($r, $has) = (&r, has);
                $post
            }
            core::mem::forget(r);
            core::mem::forget(rd);
        }
        }
    };
}
// assume: primary offset current >= position of the secondary file (the excluded case current < start has its own harness c43_q_secondary_backwards)
// bound: one Iterator::next step; `current` variant concrete per harness over {None, Err, Empty(any), Occupied(any slot, offset)}; symbolic family (_sym_): start any u64, offset any u32 >= start; concrete family: start 0x1000, offset 0x1038 (seek by 56) or 0x1000 (no seek); 56-byte entry content arbitrary; read script concrete: one read / 20+36 / truncated / end of file / I/O error / failing position query / failing seek; primary reader behind it exhausted or in an (Ok, Ok) state with one more offset to read; unwind 9
sec_next!(c43_q_sec_next_none, kani::any(), kani::any(), Cur::Non, (Slot::Non, Slot::Non), [56], false, false, |r, has| { assert!(r.is_none(), "no current entry: end"); kani::cover!(r.is_none(), "end"); });
sec_next!(c43_t_sec_next_prim_err, kani::any(), kani::any(), Cur::Err, (Slot::Non, Slot::Non), [56], false, false, |r, has| { assert!(matches!(r, Some(Err(secondary::Error::PrimaryIndexError(_)))), "primary error forwarded"); kani::cover!(r.is_some(), "error"); });
sec_next!(c43_q_sec_next_empty, kani::any(), kani::any(), Cur::Empty, (Slot::Non, Slot::Non), [56], false, false, |r, has| { assert!(r.is_none(), "an empty primary slot has no secondary entry"); kani::cover!(r.is_none(), "end"); });
sec_next!(c43_q_sec_next_sym_eof, kani::any(), kani::any(), Cur::Occ, (Slot::Non, Slot::Non), [], false, false, |r, has| {
    assert!(matches!(r, Some(Err(secondary::Error::InconsistentState))), "secondary index shorter than the primary says = InconsistentState, for every forward offset");
    kani::cover!(r.is_some(), "error");
});
sec_next!(c43_q_sec_next_sym_pos_err, kani::any(), kani::any(), Cur::Occ, (Slot::Non, Slot::Non), [56], true, false, |r, has| {
    assert!(matches!(r, Some(Err(secondary::Error::CannotReadSecondaryIndex(_)))), "failing position query reported");
    kani::cover!(r.is_some(), "error");
});
sec_next!(c43_t_sec_next_sym_seek_err, kani::any(), kani::any(), Cur::Occ, (Slot::Non, Slot::Non), [], false, true, |r, has| {
    kani::cover!(matches!(r, Some(Err(secondary::Error::CannotReadSecondaryIndex(_)))), "failing seek reported");
    kani::cover!(matches!(r, Some(Err(secondary::Error::InconsistentState))), "no seek needed when the file is already at the offset");
});
sec_next!(c43_t_sec_next_sym_full, kani::any(), kani::any(), Cur::Occ, (Slot::Non, Slot::Non), [56], false, false, |r, has| {
    assert!(matches!(r, Some(Ok(_))), "entry read for every forward offset");
    kani::cover!(matches!(r, Some(Ok(e)) if e.block_offset == u64::MAX), "entry with a wild block offset is passed on");
});
sec_next!(c43_q_sec_next_full, 0x1000, 0x1038, Cur::Occ, (Slot::Non, Slot::Non), [56], false, false, |r, has| {
    assert!(matches!(r, Some(Ok(_))) && !has, "entry read, primary index exhausted");
    kani::cover!(matches!(r, Some(Ok(e)) if e.block_offset == u64::MAX), "entry with a wild block offset is passed on");
});
sec_next!(c43_t_sec_next_noseek, 0x1000, 0x1000, Cur::Occ, (Slot::Non, Slot::Non), [56], false, true, |r, has| {
    assert!(matches!(r, Some(Ok(_))), "entry read without a seek (a seek would have failed)");
    kani::cover!(r.is_some(), "entry read");
});
sec_next!(c43_t_sec_next_split, 0x1000, 0x1038, Cur::Occ, (Slot::Non, Slot::Non), [20, 36], false, false, |r, has| {
    assert!(matches!(r, Some(Ok(_))), "entry read with two reads");
    kani::cover!(r.is_some(), "entry read");
});
sec_next!(c43_t_sec_next_trunc, 0x1000, 0x1038, Cur::Occ, (Slot::Non, Slot::Non), [20], false, false, |r, has| {
    assert!(matches!(r, Some(Err(secondary::Error::InconsistentState))), "truncated secondary index = InconsistentState");
    kani::cover!(r.is_some(), "error");
});
sec_next!(c43_t_sec_next_read_err, 0x1000, 0x1038, Cur::Occ, (Slot::Non, Slot::Non), [20, E], false, false, |r, has| {
    assert!(matches!(r, Some(Err(secondary::Error::CannotReadSecondaryIndex(_)))), "I/O error reported");
    kani::cover!(r.is_some(), "error");
});
sec_next!(c43_t_sec_next_seek_err, 0x1000, 0x1038, Cur::Occ, (Slot::Non, Slot::Non), [56], false, true, |r, has| {
    assert!(matches!(r, Some(Err(secondary::Error::CannotReadSecondaryIndex(_)))), "failing seek reported");
    kani::cover!(r.is_some(), "error");
});
sec_next!(c43_x_sec_next_then_prim, 0x1000, 0x1038, Cur::Occ, (Slot::Val(0x1038), Slot::Val(0x1070)), [56, 4], false, false, |r, has| {
    assert!(matches!(r, Some(Ok(_))) && has, "entry read and the next occupied primary slot loaded");
    kani::cover!(has, "next occupied primary slot loaded");
});

/// Entry::from on 56 arbitrary bytes: field extraction is total and big-endian
/// bound: 56 symbolic bytes; unwind 34
#[kani::proof]
#[kani::unwind(34)]
#[kani::stub(std::fmt::format, crate::stubs::fmt_format_stub)]
fn c43_q_secondary_entry_layout() {
    let b: [u8; 56] = kani::any();
    let e = secondary::verif_hooks::entry_from_bytes(&b);
    assert!(e.block_offset == u64::from_be_bytes([b[0], b[1], b[2], b[3], b[4], b[5], b[6], b[7]]), "block_offset is bytes 0..8 big-endian");
    assert!(e.header_offset == u16::from_be_bytes([b[8], b[9]]), "header_offset is bytes 8..10");
    assert!(e.header_size == u16::from_be_bytes([b[10], b[11]]), "header_size is bytes 10..12");
    assert!(e.checksum == u32::from_be_bytes([b[12], b[13], b[14], b[15]]), "checksum is bytes 12..16");
    let mut i = 0;
    while i < 32 {
        assert!(e.header_hash[i] == b[16 + i], "header_hash is bytes 16..48");
        i += 1;
    }
    let mut i = 0;
    while i < 8 {
        assert!(e.block_or_ebb[i] == b[48 + i], "block_or_ebb is bytes 48..56");
        i += 1;
    }
    kani::cover!(e.block_offset == u64::MAX, "maximal offset");
    core::mem::forget(e);
}

// ---------------------------------------------------------------------------------------------
// chunk::Reader::next (state machine around the two block readers)
// ---------------------------------------------------------------------------------------------

fn any_sec_entry() -> secondary::Entry {
    secondary::Entry {
        block_offset: kani::any(),
        header_offset: kani::any(),
        header_size: kani::any(),
        checksum: kani::any(),
        header_hash: [0; 32],
        block_or_ebb: [0; 8],
    }
}

fn sec_slot(s: Slot) -> Option<Result<secondary::Entry, secondary::Error>> {
    match s {
        Slot::Non => None,
        Slot::Err => Some(Err(secondary::Error::InconsistentState)),
        Slot::Ok | Slot::Val(_) => Some(Ok(any_sec_entry())),
    }
}

macro_rules! chunk_next {
    ($name:ident, $cur:expr, $next:expr, $script:expr, |$r:ident, $st:ident| $post:block) => {
        io_harness! {
        fn $name() {
            let start: u64 = 0x1_0000_0000;
            let br = bufr(file_at(start, 8, &$script));
            let pidx = primary::verif_hooks::from_parts(bufr(raw_file(0, 0)), 1, None, None, None);
            let sidx = secondary::verif_hooks::from_parts(bufr(raw_file(0, 0)), pidx, None);
            let cur = sec_slot($cur);
            let nxt = sec_slot($next);
            let nxt = match nxt {
                Some(Ok(mut e)) => {
                    e.block_offset = start + 8;
                    Some(Ok(e))
                }
                x => x,
            };
            let mut rd = chunk::verif_hooks::from_parts(br, sidx, cur, nxt);
            let r = rd.next();
            let st = chunk::verif_hooks::state(&rd);
            {
                let ($r, $st) = (&r, st);
                $post
            }
            core::mem::forget(r);
            core::mem::forget(rd);
        }
        }
    };
}
// bound: one Iterator::next step of chunk::Reader; (current, next) variants concrete per harness over {None, Err, Ok(entry with symbolic block_offset)}; secondary index behind it exhausted; position of the chunk file 2^32 concrete (see c43_q_chunk_middle_forward for symbolic positions), next.block_offset = start + 8; block content arbitrary; unwind 9
chunk_next!(c43_t_chunk_next_none, Slot::Non, Slot::Ok, [8], |r, st| { assert!(r.is_none(), "no current entry: end of chunk"); kani::cover!(r.is_none(), "end"); });
chunk_next!(c43_t_chunk_next_index_err, Slot::Ok, Slot::Err, [8], |r, st| { assert!(matches!(r, Some(Err(chunk::Error::SecondaryIndexError(_)))) && !st.0 && !st.1, "index error forwarded and iteration ended"); kani::cover!(r.is_some(), "error"); });
chunk_next!(c43_t_chunk_next_middle, Slot::Ok, Slot::Ok, [8], |r, st| { assert!(matches!(r, Some(Ok(_))) && st.0 && !st.1, "middle block read, next entry becomes current, index exhausted"); kani::cover!(matches!(r, Some(Ok(b)) if b.len() == 8), "8-byte middle block"); });
chunk_next!(c43_t_chunk_next_middle_trunc, Slot::Ok, Slot::Ok, [3], |r, st| { kani::cover!(matches!(r, Some(Err(chunk::Error::CannotReadBlock(_)))), "truncated chunk reported"); });
chunk_next!(c43_t_chunk_next_last, Slot::Ok, Slot::Non, [8, 8], |r, st| { assert!(matches!(r, Some(Ok(_))) && !st.0 && !st.1, "last block read, iteration ended"); kani::cover!(matches!(r, Some(Ok(b)) if b.len() == 16), "16-byte last block"); });
chunk_next!(c43_t_chunk_next_last_err, Slot::Ok, Slot::Non, [8, E], |r, st| { assert!(matches!(r, Some(Err(chunk::Error::CannotReadBlock(_)))) && !st.0, "read error reported, iteration ended"); kani::cover!(r.is_some(), "error"); });

io_harness! {
/// vacuity twin: must come back FAILED
fn c43_v_twin() {
    let mut br = bufr(file_at(kani::any(), 8, &[4]));
    let r = primary::verif_hooks::read_offset(&mut br);
    assert!(matches!(&r, Some(Ok(x)) if *x != 0x01020304), "twin: must fail");
    core::mem::forget(r);
    core::mem::forget(br);
}
}
