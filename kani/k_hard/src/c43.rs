//! C43: the immutable-DB readers turn corrupted / truncated index data into errors (or fewer items), never a panic.
//! fn: pallas_hardano::storage::immutable::chunk::Reader::{read_middle_block,read_last_block,next} (via verif_hooks)
//! fn: pallas_hardano::storage::immutable::secondary::Reader::next, secondary::Entry::from
//! fn: pallas_hardano::storage::immutable::primary::Reader::{read_offset,next,next_occupied}
//! stub: std::fmt::format -> empty String; std::panic::catch_unwind -> Ok(f()) (tracing)
//! stub: <std::fs::File as std::io::Read>::{read,read_buf} -> file model: Err(Other) or k arbitrary bytes, k symbolic in 0..=min(room, 8) (0 = end of file), position advances by k
//! stub: <std::fs::File as std::io::Seek>::{stream_position,seek} -> file model: Err(Other) or the tracked position (symbolic u64 start value); seek(Current(d)) fails when the sum leaves 0..=u64::MAX
//! assume: the kernel never reports ErrorKind::Interrupted forever (std retries it) and never reports a read longer than the buffer; std::io::BufReader itself is trusted
//! outside: real files and directories (read_blocks / read_entries open files), `vec![0; delta]` allocation failure for huge deltas (bounded here by delta <= 8), read_to_end of the last block beyond 16 bytes, index files with more than 2^32 slots
use pallas_hardano::storage::immutable::{chunk, primary, secondary};
use std::fs::File;
use std::io::{self, BorrowedCursor, BufReader, ErrorKind, Read, Seek, SeekFrom};
use std::os::fd::FromRawFd;
use std::panic::catch_unwind as cu;

// ---------------------------------------------------------------------------------------------
// file model (Kani side): arbitrary content, arbitrary length, tracked position
// ---------------------------------------------------------------------------------------------
static mut POS: u64 = 0;
/// number of non-empty reads the file still serves before it reports end-of-file
static mut FUEL: u32 = 0;
/// may the model inject I/O errors?
static mut ERRS: bool = false;

const CHUNK: usize = 8;

fn io_err() -> io::Error {
    io::Error::from(ErrorKind::Other)
}

fn model_take(room: usize) -> usize {
    unsafe {
        if FUEL == 0 {
            return 0;
        }
        FUEL -= 1;
        let k: usize = kani::any();
        kani::assume(k <= room && k <= CHUNK);
        POS = POS.wrapping_add(k as u64);
        k
    }
}

fn file_read_stub(_f: &mut File, buf: &mut [u8]) -> io::Result<usize> {
    if unsafe { ERRS } && kani::any() {
        return Err(io_err());
    }
    let k = model_take(buf.len());
    let mut i = 0;
    while i < CHUNK {
        if i < k {
            buf[i] = kani::any();
        }
        i += 1;
    }
    Ok(k)
}

fn file_read_buf_stub(_f: &mut File, mut cursor: BorrowedCursor<'_, u8>) -> io::Result<()> {
    if unsafe { ERRS } && kani::any() {
        return Err(io_err());
    }
    let k = model_take(cursor.capacity());
    let bytes: [u8; CHUNK] = kani::any();
    cursor.append(&bytes[..k]);
    Ok(())
}

fn file_read_to_end_stub(_f: &mut File, buf: &mut Vec<u8>) -> io::Result<usize> {
    if unsafe { ERRS } && kani::any() {
        return Err(io_err());
    }
    let mut total = 0;
    let mut r = 0;
    while r < 2 {
        let k = model_take(CHUNK);
        let bytes: [u8; CHUNK] = kani::any();
        buf.extend_from_slice(&bytes[..k]);
        total += k;
        r += 1;
    }
    Ok(total)
}

fn file_stream_position_stub(_f: &mut File) -> io::Result<u64> {
    if unsafe { ERRS } && kani::any() {
        return Err(io_err());
    }
    Ok(unsafe { POS })
}

fn file_seek_stub(_f: &mut File, pos: SeekFrom) -> io::Result<u64> {
    if unsafe { ERRS } && kani::any() {
        return Err(io_err());
    }
    unsafe {
        match pos {
            SeekFrom::Start(p) => POS = p,
            SeekFrom::Current(d) => match POS.checked_add_signed(d) {
                Some(p) => POS = p,
                None => return Err(io::Error::from(ErrorKind::InvalidInput)),
            },
            SeekFrom::End(_) => return Err(io::Error::from(ErrorKind::InvalidInput)),
        }
        Ok(POS)
    }
}

/// `true` when the harness body runs under plain rustc (concrete playback); stubbed to `false` under Kani
#[inline(never)]
fn is_native() -> bool {
    true
}
fn is_native_stub() -> bool {
    false
}

/// A file handle. Under Kani: never used (all I/O goes to the model). Natively (replay): a real,
/// zero-filled sparse temp file of length `pos + tail` positioned at `pos`.
fn raw_file(pos: u64, tail: u64) -> File {
    if is_native() {
        use std::sync::atomic::{AtomicU32, Ordering};
        static N: AtomicU32 = AtomicU32::new(0);
        let mut p = std::env::temp_dir();
        let mut name = String::from("k_hard_c43_");
        name.push_str(&std::process::id().to_string());
        name.push('_');
        name.push_str(&N.fetch_add(1, Ordering::SeqCst).to_string());
        p.push(name);
        let mut f = std::fs::OpenOptions::new()
            .read(true)
            .write(true)
            .create(true)
            .truncate(true)
            .open(&p)
            .unwrap();
        f.set_len(pos.saturating_add(tail)).unwrap();
        f.seek(SeekFrom::Start(pos)).unwrap();
        let _ = std::fs::remove_file(&p);
        f
    } else {
        unsafe { File::from_raw_fd(3) }
    }
}

/// The file under test: model state (Kani) / real file (native) positioned at `pos`.
fn file_at(pos: u64, tail: u64, errs: bool, fuel: u32) -> File {
    unsafe {
        POS = pos;
        FUEL = fuel;
        ERRS = errs;
    }
    raw_file(pos, tail)
}

macro_rules! io_harness {
    ($(#[$m:meta])* fn $name:ident() $body:block) => {
        $(#[$m])*
        #[kani::proof]
        #[kani::stub(std::fmt::format, crate::stubs::fmt_format_stub)]
        #[kani::stub(cu, crate::stubs::catch_unwind_stub)]
        #[kani::stub(is_native, is_native_stub)]
        #[kani::stub(<std::fs::File as std::io::Read>::read, file_read_stub)]
        #[kani::stub(<std::fs::File as std::io::Read>::read_buf, file_read_buf_stub)]
        #[kani::stub(<std::fs::File as std::io::Read>::read_to_end, file_read_to_end_stub)]
        #[kani::stub(<std::fs::File as std::io::Seek>::stream_position, file_stream_position_stub)]
        #[kani::stub(<std::fs::File as std::io::Seek>::seek, file_seek_stub)]
        fn $name() $body
    };
}

// ---------------------------------------------------------------------------------------------
// chunk::Reader::read_middle_block
// ---------------------------------------------------------------------------------------------

io_harness! {
/// FINDING harness (kept as is): a secondary-index entry whose block_offset lies before the current
/// position of the chunk file (`next_offset < start`) must give an error, not a panic.
/// bound: file position start: any u64 < 2^32 (realisable natively as a sparse file), next_offset: any u64; no I/O errors; unwind 12
#[kani::unwind(12)]
fn c43_q_chunk_middle_backwards() {
    let start: u64 = kani::any();
    let next_offset: u64 = kani::any();
    kani::assume(start < (1 << 32));
    kani::assume(next_offset < start);
    let mut br = BufReader::new(file_at(start, 0, false, 2));
    let r = chunk::verif_hooks::read_middle_block(&mut br, next_offset);
    kani::cover!(r.is_err(), "backwards offset reported as an error");
    core::mem::forget(r);
    core::mem::forget(br);
}
}

io_harness! {
/// general: any position, any next_offset not before it (the backwards case is c43_q_chunk_middle_backwards),
/// injected I/O errors, short reads and early end-of-file: Ok(block of exactly delta bytes) or Err.
/// assume: next_offset >= start (excluded case has its own harness); delta = next_offset - start <= 8 (allocation size is outside)
/// bound: start any u64, delta 0..=8, each read returns Err or 0..=8 arbitrary bytes, <= 3 non-empty reads; unwind 12
#[kani::unwind(12)]
fn c43_q_chunk_middle() {
    let start: u64 = kani::any();
    let next_offset: u64 = kani::any();
    kani::assume(next_offset >= start);
    kani::assume(next_offset - start <= 8);
    let fuel: u32 = kani::any();
    kani::assume(fuel <= 3);
    let mut br = BufReader::new(file_at(start, 8, true, fuel));
    let r = chunk::verif_hooks::read_middle_block(&mut br, next_offset);
    match &r {
        Ok(b) => assert!(b.len() as u64 == next_offset - start, "block has exactly the indexed length"),
        Err(_) => {}
    }
    kani::cover!(matches!(&r, Ok(b) if b.len() == 8), "8-byte block read");
    kani::cover!(matches!(&r, Ok(b) if b.len() == 0), "empty block read");
    kani::cover!(r.is_err(), "I/O error or truncation reported");
    core::mem::forget(r);
    core::mem::forget(br);
}
}

io_harness! {
/// last block of a chunk: everything up to end-of-file, or the I/O error
/// bound: start any u64, read_to_end returns Err or 0..=16 arbitrary bytes; unwind 20
#[kani::unwind(20)]
fn c43_q_chunk_last() {
    let start: u64 = kani::any();
    let fuel: u32 = kani::any();
    kani::assume(fuel <= 2);
    let mut br = BufReader::new(file_at(start, 8, true, fuel));
    let r = chunk::verif_hooks::read_last_block(&mut br);
    kani::cover!(matches!(&r, Ok(b) if b.len() > 8), "block longer than one read");
    kani::cover!(matches!(&r, Ok(b) if b.len() == 0), "empty last block");
    kani::cover!(r.is_err(), "I/O error reported");
    core::mem::forget(r);
    core::mem::forget(br);
}
}

// ---------------------------------------------------------------------------------------------
// primary::Reader
// ---------------------------------------------------------------------------------------------

fn any_prim_err() -> primary::Error {
    if kani::any() {
        primary::Error::CannotReadPrimaryIndex(io_err())
    } else {
        primary::Error::VersionMissing(io_err())
    }
}

fn any_offset_slot() -> Option<Result<u32, primary::Error>> {
    let k: u8 = kani::any();
    match k {
        0 => None,
        1 => Some(Err(any_prim_err())),
        _ => Some(Ok(kani::any())),
    }
}

io_harness! {
/// read_offset: 4 bytes big-endian, None exactly at a (possibly mid-entry) end of file, Err on I/O errors
/// bound: reads return Err or 0..=8 arbitrary bytes each (short reads included), <= 5 non-empty reads; unwind 12
#[kani::unwind(12)]
fn c43_q_primary_read_offset() {
    let fuel: u32 = kani::any();
    kani::assume(fuel <= 5);
    let mut br = BufReader::new(file_at(kani::any(), 8, true, fuel));
    let r = primary::verif_hooks::read_offset(&mut br);
    kani::cover!(matches!(&r, Some(Ok(x)) if *x == 0x01020304), "an offset is read big-endian");
    kani::cover!(r.is_none(), "truncated file ends the index");
    kani::cover!(matches!(&r, Some(Err(_))), "I/O error reported");
    core::mem::forget(r);
    core::mem::forget(br);
}
}

io_harness! {
/// one step of the primary iterator from ANY reader state (all combinations of None / Err / Ok(any u32)
/// in last_offset and next_offset, any last_slot except u32::MAX) over any file behaviour
/// assume: last_slot != Some(u32::MAX) (needs a primary index of 2^32 entries = 16 GiB; own harness c43_q_primary_slot_wrap)
/// bound: reader state fully symbolic; reads return Err or 0..=8 arbitrary bytes, <= 5 non-empty reads; unwind 12
#[kani::unwind(12)]
fn c43_q_primary_next() {
    let fuel: u32 = kani::any();
    kani::assume(fuel <= 5);
    let br = BufReader::new(file_at(kani::any(), 8, true, fuel));
    let last_slot: Option<u32> = kani::any();
    kani::assume(last_slot != Some(u32::MAX));
    let lo = any_offset_slot();
    let no = any_offset_slot();
    let (lo_ok, no_ok) = (
        if let Some(Ok(x)) = &lo { Some(*x) } else { None },
        if let Some(Ok(x)) = &no { Some(*x) } else { None },
    );
    let mut rd = primary::verif_hooks::from_parts(br, 1, last_slot, lo, no);
    let r = rd.next();
    let (slot_after, has_last, has_next) = primary::verif_hooks::state(&rd);
    match &r {
        Some(Ok(e)) => {
            let (l, n) = (lo_ok.unwrap(), no_ok.unwrap());
            let slot = match last_slot { Some(s) => s + 1, None => 0 };
            match e {
                primary::Entry::Occupied(s, o) => assert!(n > l && *s == slot && *o == l, "occupied entry = (next slot, last offset) iff offsets increase"),
                primary::Entry::Empty(s) => assert!(n <= l && *s == slot, "empty entry iff offsets do not increase"),
            }
            assert!(slot_after == Some(slot) && has_last, "reader advanced by one slot");
        }
        Some(Err(_)) => assert!(!has_last && !has_next, "an error ends the iteration"),
        None => {}
    }
    kani::cover!(matches!(&r, Some(Ok(primary::Entry::Occupied(..)))), "occupied slot");
    kani::cover!(matches!(&r, Some(Ok(primary::Entry::Empty(..)))), "empty slot");
    kani::cover!(matches!(&r, Some(Ok(primary::Entry::Empty(..)))) && no_ok < lo_ok, "decreasing offsets (corruption) read as empty slot");
    kani::cover!(matches!(&r, Some(Err(_))), "stored error surfaces");
    kani::cover!(r.is_none(), "end of index");
    kani::cover!(matches!(&r, Some(Ok(_))) && !has_next, "file ended right after this entry");
    core::mem::forget(r);
    core::mem::forget(rd);
}
}

io_harness! {
/// next_occupied from any reader state: skips empty slots until an occupied one, an error or the end
/// assume: last_slot < u32::MAX - 4 (slot counter wrap has its own harness)
/// bound: reader state fully symbolic; file serves <= 3 more offsets (<= 3 non-empty reads of 4..=8 bytes, then end of file); unwind 12
#[kani::unwind(12)]
fn c43_q_primary_next_occupied() {
    let fuel: u32 = kani::any();
    kani::assume(fuel <= 3);
    let br = BufReader::new(file_at(kani::any(), 8, true, fuel));
    let last_slot: Option<u32> = kani::any();
    kani::assume(match last_slot { Some(s) => s < u32::MAX - 4, None => true });
    let lo = any_offset_slot();
    let no = any_offset_slot();
    let mut rd = primary::verif_hooks::from_parts(br, 1, last_slot, lo, no);
    let r = rd.next_occupied();
    match &r {
        Some(Ok(e)) => assert!(e.offset().is_some(), "next_occupied only yields occupied entries"),
        _ => {}
    }
    let (slot_after, _, _) = primary::verif_hooks::state(&rd);
    kani::cover!(matches!(&r, Some(Ok(_))) && slot_after.is_some() && last_slot.is_some() && slot_after.unwrap() >= last_slot.unwrap() + 2, "an empty slot was skipped");
    kani::cover!(matches!(&r, Some(Err(_))), "error surfaces");
    kani::cover!(r.is_none(), "end of index");
    core::mem::forget(r);
    core::mem::forget(rd);
}
}

io_harness! {
/// slot counter at u32::MAX: `x + 1` (needs 2^32 index entries = a 16 GiB primary file; reported separately)
/// bound: last_slot = u32::MAX, offsets symbolic; unwind 12
#[kani::unwind(12)]
fn c43_t_primary_slot_wrap() {
    let br = BufReader::new(file_at(0, 8, false, 1));
    let mut rd = primary::verif_hooks::from_parts(br, 1, Some(u32::MAX), Some(Ok(kani::any())), Some(Ok(kani::any())));
    let r = rd.next();
    kani::cover!(r.is_some(), "step taken");
    core::mem::forget(r);
    core::mem::forget(rd);
}
}

// ---------------------------------------------------------------------------------------------
// secondary::Reader::next
// ---------------------------------------------------------------------------------------------

fn any_prim_entry() -> Option<Result<primary::Entry, primary::Error>> {
    let k: u8 = kani::any();
    match k {
        0 => None,
        1 => Some(Err(any_prim_err())),
        2 => Some(Ok(primary::Entry::Empty(kani::any()))),
        _ => Some(Ok(primary::Entry::Occupied(kani::any(), kani::any()))),
    }
}

fn prim_reader(fuel_is_shared: ()) -> primary::Reader {
    // the primary index behind the secondary reader: any state; it shares the file model
    let br = BufReader::new(raw_file(0, 0));
    let last_slot: Option<u32> = kani::any();
    kani::assume(match last_slot { Some(s) => s < u32::MAX - 4, None => true });
    primary::verif_hooks::from_parts(br, 1, last_slot, any_offset_slot(), any_offset_slot())
}

io_harness! {
/// FINDING harness (kept as is): a primary-index offset that lies before the current position of the
/// secondary file (`current < start`) must give an error or a seek backwards, not a panic.
/// bound: secondary file position start: any u64 < 2^32, primary offset current: any u32 < start; no I/O errors; unwind 12
#[kani::unwind(12)]
fn c43_q_secondary_backwards() {
    let start: u64 = kani::any();
    let current: u32 = kani::any();
    kani::assume(start < (1 << 32));
    kani::assume((current as u64) < start);
    let br = BufReader::new(file_at(start, 64, false, 0));
    let pbr = BufReader::new(raw_file(0, 0));
    let index = primary::verif_hooks::from_parts(pbr, 1, None, None, None);
    let mut rd = secondary::verif_hooks::from_parts(br, index, Some(Ok(primary::Entry::Occupied(0, current))));
    let r = rd.next();
    kani::cover!(r.is_some(), "step taken");
    core::mem::forget(r);
    core::mem::forget(rd);
}
}

io_harness! {
/// general: one step of the secondary iterator from any `current` (None / Err / Empty / Occupied(any offset)),
/// any primary-reader state, any file position not after the offset, any file behaviour.
/// assume: current >= start (excluded case: c43_q_secondary_backwards)
/// bound: start any u64, current any u32; reads return Err or 0..=8 arbitrary bytes, <= 9 non-empty reads in total (56-byte entry needs 7); unwind 16
#[kani::unwind(16)]
fn c43_q_secondary_next() {
    let start: u64 = kani::any();
    let fuel: u32 = kani::any();
    kani::assume(fuel <= 9);
    let br = BufReader::new(file_at(start, 64, true, fuel));
    let index = prim_reader(());
    let cur = any_prim_entry();
    let off = match &cur { Some(Ok(e)) => e.offset(), _ => None };
    if let Some(o) = off {
        kani::assume(o as u64 >= start);
    }
    let was_err = matches!(&cur, Some(Err(_)));
    let mut rd = secondary::verif_hooks::from_parts(br, index, cur);
    let r = rd.next();
    match &r {
        Some(Ok(_)) => assert!(off.is_some(), "an entry is only produced for an occupied primary slot"),
        Some(Err(_)) => assert!(!secondary::verif_hooks::has_current(&rd), "an error ends the iteration"),
        None => assert!(off.is_none() && !was_err, "iteration ends only when the primary index has no occupied slot"),
    }
    kani::cover!(matches!(&r, Some(Ok(_))), "entry read");
    kani::cover!(matches!(&r, Some(Err(secondary::Error::InconsistentState))), "truncated secondary index = InconsistentState");
    kani::cover!(matches!(&r, Some(Err(secondary::Error::CannotReadSecondaryIndex(_)))), "I/O error reported");
    kani::cover!(matches!(&r, Some(Err(secondary::Error::PrimaryIndexError(_)))), "primary error forwarded");
    kani::cover!(r.is_none(), "end of index");
    core::mem::forget(r);
    core::mem::forget(rd);
}
}

/// Entry::from on 56 arbitrary bytes: field extraction is total and big-endian
/// bound: 56 symbolic bytes; unwind 40
#[kani::proof]
#[kani::unwind(40)]
#[kani::stub(std::fmt::format, crate::stubs::fmt_format_stub)]
fn c43_q_secondary_entry_layout() {
    let b: [u8; 56] = kani::any();
    let e = secondary::verif_hooks::entry_from_bytes(&b);
    assert!(e.block_offset == u64::from_be_bytes([b[0], b[1], b[2], b[3], b[4], b[5], b[6], b[7]]), "block_offset is bytes 0..8 big-endian");
    assert!(e.header_offset == u16::from_be_bytes([b[8], b[9]]), "header_offset is bytes 8..10");
    assert!(e.header_size == u16::from_be_bytes([b[10], b[11]]), "header_size is bytes 10..12");
    assert!(e.checksum == u32::from_be_bytes([b[12], b[13], b[14], b[15]]), "checksum is bytes 12..16");
    let mut i = 0;
    while i < 32 {
        assert!(e.header_hash[i] == b[16 + i], "header_hash is bytes 16..48");
        i += 1;
    }
    let mut i = 0;
    while i < 8 {
        assert!(e.block_or_ebb[i] == b[48 + i], "block_or_ebb is bytes 48..56");
        i += 1;
    }
    kani::cover!(e.block_offset == u64::MAX, "maximal offset");
    core::mem::forget(e);
}

// ---------------------------------------------------------------------------------------------
// chunk::Reader::next (state machine around the two block readers)
// ---------------------------------------------------------------------------------------------

fn any_sec_entry() -> secondary::Entry {
    secondary::Entry {
        block_offset: kani::any(),
        header_offset: kani::any(),
        header_size: kani::any(),
        checksum: kani::any(),
        header_hash: [0; 32],
        block_or_ebb: [0; 8],
    }
}

fn any_sec_slot() -> Option<Result<secondary::Entry, secondary::Error>> {
    let k: u8 = kani::any();
    match k {
        0 => None,
        1 => Some(Err(secondary::Error::InconsistentState)),
        _ => Some(Ok(any_sec_entry())),
    }
}

io_harness! {
/// one step of the chunk iterator from any (current, next) state; the secondary index behind it is exhausted
/// assume: next.block_offset >= position of the chunk file, delta <= 8 (backwards case: c43_q_chunk_middle_backwards)
/// bound: current/next in {None, Err, Ok(entry with symbolic block_offset)}, start any u64; reads Err or 0..=8 bytes, <= 3 non-empty reads; unwind 20
#[kani::unwind(20)]
fn c43_q_chunk_next() {
    let start: u64 = kani::any();
    let fuel: u32 = kani::any();
    kani::assume(fuel <= 3);
    let br = BufReader::new(file_at(start, 8, true, fuel));
    let pbr = BufReader::new(raw_file(0, 0));
    let sbr = BufReader::new(raw_file(0, 0));
    let pidx = primary::verif_hooks::from_parts(pbr, 1, None, None, None);
    let sidx = secondary::verif_hooks::from_parts(sbr, pidx, None);
    let cur = any_sec_slot();
    let nxt = any_sec_slot();
    if let Some(Ok(e)) = &nxt {
        kani::assume(e.block_offset >= start && e.block_offset - start <= 8);
    }
    let (c_some, n_err, n_ok) = (cur.is_some(), matches!(&nxt, Some(Err(_))), matches!(&nxt, Some(Ok(_))));
    let mut rd = chunk::verif_hooks::from_parts(br, sidx, cur, nxt);
    let r = rd.next();
    let (has_cur, has_next) = chunk::verif_hooks::state(&rd);
    match &r {
        None => assert!(!c_some, "iteration ends only when there is no current entry"),
        Some(Err(chunk::Error::SecondaryIndexError(_))) => assert!(c_some && n_err && !has_cur && !has_next, "index error forwarded and iteration ended"),
        Some(_) => assert!(c_some && !n_err, "a block (or read error) is produced for the current entry"),
    }
    kani::cover!(matches!(&r, Some(Ok(_))) && n_ok, "middle block");
    kani::cover!(matches!(&r, Some(Ok(_))) && !n_ok, "last block");
    kani::cover!(matches!(&r, Some(Err(chunk::Error::CannotReadBlock(_)))), "read error reported");
    kani::cover!(matches!(&r, Some(Err(chunk::Error::SecondaryIndexError(_)))), "index error forwarded");
    kani::cover!(r.is_none(), "end of chunk");
    core::mem::forget(r);
    core::mem::forget(rd);
}
}

io_harness! {
/// vacuity twin: must come back FAILED
#[kani::unwind(12)]
fn c43_v_twin() {
    let mut br = BufReader::new(file_at(kani::any(), 8, true, 3));
    let r = primary::verif_hooks::read_offset(&mut br);
    assert!(matches!(&r, Some(Ok(_))), "twin: must fail");
    core::mem::forget(r);
    core::mem::forget(br);
}
}

io_harness! {
#[kani::unwind(12)]
fn probe_a() {
    let start: u64 = kani::any();
    let next_offset: u64 = kani::any();
    kani::assume(next_offset < start);
    unsafe { POS = start; FUEL = 2; ERRS = false; }
    let mut br = BufReader::new(unsafe { File::from_raw_fd(3) });
    let r = chunk::verif_hooks::read_middle_block(&mut br, next_offset);
    core::mem::forget(r);
    core::mem::forget(br);
}
}
