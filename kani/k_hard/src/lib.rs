#![allow(unused)]
#![cfg_attr(kani, feature(read_buf, core_io_borrowed_buf))]
//! Kani harnesses over pallas-hardano (C42, C43).
#[cfg(kani)]
mod stubs;
#[cfg(kani)]
mod c42;
#[cfg(kani)]
mod c43;
