//! C42 (chunk-selection lemma only): `chunk_binary_search` picks the chunk a linear scan picks.
//! fn: pallas_hardano::storage::immutable::chunk_binary_search (via verif_hooks)
//! stub: std::fmt::format -> empty String
//! outside: everything that opens files (chunk::read_blocks inside the comparator, ChunkReaders), iterate_till_point (decodes blocks), read_blocks, get_tip; more than 6 chunks
//! assume: chunks are in the order build_stack_of_chunk_names produces: strictly descending first-block slots; empty chunk files (comparator answers Greater) only at the newest end
use pallas_hardano::storage::immutable::verif_hooks::chunk_binary_search;
use pallas_hardano::storage::immutable::Error;
use std::cmp::Ordering;

/// A chunk as the comparator of `read_blocks_from_point` sees it: `Some(first_slot)` or an empty chunk.
#[derive(Clone, Copy)]
struct Chunk(Option<u64>);

/// comparator shape of `read_blocks_from_point`: first block's slot `cmp` point; empty chunk => Greater
fn cmp(c: &Chunk, p: &u64) -> Result<Ordering, Error> {
    match c.0 {
        Some(s) => Ok(s.cmp(p)),
        None => Ok(Ordering::Greater),
    }
}

/// linear-scan oracle: chunks are descending; the answer is the first index whose first slot is <= point
/// (the chunk that can contain the point), None if every chunk starts after the point
fn linear(chunks: &[Chunk], n: usize, p: u64) -> Option<usize> {
    let mut i = 0;
    while i < n {
        if let Some(s) = chunks[i].0 {
            if s <= p {
                return Some(i);
            }
        }
        i += 1;
    }
    None
}

macro_rules! search {
    ($name:ident, $n:expr, |$c:ident, $k:ident, $w:ident, $p:ident| $covers:block) => {
        #[kani::proof]
        #[kani::unwind(8)]
        #[kani::stub(std::fmt::format, crate::stubs::fmt_format_stub)]
        fn $name() {
            const N: usize = $n;
            let mut chunks = [Chunk(None); 6];
            // the K newest chunks (front of the descending list) may be empty files
            let k: usize = kani::any();
            kani::assume(k <= N);
            let mut i = 0;
            while i < N {
                if i >= k {
                    chunks[i] = Chunk(Some(kani::any()));
                }
                i += 1;
            }
            // strictly descending first slots (chunk files sorted by number, reversed)
            let mut i = 1;
            while i < N {
                if i - 1 >= k {
                    kani::assume(chunks[i - 1].0.unwrap() > chunks[i].0.unwrap());
                }
                i += 1;
            }
            let p: u64 = kani::any();
            let rounds = core::cell::Cell::new(0u32);
            let r = chunk_binary_search(&chunks[..N], &p, |c, p| {
                rounds.set(rounds.get() + 1);
                cmp(c, p)
            });
            let want = linear(&chunks, N, p);
            match &r {
                Ok(got) => assert!(*got == want, "selected chunk equals the linear-scan answer"),
                Err(_) => assert!(false, "comparator never fails, so the search must not fail"),
            }
            assert!(rounds.get() <= 3, "terminates within floor(log2 6)+1 = 3 comparator calls");
            kani::cover!(r.is_ok(), "search returns");
            {
                let ($c, $k, $w, $p) = (&chunks, k, want, p);
                $covers
            }
            core::mem::forget(r);
        }
    };
}
// bound: N concrete chunks with symbolic u64 first-slots (strictly descending), a symbolic number 0..=N of empty newest chunks, symbolic u64 point; unwind 8
search!(c42_q_search_n0, 0, |c, k, w, p| {
    kani::cover!(w.is_none(), "no chunk at all");
});
search!(c42_q_search_n1, 1, |c, k, w, p| {
    kani::cover!(w.is_none() && k == 0, "point before the only chunk");
    kani::cover!(w.is_none() && k == 1, "only chunk is empty");
    kani::cover!(w == Some(0), "point in the only chunk");
});
search!(c42_q_search_n2, 2, |c, k, w, p| {
    kani::cover!(w.is_none() && k == 0, "point before every chunk");
    kani::cover!(w == Some(0), "point in the newest chunk");
    kani::cover!(w == Some(1), "point in the oldest chunk");
    kani::cover!(k == 1 && w == Some(1), "newest chunk empty, point in the next one");
    kani::cover!(w == Some(1) && c[1].0 != Some(p), "point strictly inside the second chunk");
    kani::cover!(w == Some(1) && c[1].0 == Some(p), "point is the first slot of the second chunk");
});
search!(c42_q_search_n3, 3, |c, k, w, p| {
    kani::cover!(w.is_none() && k == 0, "point before every chunk");
    kani::cover!(w == Some(0), "point in the newest chunk");
    kani::cover!(w == Some(2), "point in the oldest chunk");
    kani::cover!(k == 1 && w == Some(1), "newest chunk empty, point in the next one");
    kani::cover!(w == Some(1) && c[1].0 != Some(p), "point strictly inside the second chunk");
    kani::cover!(w == Some(1) && c[1].0 == Some(p), "point is the first slot of the second chunk");
});
search!(c42_q_search_n4, 4, |c, k, w, p| {
    kani::cover!(w.is_none() && k == 0, "point before every chunk");
    kani::cover!(w == Some(0), "point in the newest chunk");
    kani::cover!(w == Some(3), "point in the oldest chunk");
    kani::cover!(k == 1 && w == Some(1), "newest chunk empty, point in the next one");
    kani::cover!(w == Some(1) && c[1].0 != Some(p), "point strictly inside the second chunk");
    kani::cover!(w == Some(1) && c[1].0 == Some(p), "point is the first slot of the second chunk");
});
search!(c42_q_search_n5, 5, |c, k, w, p| {
    kani::cover!(w.is_none() && k == 0, "point before every chunk");
    kani::cover!(w == Some(0), "point in the newest chunk");
    kani::cover!(w == Some(4), "point in the oldest chunk");
    kani::cover!(k == 1 && w == Some(1), "newest chunk empty, point in the next one");
    kani::cover!(w == Some(1) && c[1].0 != Some(p), "point strictly inside the second chunk");
    kani::cover!(w == Some(1) && c[1].0 == Some(p), "point is the first slot of the second chunk");
});
search!(c42_q_search_n6, 6, |c, k, w, p| {
    kani::cover!(w.is_none() && k == 0, "point before every chunk");
    kani::cover!(w == Some(0), "point in the newest chunk");
    kani::cover!(w == Some(5), "point in the oldest chunk");
    kani::cover!(k == 1 && w == Some(1), "newest chunk empty, point in the next one");
    kani::cover!(w == Some(1) && c[1].0 != Some(p), "point strictly inside the second chunk");
    kani::cover!(w == Some(1) && c[1].0 == Some(p), "point is the first slot of the second chunk");
});

/// a failing comparator (unreadable chunk / undecodable first block) at a symbolic chunk index:
/// the search fails iff that chunk is probed, otherwise the answer is still the linear-scan one
/// bound: 6 chunks with symbolic strictly descending u64 first-slots, symbolic point, symbolic failing index 0..=5; unwind 8
#[kani::proof]
#[kani::unwind(8)]
#[kani::stub(std::fmt::format, crate::stubs::fmt_format_stub)]
fn c42_q_search_cmp_err() {
    let mut chunks = [Chunk(None); 6];
    let mut i = 0;
    while i < 6 {
        chunks[i] = Chunk(Some(kani::any()));
        i += 1;
    }
    let mut i = 1;
    while i < 6 {
        kani::assume(chunks[i - 1].0.unwrap() > chunks[i].0.unwrap());
        i += 1;
    }
    let p: u64 = kani::any();
    let bad: usize = kani::any();
    kani::assume(bad < 6);
    let bad_slot = chunks[bad].0.unwrap();
    let probed = core::cell::Cell::new(false);
    let r = chunk_binary_search(&chunks[..], &p, |c, p| {
        if c.0 == Some(bad_slot) {
            probed.set(true);
            Err(Error::OriginMissing)
        } else {
            cmp(c, p)
        }
    });
    let want = linear(&chunks, 6, p);
    match &r {
        Ok(got) => {
            assert!(!probed.get(), "a comparator error is never swallowed");
            assert!(*got == want, "selected chunk equals the linear-scan answer");
        }
        Err(_) => assert!(probed.get(), "the search fails only because the comparator failed"),
    }
    kani::cover!(r.is_err(), "comparator error propagates");
    kani::cover!(r.is_ok() && want == Some(5), "bad chunk not probed");
    core::mem::forget(r);
}

/// vacuity twin: must come back FAILED
#[kani::proof]
#[kani::unwind(8)]
#[kani::stub(std::fmt::format, crate::stubs::fmt_format_stub)]
fn c42_v_twin() {
    let chunks = [Chunk(Some(kani::any())), Chunk(Some(kani::any()))];
    kani::assume(chunks[0].0.unwrap() > chunks[1].0.unwrap());
    let p: u64 = kani::any();
    let r = chunk_binary_search(&chunks[..], &p, cmp);
    assert!(matches!(r, Ok(Some(0))), "twin: must fail");
    core::mem::forget(r);
}
