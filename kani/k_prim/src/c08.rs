//! C08 (assembly part): ScriptData::hash = Hasher(redeemers-or-a0 || datums as they appeared || language views-or-a0); build_for drops what the ledger formula drops.
//! fn: pallas_primitives::conway::script_data::{ScriptData::hash, ScriptData::build_for, <LanguageViews as Encode>::encode}
//! stub: pallas_crypto::hash::Hasher::<256>::hash -> recording stub: digest = (len, first 31 input bytes); injective on inputs <= 31 bytes (asserted), so "digests equal" <=> "hashed byte strings equal"
//! stub: std::fmt::format -> empty String; minicbor::encode::Error::write -> Error::message (Vec writer)
//! outside: real Blake2b (C10), language-view sets with more than one language (canonical V2,V3,V1 order: two-entry BTreeMap iteration gives no verdict), cost models with more than 1 coefficient or coefficients outside 0..=23, redeemer ex-units above 23, more than one redeemer / datum, hashed input longer than 31 bytes
use pallas_codec::minicbor;
use pallas_codec::utils::{KeepRaw, NonEmptySet};
use pallas_crypto::hash::{Hash, Hasher};
use pallas_primitives::conway::{ExUnits, LanguageViews, Redeemer, RedeemerTag, Redeemers, RedeemersKey, RedeemersValue, ScriptData, WitnessSet};
use pallas_primitives::{BoundedBytes, PlutusData};
use std::collections::BTreeMap;

pub fn rec_hash(bytes: &[u8]) -> Hash<32> {
    assert!(bytes.len() <= 31, "recording stub is injective only up to 31 bytes");
    let mut out = [0u8; 32];
    out[0] = bytes.len() as u8;
    let mut i = 0;
    while i < 31 {
        if i < bytes.len() {
            out[1 + i] = bytes[i];
        }
        i += 1;
    }
    Hash::new(out)
}

fn digest_eq(a: &Hash<32>, b: &Hash<32>) -> bool {
    let mut i = 0;
    let mut ok = true;
    while i < 32 {
        ok &= a.as_ref()[i] == b.as_ref()[i];
        i += 1;
    }
    ok
}

macro_rules! c08 {
    ($(#[$m:meta])* fn $name:ident() $body:block) => {
        $(#[$m])*
        #[kani::proof]
        #[kani::unwind(34)]
        #[kani::stub(std::fmt::format, crate::stubs::fmt_format_stub)]
        #[kani::stub(pallas_codec::minicbor::encode::Error::write, crate::stubs::mcb_write_err_stub)]
        #[kani::stub(pallas_crypto::hash::Hasher::<256>::hash, rec_hash)]
        fn $name() $body
    };
}

fn small() -> u8 {
    let v: u8 = kani::any();
    kani::assume(v <= 23);
    v
}

c08! {
/// neither redeemers nor datums nor views: a0 a0
/// bound: no symbolic input (structural case); unwind 34
fn c08_q_hash_empty() {
    let sd = ScriptData { redeemers: None, datums: None, language_views: None };
    let got = sd.hash();
    let want = Hasher::<256>::hash(&[0xa0, 0xa0]);
    assert!(digest_eq(&got, &want), "digest = H(a0 || a0)");
    kani::cover!(true, "reached");
    core::mem::forget(sd);
}
}

c08! {
/// datums only: the datum bytes enter the hash exactly as they appeared (raw arbitrary, not a re-encoding)
/// bound: datums raw = 6 arbitrary bytes through KeepRaw::verif_from_parts, inner value unrelated; redeemers None, views None; unwind 34
fn c08_q_hash_datums_raw() {
    let raw: [u8; 6] = kani::any();
    let inner_raw: [u8; 2] = [0x41, 0x00];
    let leaf = KeepRaw::verif_from_parts(&inner_raw[..], PlutusData::BoundedBytes(BoundedBytes::from(vec![0u8])));
    let set = NonEmptySet::from_vec(vec![leaf]).unwrap();
    let datums = KeepRaw::verif_from_parts(&raw[..], set);
    let sd = ScriptData { redeemers: None, datums: Some(datums), language_views: None };
    let got = sd.hash();
    let want = Hasher::<256>::hash(&[0xa0, raw[0], raw[1], raw[2], raw[3], raw[4], raw[5], 0xa0]);
    assert!(digest_eq(&got, &want), "digest = H(a0 || datums raw || a0)");
    kani::cover!(raw[0] == 0xff, "raw bytes are not valid CBOR");
    core::mem::forget(sd);
}
}

fn views(lang: u8, c: u8) -> LanguageViews {
    let mut m = BTreeMap::new();
    m.insert(lang, vec![c as i64]);
    LanguageViews(m)
}

c08! {
/// PlutusV2 view: plain key and definite list
/// bound: one language (V2), one coefficient symbolic in 0..=23; redeemers None, datums None; unwind 34
fn c08_x_hash_views_v2() {
    let c = small();
    let sd = ScriptData { redeemers: None, datums: None, language_views: Some(views(1, c)) };
    let got = sd.hash();
    let want = Hasher::<256>::hash(&[0xa0, 0xa1, 0x01, 0x81, c]);
    assert!(digest_eq(&got, &want), "digest = H(a0 || {{1: [c]}})");
    kani::cover!(c == 23, "largest one-byte coefficient");
    core::mem::forget(sd);
}
}

c08! {
/// PlutusV1 view: key wrapped in a byte string (41 00), value = byte string holding an INDEFINITE list
/// bound: one language (V1), one coefficient symbolic in 0..=23; unwind 34
fn c08_x_hash_views_v1() {
    let c = small();
    let sd = ScriptData { redeemers: None, datums: None, language_views: Some(views(0, c)) };
    let got = sd.hash();
    let want = Hasher::<256>::hash(&[0xa0, 0xa1, 0x41, 0x00, 0x43, 0x9f, c, 0xff]);
    assert!(digest_eq(&got, &want), "digest = H(a0 || {{h'00': h'9f c ff'}})");
    kani::cover!(c == 0, "zero coefficient");
    core::mem::forget(sd);
}
}

c08! {
/// PlutusV3 view
/// bound: one language (V3), one coefficient symbolic in 0..=23; unwind 34
fn c08_x_hash_views_v3() {
    let c = small();
    let sd = ScriptData { redeemers: None, datums: None, language_views: Some(views(2, c)) };
    let got = sd.hash();
    let want = Hasher::<256>::hash(&[0xa0, 0xa1, 0x02, 0x81, c]);
    assert!(digest_eq(&got, &want), "digest = H(a0 || {{2: [c]}})");
    kani::cover!(c == 1, "reached");
    core::mem::forget(sd);
}
}

fn datum(x: u8) -> PlutusData {
    PlutusData::BoundedBytes(BoundedBytes::from(vec![x]))
}

c08! {
/// redeemers in list form
/// bound: one redeemer [tag Mint, index 0, data h'xx', [mem, steps]] with xx any byte and mem, steps symbolic in 0..=23; datums None, views None; unwind 34
fn c08_x_hash_redeemers_list() {
    let (x, mem, steps) = (kani::any::<u8>(), small(), small());
    let r = Redeemer { tag: RedeemerTag::Mint, index: 0, data: datum(x), ex_units: ExUnits { mem: mem as u64, steps: steps as u64 } };
    let sd = ScriptData { redeemers: Some(Redeemers::List(vec![r])), datums: None, language_views: None };
    let got = sd.hash();
    let want = Hasher::<256>::hash(&[0x81, 0x84, 0x01, 0x00, 0x41, x, 0x82, mem, steps, 0xa0]);
    assert!(digest_eq(&got, &want), "digest = H([[1, 0, h'xx', [mem, steps]]] || a0)");
    kani::cover!(mem == 23 && steps == 0, "reached");
    core::mem::forget(sd);
}
}

c08! {
/// redeemers in map form
/// bound: one entry {[tag Spend, index 0]: [h'xx', [mem, steps]]}; unwind 34
fn c08_x_hash_redeemers_map() {
    let (x, mem, steps) = (kani::any::<u8>(), small(), small());
    let mut m = BTreeMap::new();
    m.insert(RedeemersKey { tag: RedeemerTag::Spend, index: 0 }, RedeemersValue { data: datum(x), ex_units: ExUnits { mem: mem as u64, steps: steps as u64 } });
    let sd = ScriptData { redeemers: Some(Redeemers::Map(m)), datums: None, language_views: None };
    let got = sd.hash();
    let want = Hasher::<256>::hash(&[0xa1, 0x82, 0x00, 0x00, 0x82, 0x41, x, 0x82, mem, steps, 0xa0]);
    assert!(digest_eq(&got, &want), "digest = H({{[0, 0]: [h'xx', [mem, steps]]}} || a0)");
    kani::cover!(mem == 0 && steps == 23, "reached");
    core::mem::forget(sd);
}
}

fn empty_ws<'b>() -> WitnessSet<'b> {
    WitnessSet {
        vkeywitness: None,
        native_script: None,
        bootstrap_witness: None,
        plutus_v1_script: None,
        plutus_data: None,
        redeemer: None,
        plutus_v2_script: None,
        plutus_v3_script: None,
    }
}

c08! {
/// build_for: no hash material when there are neither redeemers nor datums, whatever the cost models
/// bound: witness set without redeemers and datums; language views None or {V2: [c]}; unwind 34
fn c08_q_build_for_none() {
    let ws = empty_ws();
    let lv = if kani::any() { Some(views(1, small())) } else { None };
    let r = ScriptData::build_for(&ws, &lv);
    assert!(r.is_none(), "no redeemers and no datums: no script data hash");
    kani::cover!(lv.is_some(), "views present but ignored");
    core::mem::forget((ws, lv, r));
}
}

c08! {
/// build_for with datums only: Some, and the language views are dropped
/// bound: datums raw = 3 arbitrary bytes; views {V2: [c]}; unwind 34
fn c08_x_build_for_datums_only() {
    let raw: [u8; 3] = kani::any();
    let inner_raw: [u8; 2] = [0x41, 0x00];
    let leaf = KeepRaw::verif_from_parts(&inner_raw[..], datum(0));
    let set = NonEmptySet::from_vec(vec![leaf]).unwrap();
    let mut ws = empty_ws();
    ws.plutus_data = Some(KeepRaw::verif_from_parts(&raw[..], set));
    let lv = Some(views(1, small()));
    let r = ScriptData::build_for(&ws, &lv);
    match &r {
        Some(sd) => {
            assert!(sd.redeemers.is_none() && sd.datums.is_some() && sd.language_views.is_none(), "datums only: views dropped");
            let got = sd.hash();
            let want = Hasher::<256>::hash(&[0xa0, raw[0], raw[1], raw[2], 0xa0]);
            assert!(digest_eq(&got, &want), "digest = H(a0 || datums raw || a0)");
        }
        None => assert!(false, "datums present: a hash is required"),
    }
    kani::cover!(r.is_some(), "reached");
    core::mem::forget((ws, lv, r));
}
}

c08! {
/// vacuity twin: must come back FAILED
fn c08_v_twin() {
    let sd = ScriptData { redeemers: None, datums: None, language_views: None };
    let got = sd.hash();
    let want = Hasher::<256>::hash(&[0xa0, 0xa1]);
    assert!(digest_eq(&got, &want), "twin: must fail");
    core::mem::forget(sd);
}
}
