//! C07: PlutusData ordering is the pull-back of the integer order (BigInt), lexicographic (Constr), rank-based across variants, Def/Indef-insensitive; leaf values and chunked byte strings round-trip.
//! fn: pallas_primitives::plutus_data::{<BigInt as Ord>::cmp, <Constr<A> as Ord>::cmp, Constr::constr_index, <PlutusData as Ord>::cmp, PartialEq}
//! fn: pallas_primitives::plutus_data::{<BoundedBytes as Encode>::encode, <BoundedBytes as Decode>::decode, <BigInt as Encode/Decode>, <PlutusData as Encode/Decode>, <Constr<A> as Encode/Decode>}
//! stub: std::fmt::format -> empty String; minicbor::encode::Error::write -> Error::message (only where a Vec writer is used)
//! outside: the order laws themselves (reflexive / antisymmetric up to Equal / transitive) are NOT checked on triples (no verdict in 500 s); they follow from the denotation lemma `a.cmp(b) == den(a).cmp(den(b))` because a pull-back of the order on integers has them -- that inference is by hand
//! outside: BigUInt/BigNInt payloads longer than 2 bytes in the order lemma, PlutusData of depth > 1 (property: 4), containers with more than 1 element, byte strings other than the listed lengths
//! outside: den(BigNInt(bs)) is the code's own convention -magnitude(bs); under RFC 8949 tag 3 denotes -1-n, so `BigNInt([0]) == Int(0)` holds here although the two encode different CBOR integers (observation, not part of C07 as stated)
use pallas_codec::minicbor;
use pallas_codec::utils::{Int, KeyValuePairs, MaybeIndefArray};
use pallas_primitives::{BigInt, BoundedBytes, Constr, PlutusData};
use std::cmp::Ordering;

fn int_of(v: i128) -> BigInt {
    BigInt::Int(Int::try_from(v).unwrap())
}

/// Int with a symbolic value in -2^15..2^15 (quick tier)
fn int_small() -> BigInt {
    let v: i16 = kani::any();
    int_of(v as i128)
}
/// Int over the full i64 range
fn int_i64() -> BigInt {
    let v: i64 = kani::any();
    int_of(v as i128)
}
/// Int in the two 65-bit edge bands: -2^64 ..= -2^64+255 and 2^64-256 ..= 2^64-1
fn int_edge() -> BigInt {
    let lo: u8 = kani::any();
    let neg: bool = kani::any();
    let v: i128 = if neg { -(1i128 << 64) + lo as i128 } else { (1i128 << 64) - 1 - lo as i128 };
    int_of(v)
}

fn bytes<const N: usize>() -> BoundedBytes {
    let b: [u8; N] = kani::any();
    let mut v = Vec::with_capacity(N);
    let mut i = 0;
    while i < N {
        v.push(b[i]);
        i += 1;
    }
    BoundedBytes::from(v)
}
fn uint<const N: usize>() -> BigInt {
    BigInt::BigUInt(bytes::<N>())
}
fn nint<const N: usize>() -> BigInt {
    BigInt::BigNInt(bytes::<N>())
}

fn mag(bs: &BoundedBytes) -> i128 {
    let mut m: i128 = 0;
    let mut i = 0;
    while i < bs.len() {
        m = m * 256 + bs[i] as i128;
        i += 1;
    }
    m
}

/// the integer the code's own convention assigns to a BigInt
fn den(b: &BigInt) -> i128 {
    match b {
        BigInt::Int(i) => i128::from(*i),
        BigInt::BigUInt(bs) => mag(bs),
        BigInt::BigNInt(bs) => -mag(bs),
    }
}

macro_rules! lemma {
    ($name:ident, $a:expr, $b:expr) => {
        #[kani::proof]
        #[kani::unwind(19)]
        #[kani::stub(std::fmt::format, crate::stubs::fmt_format_stub)]
        fn $name() {
            let a = $a;
            let b = $b;
            let got = a.cmp(&b);
            let want = den(&a).cmp(&den(&b));
            assert!(got == want, "BigInt::cmp is the integer order of the denotations");
            assert!((a == b) == (want == Ordering::Equal), "BigInt equality ignores the representation");
            kani::cover!(got == Ordering::Less, "less");
            kani::cover!(got == Ordering::Equal, "equal");
            kani::cover!(got == Ordering::Greater, "greater");
            core::mem::forget(a);
            core::mem::forget(b);
        }
    };
}
// bound: variants concrete per harness (9 ordered pairs); Int symbolic in -2^15..2^15, BigUInt/BigNInt payload of 1 symbolic byte (incl. 0x00); to_bytes loop over 16 bytes: unwind 19
lemma!(c07_q_lemma_int_int, int_small(), int_small());
lemma!(c07_q_lemma_int_uint, int_small(), uint::<1>());
lemma!(c07_q_lemma_int_nint, int_small(), nint::<1>());
lemma!(c07_q_lemma_uint_int, uint::<1>(), int_small());
lemma!(c07_q_lemma_uint_uint, uint::<1>(), uint::<1>());
lemma!(c07_q_lemma_uint_nint, uint::<1>(), nint::<1>());
lemma!(c07_q_lemma_nint_int, nint::<1>(), int_small());
lemma!(c07_q_lemma_nint_uint, nint::<1>(), uint::<1>());
lemma!(c07_q_lemma_nint_nint, nint::<1>(), nint::<1>());
// bound: byte payloads of concrete lengths 0 and 2 (symbolic content incl. leading zeros) against each other and against a small Int; unwind 19
lemma!(c07_q_lemma_uint0_nint0, uint::<0>(), nint::<0>());
lemma!(c07_q_lemma_nint0_int, nint::<0>(), int_small());
lemma!(c07_q_lemma_int_uint0, int_small(), uint::<0>());
lemma!(c07_q_lemma_uint2_uint1, uint::<2>(), uint::<1>());
lemma!(c07_q_lemma_nint2_nint1, nint::<2>(), nint::<1>());
lemma!(c07_q_lemma_uint2_int, uint::<2>(), int_small());
lemma!(c07_q_lemma_int_nint2, int_small(), nint::<2>());
lemma!(c07_q_lemma_nint2_uint2, nint::<2>(), uint::<2>());
// bound: Int over the full i64 range / the two 65-bit edge bands (-2^64..=-2^64+255, 2^64-256..=2^64-1); byte payloads 1 or 2 symbolic bytes; unwind 19
lemma!(c07_t_lemma_i64_i64, int_i64(), int_i64());
lemma!(c07_t_lemma_i64_uint1, int_i64(), uint::<1>());
lemma!(c07_t_lemma_nint1_i64, nint::<1>(), int_i64());
lemma!(c07_t_lemma_edge_edge, int_edge(), int_edge());
lemma!(c07_t_lemma_edge_i64, int_edge(), int_i64());
lemma!(c07_t_lemma_edge_uint2, int_edge(), uint::<2>());
lemma!(c07_t_lemma_nint2_edge, nint::<2>(), int_edge());
lemma!(c07_t_lemma_uint2_uint2, uint::<2>(), uint::<2>());
lemma!(c07_t_lemma_nint2_nint2, nint::<2>(), nint::<2>());
