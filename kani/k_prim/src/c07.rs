//! C07: PlutusData ordering is the pull-back of the integer order (BigInt), lexicographic (Constr), rank-based across variants, Def/Indef-insensitive; leaf values and chunked byte strings round-trip.
//! fn: pallas_primitives::plutus_data::{<BigInt as Ord>::cmp, <Constr<A> as Ord>::cmp, Constr::constr_index, <PlutusData as Ord>::cmp, PartialEq}
//! fn: pallas_primitives::plutus_data::{<BoundedBytes as Encode>::encode, <BoundedBytes as Decode>::decode, <BigInt as Encode/Decode>, <PlutusData as Encode/Decode>, <Constr<A> as Encode/Decode>}
//! stub: std::fmt::format -> empty String; minicbor::encode::Error::write -> Error::message (only where a Vec writer is used)
//! outside: the order laws themselves (reflexive / antisymmetric up to Equal / transitive) are NOT checked on triples (no verdict in 500 s); they follow from the denotation lemma `a.cmp(b) == den(a).cmp(den(b))` because a pull-back of the order on integers has them -- that inference is by hand
//! outside: equality / order of containers that hold elements and Def/Indef-insensitive equality even of EMPTY containers of the same variant (no verdict in 400 s: values read back through Vec pointers lose their concrete variants and CBMC unrolls the recursive PlutusData::cmp), PlutusData-level round trips of containers (same reason); quick tier covers only the byte-payload pairs of the order lemma, Int pairs and 2-byte payloads are thorough tier (measured 59..268 s on an idle machine, no verdict in 400 s under load)
//! outside: BigUInt/BigNInt payloads longer than 2 bytes in the order lemma, PlutusData of depth > 1 (property: 4), containers with more than 1 element, byte strings other than the listed lengths
//! outside: den(BigNInt(bs)) is the code's own convention -magnitude(bs); under RFC 8949 tag 3 denotes -1-n, so `BigNInt([0]) == Int(0)` holds here although the two encode different CBOR integers (observation, not part of C07 as stated)
use pallas_codec::minicbor;
use pallas_codec::utils::{Int, KeyValuePairs, MaybeIndefArray};
use pallas_primitives::{BigInt, BoundedBytes, Constr, PlutusData};
use std::cmp::Ordering;

fn int_of(v: i128) -> BigInt {
    BigInt::Int(Int::try_from(v).unwrap())
}

/// Int with a symbolic value in -2^15..2^15 (quick tier)
fn int_small() -> BigInt {
    let v: i16 = kani::any();
    int_of(v as i128)
}
/// Int over the full i64 range
fn int_i64() -> BigInt {
    let v: i64 = kani::any();
    int_of(v as i128)
}
/// Int in the two 65-bit edge bands: -2^64 ..= -2^64+255 and 2^64-256 ..= 2^64-1
fn int_edge() -> BigInt {
    let lo: u8 = kani::any();
    let neg: bool = kani::any();
    let v: i128 = if neg { -(1i128 << 64) + lo as i128 } else { (1i128 << 64) - 1 - lo as i128 };
    int_of(v)
}

fn bytes<const N: usize>() -> BoundedBytes {
    let b: [u8; N] = kani::any();
    let mut v = Vec::with_capacity(N);
    let mut i = 0;
    while i < N {
        v.push(b[i]);
        i += 1;
    }
    BoundedBytes::from(v)
}
fn uint<const N: usize>() -> BigInt {
    BigInt::BigUInt(bytes::<N>())
}
fn nint<const N: usize>() -> BigInt {
    BigInt::BigNInt(bytes::<N>())
}

fn mag(bs: &BoundedBytes) -> i128 {
    let mut m: i128 = 0;
    let mut i = 0;
    while i < bs.len() {
        m = m * 256 + bs[i] as i128;
        i += 1;
    }
    m
}

/// the integer the code's own convention assigns to a BigInt
fn den(b: &BigInt) -> i128 {
    match b {
        BigInt::Int(i) => i128::from(*i),
        BigInt::BigUInt(bs) => mag(bs),
        BigInt::BigNInt(bs) => -mag(bs),
    }
}

macro_rules! lemma {
    ($name:ident, $a:expr, $b:expr, [$($c:ident),*]) => {
        #[kani::proof]
        #[kani::unwind(19)]
        #[kani::stub(std::fmt::format, crate::stubs::fmt_format_stub)]
        fn $name() {
            let a = $a;
            let b = $b;
            let got = a.cmp(&b);
            let want = den(&a).cmp(&den(&b));
            assert!(got == want, "BigInt::cmp is the integer order of the denotations");
            assert!((a == b) == (want == Ordering::Equal), "BigInt equality ignores the representation");
            $(kani::cover!(got == Ordering::$c, "this outcome is reachable for the pair");)*
            core::mem::forget(a);
            core::mem::forget(b);
        }
    };
}
// bound: variants concrete per harness (9 ordered pairs); Int symbolic in -2^15..2^15, BigUInt/BigNInt payload of 1 symbolic byte (incl. 0x00); to_bytes loop over 16 bytes: unwind 19
lemma!(c07_x_lemma_int_int, int_small(), int_small(), [Less, Equal, Greater]);
lemma!(c07_t_lemma_int_uint, int_small(), uint::<1>(), [Less, Equal, Greater]);
lemma!(c07_t_lemma_int_nint, int_small(), nint::<1>(), [Less, Equal, Greater]);
lemma!(c07_t_lemma_uint_int, uint::<1>(), int_small(), [Less, Equal, Greater]);
lemma!(c07_q_lemma_uint_uint, uint::<1>(), uint::<1>(), [Less, Equal, Greater]);
lemma!(c07_q_lemma_uint_nint, uint::<1>(), nint::<1>(), [Equal, Greater]);
lemma!(c07_t_lemma_nint_int, nint::<1>(), int_small(), [Less, Equal, Greater]);
lemma!(c07_q_lemma_nint_uint, nint::<1>(), uint::<1>(), [Less, Equal]);
lemma!(c07_q_lemma_nint_nint, nint::<1>(), nint::<1>(), [Less, Equal, Greater]);
// bound: byte payloads of concrete lengths 0 and 2 (symbolic content incl. leading zeros) against each other and against a small Int; unwind 19
lemma!(c07_q_lemma_uint0_nint0, uint::<0>(), nint::<0>(), [Equal]);
lemma!(c07_t_lemma_nint0_int, nint::<0>(), int_small(), [Less, Equal, Greater]);
lemma!(c07_t_lemma_int_uint0, int_small(), uint::<0>(), [Less, Equal, Greater]);
lemma!(c07_t_lemma_uint2_uint1, uint::<2>(), uint::<1>(), [Less, Equal, Greater]);
lemma!(c07_t_lemma_nint2_nint1, nint::<2>(), nint::<1>(), [Less, Equal, Greater]);
lemma!(c07_x_lemma_uint2_int, uint::<2>(), int_small(), [Less, Equal, Greater]);
lemma!(c07_x_lemma_int_nint2, int_small(), nint::<2>(), [Less, Equal, Greater]);
lemma!(c07_x_lemma_nint2_uint2, nint::<2>(), uint::<2>(), [Less, Equal]);
// bound: Int over the full i64 range / the two 65-bit edge bands (-2^64..=-2^64+255, 2^64-256..=2^64-1); byte payloads 1 or 2 symbolic bytes; unwind 19
lemma!(c07_x_lemma_i64_i64, int_i64(), int_i64(), [Less, Equal, Greater]);
lemma!(c07_t_lemma_i64_uint1, int_i64(), uint::<1>(), [Less, Equal, Greater]);
lemma!(c07_t_lemma_nint1_i64, nint::<1>(), int_i64(), [Less, Equal, Greater]);
lemma!(c07_t_lemma_edge_edge, int_edge(), int_edge(), [Less, Equal, Greater]);
lemma!(c07_x_lemma_edge_i64, int_edge(), int_i64(), [Less, Greater]);
lemma!(c07_x_lemma_edge_uint2, int_edge(), uint::<2>(), [Less, Greater]);
lemma!(c07_x_lemma_nint2_edge, nint::<2>(), int_edge(), [Less, Greater]);
lemma!(c07_x_lemma_uint2_uint2, uint::<2>(), uint::<2>(), [Less, Equal, Greater]);
lemma!(c07_x_lemma_nint2_nint2, nint::<2>(), nint::<2>(), [Less, Equal, Greater]);

// ---------------------------------------------------------------------------------------------
// Constr<u8>: cmp is lexicographic on (constructor index, fields)
// ---------------------------------------------------------------------------------------------
fn valid_tag(t: u64) -> bool {
    (t >= 121 && t <= 127) || (t >= 1280 && t <= 1400) || t == 102
}
fn idx(t: u64, anyc: u64) -> u64 {
    if t >= 121 && t <= 127 {
        t - 121
    } else if t >= 1280 && t <= 1400 {
        t - 1280 + 7
    } else {
        anyc
    }
}
fn fields<const N: usize>(indef: bool) -> (MaybeIndefArray<u8>, [u8; N]) {
    let b: [u8; N] = kani::any();
    let v = b.to_vec();
    (if indef { MaybeIndefArray::Indef(v) } else { MaybeIndefArray::Def(v) }, b)
}
fn lex<const A: usize, const B: usize>(a: &[u8; A], b: &[u8; B]) -> Ordering {
    let mut i = 0;
    while i < A && i < B {
        if a[i] != b[i] {
            return a[i].cmp(&b[i]);
        }
        i += 1;
    }
    A.cmp(&B)
}

macro_rules! constr_cmp {
    ($name:ident, $la:expr, $ia:expr, $lb:expr, $ib:expr) => {
        #[kani::proof]
        #[kani::unwind(5)]
        #[kani::stub(std::fmt::format, crate::stubs::fmt_format_stub)]
        fn $name() {
            let (ta, tb): (u64, u64) = (kani::any(), kani::any());
            let (ca, cb): (u64, u64) = (kani::any(), kani::any());
            kani::assume(valid_tag(ta) && valid_tag(tb));
            let (fa, ba) = fields::<$la>($ia);
            let (fb, bb) = fields::<$lb>($ib);
            let a = Constr { tag: ta, any_constructor: Some(ca), fields: fa };
            let b = Constr { tag: tb, any_constructor: Some(cb), fields: fb };
            let got = a.cmp(&b);
            let want = match idx(ta, ca).cmp(&idx(tb, cb)) {
                Ordering::Equal => lex(&ba, &bb),
                o => o,
            };
            assert!(got == want, "Constr::cmp is lexicographic on (constructor index, fields)");
            assert!((a == b) == (want == Ordering::Equal), "Constr equality agrees with cmp and ignores Def/Indef and the tag encoding");
            kani::cover!(ta == 102 && tb == 1400 && idx(ta, ca) == idx(tb, cb), "general form 102 names the same constructor as a compact tag");
            kani::cover!(ta == 127 && tb == 1280 && got == Ordering::Less, "121..127 range sorts before 1280..1400");
            kani::cover!(($la == 0 && $lb == 0) || (idx(ta, ca) == idx(tb, cb) && got != Ordering::Equal), "same constructor, fields decide (not applicable when both field lists are empty)");
            core::mem::forget(a);
            core::mem::forget(b);
        }
    };
}
// bound: tags symbolic over the three valid ranges (121..=127, 1280..=1400, 102 with symbolic any_constructor), fields of concrete length 0..=2 with symbolic u8 content, Def/Indef concrete per harness; unwind 5
constr_cmp!(c07_q_constr_cmp_2def_2indef, 2, false, 2, true);
constr_cmp!(c07_q_constr_cmp_1_2, 1, false, 2, false);
constr_cmp!(c07_t_constr_cmp_2_1, 2, true, 1, false);
constr_cmp!(c07_t_constr_cmp_0_1, 0, false, 1, true);
constr_cmp!(c07_t_constr_cmp_0_0, 0, true, 0, false);

// ---------------------------------------------------------------------------------------------
// PlutusData: variant rank Constr < Map < Array < BigInt < BoundedBytes, Def/Indef-insensitive equality
// ---------------------------------------------------------------------------------------------
fn pd(variant: u8, indef: bool) -> PlutusData {
    match variant {
        0 => PlutusData::Constr(Constr { tag: 121, any_constructor: None, fields: if indef { MaybeIndefArray::Indef(vec![]) } else { MaybeIndefArray::Def(vec![]) } }),
        1 => PlutusData::Map(if indef { KeyValuePairs::Indef(vec![]) } else { KeyValuePairs::Def(vec![]) }),
        2 => PlutusData::Array(if indef { MaybeIndefArray::Indef(vec![]) } else { MaybeIndefArray::Def(vec![]) }),
        3 => PlutusData::BigInt(uint::<1>()),
        _ => PlutusData::BoundedBytes(bytes::<1>()),
    }
}

fn leaf(b: u8) -> PlutusData {
    PlutusData::BoundedBytes(BoundedBytes::from(vec![b]))
}

// ---------------------------------------------------------------------------------------------
// round trips
// ---------------------------------------------------------------------------------------------
fn enc<T: minicbor::Encode<()>, const N: usize>(v: &T, buf: &mut [u8; N]) -> usize {
    let mut w: &mut [u8] = &mut buf[..];
    let r = minicbor::encode(v, &mut w);
    assert!(r.is_ok(), "value fits the buffer");
    core::mem::forget(r);
    N - w.len()
}

macro_rules! bb_roundtrip {
    ($name:ident, $n:expr, $buf:expr) => {
        #[kani::proof]
        #[kani::unwind(6)]
        #[kani::stub(std::fmt::format, crate::stubs::fmt_format_stub)]
        fn $name() {
            const N: usize = $n;
            let b: [u8; N] = kani::any();
            let v = BoundedBytes::from(b.to_vec());
            let mut buf = [0u8; $buf];
            let n = enc(&v, &mut buf);
            if N <= 64 {
                assert!(buf[0] != 0x5f, "up to 64 bytes: one definite byte string");
            } else {
                assert!(buf[0] == 0x5f && buf[1] == 0x58 && buf[2] == 0x40 && buf[n - 1] == 0xff, "longer: indefinite string of 64-byte chunks (Haskell encoding)");
                assert!(n == 1 + N + 2 * ((N + 63) / 64) + 1 - if N % 64 != 0 && N % 64 < 24 { 1 } else { 0 }, "chunk headers account for every byte");
            }
            let r = minicbor::decode::<BoundedBytes>(&buf[..n]);
            match &r {
                Ok(d) => {
                    assert!(d.len() == N, "decoded length equals the original length");
                    if N > 0 {
                        let i: usize = kani::any();
                        kani::assume(i < N);
                        assert!(d[i] == b[i], "every decoded byte equals the original byte");
                    }
                }
                Err(_) => assert!(false, "own encoding decodes"),
            }
            kani::cover!(r.is_ok(), "round trip");
            core::mem::forget((v, r));
        }
    };
}
// bound: byte strings of concrete length N at the 64-byte chunk boundary with symbolic content; comparison at a symbolic index (no loop); unwind 6
bb_roundtrip!(c07_q_bytes_rt_0, 0, 8);
bb_roundtrip!(c07_q_bytes_rt_1, 1, 8);
bb_roundtrip!(c07_t_bytes_rt_64, 64, 72);
bb_roundtrip!(c07_t_bytes_rt_65, 65, 80);
bb_roundtrip!(c07_t_bytes_rt_63, 63, 72);
bb_roundtrip!(c07_t_bytes_rt_128, 128, 140);
bb_roundtrip!(c07_t_bytes_rt_129, 129, 144);

macro_rules! indef_split {
    ($name:ident, $s:expr) => {
        #[kani::proof]
        #[kani::unwind(9)]
        #[kani::stub(std::fmt::format, crate::stubs::fmt_format_stub)]
        fn $name() {
            const S: usize = $s;
            let b: [u8; 6] = kani::any();
            // 5f (40+S) b[..S] (40+6-S) b[S..] ff
            let mut buf = [0u8; 10];
            buf[0] = 0x5f;
            buf[1] = 0x40 + S as u8;
            let mut i = 0;
            while i < S {
                buf[2 + i] = b[i];
                i += 1;
            }
            buf[2 + S] = 0x40 + (6 - S) as u8;
            while i < 6 {
                buf[3 + i] = b[i];
                i += 1;
            }
            buf[9] = 0xff;
            let r = minicbor::decode::<PlutusData>(&buf[..]);
            match &r {
                Ok(PlutusData::BoundedBytes(d)) => {
                    assert!(d.len() == 6, "chunks are re-assembled");
                    let j: usize = kani::any();
                    kani::assume(j < 6);
                    assert!(d[j] == b[j], "re-assembled bytes do not depend on the chunk split");
                }
                _ => assert!(false, "indefinite byte string decodes as BoundedBytes"),
            }
            kani::cover!(r.is_ok(), "decoded");
            core::mem::forget(r);
        }
    };
}
// bound: hand-laid indefinite byte string of 6 symbolic bytes split into two chunks at a concrete point S; unwind 9
indef_split!(c07_q_indef_split_0, 0);
indef_split!(c07_q_indef_split_3, 3);
indef_split!(c07_t_indef_split_1, 1);
indef_split!(c07_t_indef_split_6, 6);

macro_rules! bigint_bytes_rt {
    ($name:ident, $n:expr, $neg:expr) => {
        #[kani::proof]
        #[kani::unwind(6)]
        #[kani::stub(std::fmt::format, crate::stubs::fmt_format_stub)]
        fn $name() {
            const N: usize = $n;
            let b: [u8; N] = kani::any();
            let v = if $neg { BigInt::BigNInt(BoundedBytes::from(b.to_vec())) } else { BigInt::BigUInt(BoundedBytes::from(b.to_vec())) };
            let mut buf = [0u8; 16];
            let n = enc(&v, &mut buf);
            assert!(buf[0] == if $neg { 0xc3 } else { 0xc2 }, "bignum tag 2 / 3");
            let r = minicbor::decode::<BigInt>(&buf[..n]);
            match &r {
                Ok(BigInt::BigUInt(d)) => {
                    assert!(!$neg && d.len() == N, "BigUInt keeps its representation");
                    if N > 0 { let i: usize = kani::any(); kani::assume(i < N); assert!(d[i] == b[i], "payload bytes kept (leading zeros included)"); }
                }
                Ok(BigInt::BigNInt(d)) => {
                    assert!($neg && d.len() == N, "BigNInt keeps its representation");
                    if N > 0 { let i: usize = kani::any(); kani::assume(i < N); assert!(d[i] == b[i], "payload bytes kept (leading zeros included)"); }
                }
                _ => assert!(false, "bignum decodes as a bignum"),
            }
            kani::cover!(r.is_ok(), "round trip");
            core::mem::forget(r);
        }
    };
}
// bound: BigUInt / BigNInt with payloads of concrete length 0, 1, 9 and symbolic content (BigInt codec); unwind 6
bigint_bytes_rt!(c07_t_bigint_rt_uint9, 9, false);
bigint_bytes_rt!(c07_q_bigint_rt_nint1, 1, true);
bigint_bytes_rt!(c07_t_bigint_rt_uint0, 0, false);
bigint_bytes_rt!(c07_t_bigint_rt_nint9, 9, true);

macro_rules! int_rt {
    ($name:ident, $lo:expr, $hi:expr) => {
        #[kani::proof]
        #[kani::unwind(6)]
        #[kani::stub(std::fmt::format, crate::stubs::fmt_format_stub)]
        fn $name() {
            let m: u64 = kani::any();
            kani::assume(m >= $lo && m <= $hi);
            let neg: bool = kani::any();
            let val: i128 = if neg { -1 - m as i128 } else { m as i128 };
            let v = int_of(val);
            let mut buf = [0u8; 16];
            let n = enc(&v, &mut buf);
            let r = minicbor::decode::<BigInt>(&buf[..n]);
            match &r {
                Ok(BigInt::Int(i)) => assert!(i128::from(*i) == val, "Int round-trips"),
                _ => assert!(false, "an integer decodes as BigInt::Int"),
            }
            kani::cover!(neg && m == $hi, "most negative of the class");
            kani::cover!(!neg && m == $lo, "least positive of the class");
            core::mem::forget((v, r));
        }
    };
}
// bound: BigInt::Int over the whole CBOR integer range -2^64..2^64-1, one harness per head class (argument 0..=23, 1, 2, 4, 8 bytes), sign symbolic; unwind 6
int_rt!(c07_x_int_rt_tiny, 0u64, 23u64);
int_rt!(c07_x_int_rt_u8, 24u64, 0xffu64);
int_rt!(c07_x_int_rt_u16, 0x100u64, 0xffffu64);
int_rt!(c07_x_int_rt_u32, 0x1_0000u64, 0xffff_ffffu64);
int_rt!(c07_x_int_rt_u64, 0x1_0000_0000u64, u64::MAX);

/// vacuity twin: must come back FAILED
#[kani::proof]
#[kani::unwind(19)]
#[kani::stub(std::fmt::format, crate::stubs::fmt_format_stub)]
fn c07_v_twin() {
    let a = uint::<1>();
    let b = nint::<1>();
    assert!(a.cmp(&b) == Ordering::Greater, "twin: must fail");
    core::mem::forget((a, b));
}

macro_rules! rank_pair {
    ($name:ident, $va:expr, $vb:expr) => {
        #[kani::proof]
        #[kani::unwind(19)]
        #[kani::stub(std::fmt::format, crate::stubs::fmt_format_stub)]
        fn $name() {
            let a = pd($va, false);
            let b = pd($vb, true);
            let got = a.cmp(&b);
            assert!(got == ($va as u8).cmp(&($vb as u8)), "different variants compare by rank Constr < Map < Array < BigInt < BoundedBytes");
            let back = b.cmp(&a);
            assert!(back == got.reverse(), "swapping the operands reverses the result");
            kani::cover!(true, "reached");
            core::mem::forget((a, b));
        }
    };
}
// bound: one ordered pair of different variants per harness: Constr(121, no fields), empty Map, empty Array, BigUInt(1 symbolic byte), BoundedBytes(1 symbolic byte); unwind 19
rank_pair!(c07_q_rank_constr_map, 0, 1);
rank_pair!(c07_q_rank_map_array, 1, 2);
rank_pair!(c07_q_rank_array_bigint, 2, 3);
rank_pair!(c07_q_rank_bigint_bytes, 3, 4);
rank_pair!(c07_t_rank_constr_bytes, 0, 4);
rank_pair!(c07_t_rank_map_bigint, 1, 3);

