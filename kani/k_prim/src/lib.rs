#![allow(unused)]
//! Kani harnesses over pallas-primitives (C04 embedded part, C06, C07, C08).
#[cfg(kani)]
mod stubs;
#[cfg(kani)]
mod c07;
#[cfg(kani)]
mod c06;
#[cfg(kani)]
mod c08;
#[cfg(kani)]
mod c04;
