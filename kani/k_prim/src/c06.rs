//! C06 (value round-trip part only): decode(encode(v)) == v for small era values, symbolic scalars, concrete shapes.
//! fn: Encode/Decode impls of pallas_primitives::{RationalNumber, ExUnits, TransactionInput, StakeCredential, Nonce, Metadatum}, conway::{DRep, Voter, GovActionId, Vote}, byron::Twit
//! stub: std::fmt::format -> empty String
//! stub: minicbor::encode::Error::write -> Error::message("") (drops the writer error; Kani ICEs on the generic original)
//! outside: quick tier holds only the hash/flag-carrying types; every harness with a symbolic integer (RationalNumber, ExUnits, TransactionInput, GovActionId, Metadatum::Int) is thorough tier because minicbor's integer encoder branches five ways on the value (rational_8_8: 113 s, the others: no verdict in 150 s under load)
//! outside: byte-isomorphism on the 1777 corpus blocks (replaying fixed artefacts is not a solver question), whole Block/Tx values, anything holding a multi-entry map, Relay / Anchor / Certificate / byron types other than Twit / Metadatum Text (String: std UTF-8 validation gives no verdict), Metadatum Array/Map
use pallas_codec::minicbor;
use pallas_codec::utils::Int;
use pallas_crypto::hash::Hash;
use pallas_primitives::byron::Twit;
use pallas_primitives::conway::{DRep, GovActionId, Vote, Voter};
use pallas_primitives::{ExUnits, Metadatum, Nonce, NonceVariant, RationalNumber, StakeCredential, TransactionInput};

fn enc<T: minicbor::Encode<()>, const N: usize>(v: &T, buf: &mut [u8; N]) -> usize {
    let mut w: &mut [u8] = &mut buf[..];
    let r = minicbor::encode(v, &mut w);
    assert!(r.is_ok(), "value fits the buffer");
    core::mem::forget(r);
    N - w.len()
}

/// u64 in one CBOR head class (argument inline / 1 / 2 / 4 / 8 bytes), class concrete
fn u64_in(class: u8) -> u64 {
    let v: u64 = kani::any();
    match class {
        0 => kani::assume(v <= 23),
        1 => kani::assume(v >= 24 && v <= 0xff),
        2 => kani::assume(v >= 0x100 && v <= 0xffff),
        4 => kani::assume(v >= 0x1_0000 && v <= 0xffff_ffff),
        _ => kani::assume(v >= 0x1_0000_0000),
    }
    v
}

macro_rules! rt {
    ($name:ident, $t:ty, $buf:expr, $mk:expr, |$a:ident, $b:ident| $eq:expr) => {
        #[kani::proof]
        #[kani::unwind(6)]
        #[kani::stub(std::fmt::format, crate::stubs::fmt_format_stub)]
        #[kani::stub(pallas_codec::minicbor::encode::Error::write, crate::stubs::mcb_write_err_stub)]
        fn $name() {
            let v: $t = $mk;
            let mut buf = [0u8; $buf];
            let n = enc(&v, &mut buf);
            let r = minicbor::decode::<$t>(&buf[..n]);
            match &r {
                Ok(d) => {
                    let ($a, $b) = (&v, d);
                    assert!($eq, "decode(encode(v)) == v, field-wise");
                }
                Err(_) => assert!(false, "own encoding decodes"),
            }
            kani::cover!(r.is_ok(), "round trip");
            core::mem::forget((v, r));
        }
    };
}

fn hash_eq<const N: usize>(a: &Hash<N>, b: &Hash<N>) -> bool {
    let i: usize = kani::any();
    kani::assume(i < N);
    a.as_ref()[i] == b.as_ref()[i]
}
fn any_hash<const N: usize>() -> Hash<N> {
    let b: [u8; N] = kani::any();
    Hash::new(b)
}

// bound: both u64 fields symbolic inside a concrete CBOR head class (classes 8x8, 0x1, 2x4); unwind 6
rt!(c06_t_rational_8_8, RationalNumber, 24, RationalNumber { numerator: u64_in(8), denominator: u64_in(8) }, |a, b| a.numerator == b.numerator && a.denominator == b.denominator);
rt!(c06_t_rational_0_1, RationalNumber, 24, RationalNumber { numerator: u64_in(0), denominator: u64_in(1) }, |a, b| a.numerator == b.numerator && a.denominator == b.denominator);
rt!(c06_t_rational_2_4, RationalNumber, 24, RationalNumber { numerator: u64_in(2), denominator: u64_in(4) }, |a, b| a.numerator == b.numerator && a.denominator == b.denominator);
rt!(c06_x_exunits_8_4, ExUnits, 24, ExUnits { mem: u64_in(8), steps: u64_in(4) }, |a, b| a.mem == b.mem && a.steps == b.steps);
rt!(c06_x_exunits_0_2, ExUnits, 24, ExUnits { mem: u64_in(0), steps: u64_in(2) }, |a, b| a.mem == b.mem && a.steps == b.steps);
// bound: 32-byte hash symbolic (compared at a symbolic index), index symbolic in a concrete head class; unwind 6
rt!(c06_x_txin_2, TransactionInput, 48, TransactionInput { transaction_id: any_hash(), index: u64_in(2) }, |a, b| a.index == b.index && hash_eq(&a.transaction_id, &b.transaction_id));
rt!(c06_x_txin_8, TransactionInput, 48, TransactionInput { transaction_id: any_hash(), index: u64_in(8) }, |a, b| a.index == b.index && hash_eq(&a.transaction_id, &b.transaction_id));
// bound: variant concrete, 28-byte hash symbolic; unwind 6
rt!(c06_q_stakecred_key, StakeCredential, 40, StakeCredential::AddrKeyhash(any_hash()), |a, b| matches!((a, b), (StakeCredential::AddrKeyhash(x), StakeCredential::AddrKeyhash(y)) if hash_eq(x, y)));
rt!(c06_q_stakecred_script, StakeCredential, 40, StakeCredential::ScriptHash(any_hash()), |a, b| matches!((a, b), (StakeCredential::ScriptHash(x), StakeCredential::ScriptHash(y)) if hash_eq(x, y)));
rt!(c06_q_nonce_hash, Nonce, 48, Nonce { variant: NonceVariant::Nonce, hash: Some(any_hash()) }, |a, b| matches!(b.variant, NonceVariant::Nonce) && matches!((&a.hash, &b.hash), (Some(x), Some(y)) if hash_eq(x, y)));
rt!(c06_q_nonce_neutral, Nonce, 48, Nonce { variant: NonceVariant::NeutralNonce, hash: None }, |a, b| matches!(b.variant, NonceVariant::NeutralNonce) && b.hash.is_none());
rt!(c06_q_drep_key, DRep, 40, DRep::Key(any_hash()), |a, b| matches!((a, b), (DRep::Key(x), DRep::Key(y)) if hash_eq(x, y)));
rt!(c06_t_drep_script, DRep, 40, DRep::Script(any_hash()), |a, b| matches!((a, b), (DRep::Script(x), DRep::Script(y)) if hash_eq(x, y)));
rt!(c06_q_drep_abstain, DRep, 40, DRep::Abstain, |a, b| matches!(b, DRep::Abstain));
rt!(c06_t_drep_noconf, DRep, 40, DRep::NoConfidence, |a, b| matches!(b, DRep::NoConfidence));
rt!(c06_q_voter_cc_script, Voter, 40, Voter::ConstitutionalCommitteeScript(any_hash()), |a, b| matches!((a, b), (Voter::ConstitutionalCommitteeScript(x), Voter::ConstitutionalCommitteeScript(y)) if hash_eq(x, y)));
rt!(c06_t_voter_cc_key, Voter, 40, Voter::ConstitutionalCommitteeKey(any_hash()), |a, b| matches!((a, b), (Voter::ConstitutionalCommitteeKey(x), Voter::ConstitutionalCommitteeKey(y)) if hash_eq(x, y)));
rt!(c06_t_voter_drep_script, Voter, 40, Voter::DRepScript(any_hash()), |a, b| matches!((a, b), (Voter::DRepScript(x), Voter::DRepScript(y)) if hash_eq(x, y)));
rt!(c06_t_voter_drep_key, Voter, 40, Voter::DRepKey(any_hash()), |a, b| matches!((a, b), (Voter::DRepKey(x), Voter::DRepKey(y)) if hash_eq(x, y)));
rt!(c06_q_voter_pool, Voter, 40, Voter::StakePoolKey(any_hash()), |a, b| matches!((a, b), (Voter::StakePoolKey(x), Voter::StakePoolKey(y)) if hash_eq(x, y)));
rt!(c06_x_govactionid, GovActionId, 48, GovActionId { transaction_id: any_hash(), action_index: u64_in(4) as u32 }, |a, b| a.action_index == b.action_index && hash_eq(&a.transaction_id, &b.transaction_id));
rt!(c06_q_vote, Vote, 8, { let k: u8 = kani::any(); match k { 0 => Vote::No, 1 => Vote::Yes, _ => Vote::Abstain } }, |a, b| a == b);

fn int_in(class: u8) -> (Int, i128) {
    let m = u64_in(class);
    let neg: bool = kani::any();
    let v: i128 = if neg { -1 - m as i128 } else { m as i128 };
    (Int::try_from(v).unwrap(), v)
}
// bound: Metadatum::Int over the whole CBOR integer range -2^64..2^64-1, one harness per head class, sign symbolic; unwind 6
rt!(c06_x_metadatum_int_0, Metadatum, 16, Metadatum::Int(int_in(0).0), |a, b| matches!((a, b), (Metadatum::Int(x), Metadatum::Int(y)) if i128::from(*x) == i128::from(*y)));
rt!(c06_x_metadatum_int_1, Metadatum, 16, Metadatum::Int(int_in(1).0), |a, b| matches!((a, b), (Metadatum::Int(x), Metadatum::Int(y)) if i128::from(*x) == i128::from(*y)));
rt!(c06_x_metadatum_int_2, Metadatum, 16, Metadatum::Int(int_in(2).0), |a, b| matches!((a, b), (Metadatum::Int(x), Metadatum::Int(y)) if i128::from(*x) == i128::from(*y)));
rt!(c06_x_metadatum_int_4, Metadatum, 16, Metadatum::Int(int_in(4).0), |a, b| matches!((a, b), (Metadatum::Int(x), Metadatum::Int(y)) if i128::from(*x) == i128::from(*y)));
rt!(c06_x_metadatum_int_8, Metadatum, 16, Metadatum::Int(int_in(8).0), |a, b| matches!((a, b), (Metadatum::Int(x), Metadatum::Int(y)) if i128::from(*x) == i128::from(*y)));
// bound: Metadatum::Bytes of 3 symbolic bytes; unwind 6
rt!(c06_q_metadatum_bytes3, Metadatum, 16, { let b: [u8; 3] = kani::any(); Metadatum::Bytes(b.to_vec().into()) }, |a, b| matches!((a, b), (Metadatum::Bytes(x), Metadatum::Bytes(y)) if x.len() == 3 && y.len() == 3 && x[0] == y[0] && x[1] == y[1] && x[2] == y[2]));

// bound: byron Twit PkWitness / RedeemWitness (variant concrete per harness), key and signature of 1 symbolic byte each; unwind 6 (ScriptWitness: no verdict in 300 s, kept as _x_)
fn bv1() -> minicbor::bytes::ByteVec {
    let b: [u8; 1] = kani::any();
    b.to_vec().into()
}
fn bv1_eq(a: &minicbor::bytes::ByteVec, b: &minicbor::bytes::ByteVec) -> bool {
    a.len() == 1 && b.len() == 1 && a[0] == b[0]
}
rt!(c06_q_byron_twit_pk, Twit, 24, Twit::PkWitness(pallas_codec::utils::CborWrap((bv1(), bv1()))), |a, b| matches!((a, b), (Twit::PkWitness(x), Twit::PkWitness(y)) if bv1_eq(&x.0 .0, &y.0 .0) && bv1_eq(&x.0 .1, &y.0 .1)));
rt!(c06_q_byron_twit_redeem, Twit, 24, Twit::RedeemWitness(pallas_codec::utils::CborWrap((bv1(), bv1()))), |a, b| matches!((a, b), (Twit::RedeemWitness(x), Twit::RedeemWitness(y)) if bv1_eq(&x.0 .0, &y.0 .0) && bv1_eq(&x.0 .1, &y.0 .1)));
rt!(c06_x_byron_twit_script, Twit, 32, Twit::ScriptWitness(pallas_codec::utils::CborWrap(((kani::any::<u8>() as u16, bv1()), (kani::any::<u8>() as u16, bv1())))), |a, b| matches!((a, b), (Twit::ScriptWitness(x), Twit::ScriptWitness(y)) if x.0 .0 .0 == y.0 .0 .0 && x.0 .1 .0 == y.0 .1 .0 && bv1_eq(&x.0 .0 .1, &y.0 .0 .1) && bv1_eq(&x.0 .1 .1, &y.0 .1 .1)));

/// vacuity twin: must come back FAILED
#[kani::proof]
#[kani::unwind(6)]
#[kani::stub(std::fmt::format, crate::stubs::fmt_format_stub)]
fn c06_v_twin() {
    let v = StakeCredential::AddrKeyhash(any_hash());
    let mut buf = [0u8; 40];
    let n = enc(&v, &mut buf);
    let r = minicbor::decode::<StakeCredential>(&buf[..n]);
    assert!(matches!(&r, Ok(StakeCredential::ScriptHash(_))), "twin: must fail");
    core::mem::forget((v, r));
}
