//! C04 (embedded part): a conway Value / Mint decoded from bytes never holds a zero amount.
//! fn: minicbor::decode::<pallas_primitives::conway::Value>, minicbor::decode::<pallas_primitives::conway::Mint> (BTreeMap<PolicyId, BTreeMap<AssetName, PositiveCoin | NonZeroInt>>)
//! stub: std::fmt::format -> empty String
//! outside: more than one policy / asset (multi-entry BTreeMap), the donation field inside a whole TransactionBody (not attempted: the body decoder is far beyond the 10-minute cap), indefinite-length maps
use pallas_codec::minicbor;
use pallas_primitives::conway::{Mint, Value};

/// [coin=0, {h'11'*28: {h'61': <amount: 9 symbolic bytes>}}]
fn value_buf(amt: [u8; 9]) -> [u8; 45] {
    let mut b = [0x11u8; 45];
    b[0] = 0x82;
    b[1] = 0x00;
    b[2] = 0xa1;
    b[3] = 0x58;
    b[4] = 0x1c;
    b[33] = 0xa1;
    b[34] = 0x41;
    b[35] = 0x61;
    let mut i = 0;
    while i < 9 {
        b[36 + i] = amt[i];
        i += 1;
    }
    b
}

/// the CBOR encodings of unsigned zero (head 00, 18 00, 19 0000, 1a 00000000, 1b 00..00)
fn is_zero_uint(a: &[u8; 9]) -> bool {
    match a[0] {
        0x00 => true,
        0x18 => a[1] == 0,
        0x19 => a[1] == 0 && a[2] == 0,
        0x1a => a[1] == 0 && a[2] == 0 && a[3] == 0 && a[4] == 0,
        0x1b => a[1] == 0 && a[2] == 0 && a[3] == 0 && a[4] == 0 && a[5] == 0 && a[6] == 0 && a[7] == 0 && a[8] == 0,
        _ => false,
    }
}

fn check_value(amt: [u8; 9]) {
    let buf = value_buf(amt);
    let r = minicbor::decode::<Value>(&buf[..]);
    match &r {
        Ok(Value::Multiasset(_, ma)) => {
            assert!(ma.len() == 1, "one policy");
            let assets = ma.values().next().unwrap();
            assert!(assets.len() == 1, "one asset");
            let q = assets.values().next().unwrap();
            assert!(u64::from(*q) != 0, "a decoded Value never holds a zero asset amount");
            kani::cover!(u64::from(*q) == u64::MAX, "largest amount decodes");
        }
        Ok(Value::Coin(_)) => assert!(false, "an array decodes as Multiasset"),
        Err(_) => {}
    }
    kani::cover!(r.is_err(), "a malformed amount is rejected");
    core::mem::forget(r);
}

/// FINDING harness (kept as is): amount bytes that encode zero must be rejected
/// bound: amount = one of the five CBOR encodings of 0 (symbolic choice via 9 symbolic bytes constrained to a zero encoding); one concrete policy and asset name; unwind 12
#[kani::proof]
#[kani::unwind(12)]
#[kani::stub(std::fmt::format, crate::stubs::fmt_format_stub)]
fn c04_q_value_zero_amount() {
    let amt: [u8; 9] = kani::any();
    kani::assume(is_zero_uint(&amt));
    check_value(amt);
}

/// general: every other amount encoding
/// assume: the amount bytes are not an encoding of unsigned zero (excluded case: c04_q_value_zero_amount)
/// bound: amount = 9 arbitrary bytes (any head, any argument width, malformed included); one concrete policy (28 bytes) and asset name (1 byte), single-entry maps; unwind 12
#[kani::proof]
#[kani::unwind(12)]
#[kani::stub(std::fmt::format, crate::stubs::fmt_format_stub)]
fn c04_q_value_amount() {
    let amt: [u8; 9] = kani::any();
    kani::assume(!is_zero_uint(&amt));
    check_value(amt);
}

/// Mint: {h'11'*28: {h'61': <amount>}} with NonZeroInt amounts (positive and negative)
/// bound: amount = 9 arbitrary bytes; one concrete policy and asset name; unwind 12
#[kani::proof]
#[kani::unwind(12)]
#[kani::stub(std::fmt::format, crate::stubs::fmt_format_stub)]
fn c04_q_mint_amount() {
    let amt: [u8; 9] = kani::any();
    let mut buf = [0x11u8; 43];
    buf[0] = 0xa1;
    buf[1] = 0x58;
    buf[2] = 0x1c;
    buf[31] = 0xa1;
    buf[32] = 0x41;
    buf[33] = 0x61;
    let mut i = 0;
    while i < 9 {
        buf[34 + i] = amt[i];
        i += 1;
    }
    let r = minicbor::decode::<Mint>(&buf[..]);
    match &r {
        Ok(ma) => {
            assert!(ma.len() == 1, "one policy");
            let assets = ma.values().next().unwrap();
            let q = assets.values().next().unwrap();
            assert!(i64::from(*q) != 0, "a decoded Mint never holds a zero amount");
            kani::cover!(i64::from(*q) < 0, "burn");
            kani::cover!(i64::from(*q) > 0, "mint");
        }
        Err(_) => {}
    }
    kani::cover!(r.is_err() && amt[0] == 0, "zero is rejected");
    core::mem::forget(r);
}
