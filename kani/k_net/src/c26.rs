//! C26: chainsync RollbackBuffer vs a fixed-array list model.
//! fn: pallas_network::miniprotocols::chainsync::RollbackBuffer::{new,roll_forward,roll_back,pop_with_depth,position,peek,size,latest,oldest}
//! outside: histories longer than (<= 3 roll_forward, then one operation); the property speaks of sequences up to 200 operations. Every operation is checked from every buffer content reachable with <= 3 points over the alphabet, incl. duplicates and misses; longer histories follow only if buffer behaviour depends on nothing but its content (VecDeque ring-buffer wrap-around / regrowth beyond 4 elements is not exercised)
//! outside: points other than the 3-point alphabet {Origin, Specific(7,[1]), Specific(7,[2])} (same slot, different hash: equality must look at the hash)
//! assume: with duplicate points in the buffer, roll_back may cut after any occurrence of the point (the property only speaks of "a buffered point"); the model accepts every occurrence
use pallas_network::miniprotocols::chainsync::{RollbackBuffer, RollbackEffect};
use pallas_network::miniprotocols::Point;

const MAXN: usize = 4;

fn mk(i: u8) -> Point {
    match i {
        0 => Point::Origin,
        1 => Point::Specific(7, vec![1u8]),
        _ => Point::Specific(7, vec![2u8]),
    }
}

/// alphabet index of a point (alphabet points only)
fn idx(p: &Point) -> u8 {
    match p {
        Point::Origin => 0,
        Point::Specific(_, h) => {
            if h.len() == 1 {
                h[0]
            } else {
                255
            }
        }
    }
}

fn any_sym() -> u8 {
    let i: u8 = kani::any();
    kani::assume(i < 3);
    i
}

/// list model: `m[..n]` oldest first
struct Model {
    m: [u8; MAXN],
    n: usize,
}

/// builds buffer and model by `n` roll_forward calls, n symbolic 0..=3, each point a symbolic alphabet choice
fn build(maxn: usize) -> (RollbackBuffer, Model) {
    let mut b = RollbackBuffer::new();
    let mut m = Model { m: [9; MAXN], n: 0 };
    let n: usize = kani::any();
    kani::assume(n <= maxn);
    let mut i = 0;
    while i < 3 {
        if i < n {
            let s = any_sym();
            b.roll_forward(mk(s));
            m.m[m.n] = s;
            m.n += 1;
        }
        i += 1;
    }
    (b, m)
}

/// buffer content == model content, through every observer of the public API
fn same(b: &RollbackBuffer, m: &Model) {
    assert!(b.size() == m.n, "size equals the model's length");
    let mut it = b.peek();
    let mut i = 0;
    while i < MAXN {
        if i < m.n {
            match it.next() {
                Some(p) => assert!(idx(p) == m.m[i], "i-th point (oldest first) equals the model's"),
                None => assert!(false, "iterator ends early"),
            }
        }
        i += 1;
    }
    assert!(it.next().is_none(), "iterator yields no extra point");
    match b.oldest() {
        Some(p) => assert!(m.n > 0 && idx(p) == m.m[0], "oldest() is the model's head"),
        None => assert!(m.n == 0, "oldest() is None only when empty"),
    }
    match b.latest() {
        Some(p) => assert!(m.n > 0 && idx(p) == m.m[m.n - 1], "latest() is the model's last"),
        None => assert!(m.n == 0, "latest() is None only when empty"),
    }
}

fn model_contains(m: &Model, s: u8) -> bool {
    let mut i = 0;
    let mut f = false;
    while i < MAXN {
        if i < m.n && m.m[i] == s {
            f = true;
        }
        i += 1;
    }
    f
}

/// roll_back(p) from every buffer of <= 3 points
/// bound: n in 0..=3 roll_forward of symbolic alphabet points, then roll_back(symbolic alphabet point); unwind 6
#[kani::proof]
#[kani::unwind(6)]
fn c26_q_roll_back() {
    let (mut b, mut m) = build(3);
    same(&b, &m);
    let s = any_sym();
    let p = mk(s);
    let before = Model { m: m.m, n: m.n };
    let r = b.roll_back(&p);
    let found = model_contains(&before, s);
    match r {
        RollbackEffect::Handled => {
            assert!(found, "Handled only for a buffered point");
            let k = b.size();
            assert!(k >= 1 && k <= before.n, "Handled keeps a non-empty prefix");
            assert!(before.m[k - 1] == s, "the kept prefix ends at the rollback point");
            m.n = k;
            same(&b, &m);
        }
        RollbackEffect::OutOfScope => {
            assert!(!found, "OutOfScope only for an unknown point");
            m.n = 0;
            same(&b, &m);
        }
    }
    kani::cover!(found && before.n == 3 && b.size() == 1, "rollback to the oldest of three");
    kani::cover!(found && before.n == 3 && b.size() == 3, "rollback to the newest of three");
    kani::cover!(!found && before.n == 3, "miss on a full buffer");
    kani::cover!(found && before.n == 3 && before.m[0] == before.m[2] && before.m[0] == s, "duplicate point rolled back to");
    core::mem::forget(b);
    core::mem::forget(p);
}

/// position(p) agrees with the model (first occurrence or None)
/// bound: n in 0..=3 roll_forward of symbolic alphabet points, then position(symbolic alphabet point); unwind 6
#[kani::proof]
#[kani::unwind(6)]
fn c26_q_position() {
    let (b, m) = build(3);
    let s = any_sym();
    let p = mk(s);
    let r = b.position(&p);
    match r {
        Some(k) => {
            assert!(k < m.n && m.m[k] == s, "position points at an occurrence");
            let mut i = 0;
            while i < MAXN {
                if i < k {
                    assert!(m.m[i] != s, "position is the first occurrence");
                }
                i += 1;
            }
        }
        None => assert!(!model_contains(&m, s), "None only for an unknown point"),
    }
    kani::cover!(r == Some(2), "found at the newest position");
    kani::cover!(r.is_none() && m.n == 3, "miss on a full buffer");
    core::mem::forget(b);
    core::mem::forget(p);
}

/// pop_with_depth(d): returns the oldest len-d points in order, keeps the d newest
/// bound: n in 0..=3 roll_forward of symbolic alphabet points, then pop_with_depth(d), d in 0..=4; unwind 6
#[kani::proof]
#[kani::unwind(6)]
fn c26_q_pop_with_depth() {
    let (mut b, m) = build(3);
    let d: usize = kani::any();
    kani::assume(d <= 4);
    let out = b.pop_with_depth(d);
    let ready = if m.n >= d { m.n - d } else { 0 };
    assert!(out.len() == ready, "exactly the points deeper than d are returned");
    let mut i = 0;
    while i < MAXN {
        if i < ready {
            assert!(idx(&out[i]) == m.m[i], "popped points are the oldest ones, in order");
        }
        i += 1;
    }
    let mut rest = Model { m: [9; MAXN], n: m.n - ready };
    let mut i = 0;
    while i < MAXN {
        if i < rest.n {
            rest.m[i] = m.m[ready + i];
        }
        i += 1;
    }
    same(&b, &rest);
    kani::cover!(m.n == 3 && d == 1 && out.len() == 2, "two of three popped");
    kani::cover!(m.n == 3 && d == 0 && out.len() == 3, "all popped");
    kani::cover!(m.n == 2 && d == 4 && out.len() == 0, "depth beyond the buffer pops nothing");
    core::mem::forget(out);
    core::mem::forget(b);
}

/// roll_forward appends at the back
/// bound: n in 0..=3 roll_forward of symbolic alphabet points, then one more roll_forward; unwind 6
#[kani::proof]
#[kani::unwind(6)]
fn c26_q_roll_forward() {
    let (mut b, mut m) = build(3);
    let s = any_sym();
    b.roll_forward(mk(s));
    m.m[m.n] = s;
    m.n += 1;
    same(&b, &m);
    kani::cover!(m.n == 4, "fourth point appended");
    kani::cover!(m.n == 1, "first point appended");
    core::mem::forget(b);
}

/// vacuity twin: must come back FAILED
#[kani::proof]
#[kani::unwind(6)]
fn c26_v_twin() {
    let (mut b, m) = build(3);
    let s = any_sym();
    let p = mk(s);
    let r = b.roll_back(&p);
    assert!(matches!(r, RollbackEffect::Handled), "twin: must fail");
    core::mem::forget(b);
    core::mem::forget(p);
}
