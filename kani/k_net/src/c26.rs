//! C26: chainsync RollbackBuffer vs a fixed-array list model.
//! fn: pallas_network::miniprotocols::chainsync::RollbackBuffer::{new,roll_forward,roll_back,pop_with_depth,position,peek,size,latest,oldest}
//! outside: histories longer than (<= 3 roll_forward, then one operation); the property speaks of sequences up to 200 operations. Every operation is checked from every buffer content reachable with <= 3 points over the alphabet, incl. duplicates and misses; longer histories follow only if buffer behaviour depends on nothing but its content (VecDeque ring-buffer wrap-around / regrowth beyond 4 elements is not exercised)
//! outside: points other than the 3-point alphabet {Origin, Specific(7,[1]), Specific(7,[2])} (same slot, different hash: equality must look at the hash)
//! assume: with duplicate points in the buffer, roll_back may cut after any occurrence of the point (the property only speaks of "a buffered point"); the model accepts every occurrence
use pallas_network::miniprotocols::chainsync::{RollbackBuffer, RollbackEffect};
use pallas_network::miniprotocols::Point;

const MAXN: usize = 4;

fn mk(i: u8) -> Point {
    match i {
        0 => Point::Origin,
        1 => Point::Specific(7, vec![1u8]),
        _ => Point::Specific(7, vec![2u8]),
    }
}

/// alphabet index of a point (alphabet points only)
fn idx(p: &Point) -> u8 {
    match p {
        Point::Origin => 0,
        Point::Specific(_, h) => {
            if h.len() == 1 {
                h[0]
            } else {
                255
            }
        }
    }
}

fn any_sym() -> u8 {
    let i: u8 = kani::any();
    kani::assume(i < 3);
    i
}

/// list model: `m[..n]` oldest first
struct Model {
    m: [u8; MAXN],
    n: usize,
}

/// builds buffer and model by `n` roll_forward calls (n concrete per harness: a symbolic number of push_back calls gave no
/// verdict in 400 s), each point a symbolic alphabet choice
fn build(n: usize) -> (RollbackBuffer, Model) {
    let mut b = RollbackBuffer::new();
    let mut m = Model { m: [9; MAXN], n: 0 };
    let mut i = 0;
    while i < n {
        let s = any_sym();
        b.roll_forward(mk(s));
        m.m[m.n] = s;
        m.n += 1;
        i += 1;
    }
    (b, m)
}

/// buffer content == model content, through every observer of the public API
fn same(b: &RollbackBuffer, m: &Model) {
    assert!(b.size() == m.n, "size equals the model's length");
    let mut it = b.peek();
    let mut i = 0;
    while i < MAXN {
        if i < m.n {
            match it.next() {
                Some(p) => assert!(idx(p) == m.m[i], "i-th point (oldest first) equals the model's"),
                None => assert!(false, "iterator ends early"),
            }
        }
        i += 1;
    }
    assert!(it.next().is_none(), "iterator yields no extra point");
    match b.oldest() {
        Some(p) => assert!(m.n > 0 && idx(p) == m.m[0], "oldest() is the model's head"),
        None => assert!(m.n == 0, "oldest() is None only when empty"),
    }
    match b.latest() {
        Some(p) => assert!(m.n > 0 && idx(p) == m.m[m.n - 1], "latest() is the model's last"),
        None => assert!(m.n == 0, "latest() is None only when empty"),
    }
}

fn model_contains(m: &Model, s: u8) -> bool {
    let mut i = 0;
    let mut f = false;
    while i < MAXN {
        if i < m.n && m.m[i] == s {
            f = true;
        }
        i += 1;
    }
    f
}

// roll_back(p) from every buffer of <= 3 points
macro_rules! roll_back_fam {
    ($name:ident, $n:expr) => {
        #[kani::proof]
        #[kani::unwind(6)]
        fn $name() {
            let (mut b, mut m) = build($n);
            same(&b, &m);
            let s = any_sym();
            let p = mk(s);
            let before = Model { m: m.m, n: m.n };
            let r = b.roll_back(&p);
            let found = model_contains(&before, s);
            match r {
                RollbackEffect::Handled => {
                    assert!(found, "Handled only for a buffered point");
                    let k = b.size();
                    assert!(k >= 1 && k <= before.n, "Handled keeps a non-empty prefix");
                    assert!(before.m[k - 1] == s, "the kept prefix ends at the rollback point");
                    m.n = k;
                    same(&b, &m);
                }
                RollbackEffect::OutOfScope => {
                    assert!(!found, "OutOfScope only for an unknown point");
                    m.n = 0;
                    same(&b, &m);
                }
            }
            kani::cover!($n != 3 || (found && b.size() == 1), "rollback to the oldest of three");
            kani::cover!($n != 3 || (found && b.size() == 3), "rollback to the newest of three");
            kani::cover!(!found, "rollback to an unknown point");
            kani::cover!($n != 3 || (found && before.m[0] == before.m[2] && before.m[0] == s), "duplicate point rolled back to");
            core::mem::forget(b);
            core::mem::forget(p);
        }
    };
}
// bound: buffer built by exactly n roll_forward calls (n = 0, 1, 2, 3 per harness) of symbolic alphabet points, then roll_back(symbolic alphabet point); unwind 6
roll_back_fam!(c26_q_roll_back_n0, 0);
roll_back_fam!(c26_q_roll_back_n1, 1);
roll_back_fam!(c26_q_roll_back_n2, 2);
roll_back_fam!(c26_q_roll_back_n3, 3);

// position(p) agrees with the model (first occurrence or None)
macro_rules! position_fam {
    ($name:ident, $n:expr) => {
        #[kani::proof]
        #[kani::unwind(6)]
        fn $name() {
            let (b, m) = build($n);
            let s = any_sym();
            let p = mk(s);
            let r = b.position(&p);
            match r {
                Some(k) => {
                    assert!(k < m.n && m.m[k] == s, "position points at an occurrence");
                    let mut i = 0;
                    while i < MAXN {
                        if i < k {
                            assert!(m.m[i] != s, "position is the first occurrence");
                        }
                        i += 1;
                    }
                }
                None => assert!(!model_contains(&m, s), "None only for an unknown point"),
            }
            kani::cover!($n != 3 || r == Some(2), "found at the newest position");
            kani::cover!(r.is_none(), "unknown point");
            core::mem::forget(b);
            core::mem::forget(p);
        }
    };
}
// bound: buffer built by exactly n roll_forward calls (n = 0..3 per harness) of symbolic alphabet points, then position(symbolic alphabet point); unwind 6
position_fam!(c26_q_position_n0, 0);
position_fam!(c26_q_position_n1, 1);
position_fam!(c26_q_position_n2, 2);
position_fam!(c26_q_position_n3, 3);

// pop_with_depth(d): returns the oldest len-d points in order, keeps the d newest
macro_rules! pop_fam {
    ($name:ident, $n:expr, $d:expr) => {
        #[kani::proof]
        #[kani::unwind(6)]
        fn $name() {
            let (mut b, m) = build($n);
            let d: usize = $d;
            let out = b.pop_with_depth(d);
            let ready = if m.n >= d { m.n - d } else { 0 };
            assert!(out.len() == ready, "exactly the points deeper than d are returned");
            let mut i = 0;
            while i < MAXN {
                if i < ready {
                    assert!(idx(&out[i]) == m.m[i], "popped points are the oldest ones, in order");
                }
                i += 1;
            }
            let mut rest = Model { m: [9; MAXN], n: m.n - ready };
            let mut i = 0;
            while i < MAXN {
                if i < rest.n {
                    rest.m[i] = m.m[ready + i];
                }
                i += 1;
            }
            same(&b, &rest);
            kani::cover!(out.len() == ready, "pop returned");
            core::mem::forget(out);
            core::mem::forget(b);
        }
    };
}
// bound: buffer built by exactly n roll_forward calls of symbolic alphabet points, then pop_with_depth(d); n in 0..=3 and d in 0..=4 both concrete per harness (a symbolic d makes the length of the collected Vec symbolic: no verdict in 300 s even for the empty buffer); unwind 6
pop_fam!(c26_q_pop_n0_d0, 0, 0);
pop_fam!(c26_q_pop_n0_d1, 0, 1);
pop_fam!(c26_q_pop_n0_d2, 0, 2);
pop_fam!(c26_q_pop_n0_d3, 0, 3);
pop_fam!(c26_q_pop_n0_d4, 0, 4);
pop_fam!(c26_q_pop_n1_d0, 1, 0);
pop_fam!(c26_q_pop_n1_d1, 1, 1);
pop_fam!(c26_q_pop_n1_d2, 1, 2);
pop_fam!(c26_q_pop_n1_d3, 1, 3);
pop_fam!(c26_q_pop_n1_d4, 1, 4);
pop_fam!(c26_q_pop_n2_d0, 2, 0);
pop_fam!(c26_q_pop_n2_d1, 2, 1);
pop_fam!(c26_q_pop_n2_d2, 2, 2);
pop_fam!(c26_q_pop_n2_d3, 2, 3);
pop_fam!(c26_q_pop_n2_d4, 2, 4);
pop_fam!(c26_q_pop_n3_d0, 3, 0);
pop_fam!(c26_q_pop_n3_d1, 3, 1);
pop_fam!(c26_q_pop_n3_d2, 3, 2);
pop_fam!(c26_q_pop_n3_d3, 3, 3);
pop_fam!(c26_q_pop_n3_d4, 3, 4);

// roll_forward appends at the back
macro_rules! forward_fam {
    ($name:ident, $n:expr) => {
        #[kani::proof]
        #[kani::unwind(6)]
        fn $name() {
            let (mut b, mut m) = build($n);
            let s = any_sym();
            b.roll_forward(mk(s));
            m.m[m.n] = s;
            m.n += 1;
            same(&b, &m);
            kani::cover!(m.n == $n + 1, "point appended");
            core::mem::forget(b);
        }
    };
}
// bound: buffer built by exactly n roll_forward calls (n = 0..3 per harness) of symbolic alphabet points, then one more roll_forward; unwind 6
forward_fam!(c26_q_roll_forward_n0, 0);
forward_fam!(c26_q_roll_forward_n1, 1);
forward_fam!(c26_q_roll_forward_n2, 2);
forward_fam!(c26_q_roll_forward_n3, 3);

/// vacuity twin: must come back FAILED
#[kani::proof]
#[kani::unwind(6)]
fn c26_v_twin() {
    let (mut b, m) = build(2);
    let s = any_sym();
    let p = mk(s);
    let r = b.roll_back(&p);
    assert!(matches!(r, RollbackEffect::Handled), "twin: must fail");
    core::mem::forget(b);
    core::mem::forget(p);
}
