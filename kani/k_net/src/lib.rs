#![allow(unused)]
//! Kani harnesses over pallas-network (C26, C22, C21, C09 network part).
#[cfg(kani)]
mod stubs;
#[cfg(kani)]
mod c26;
