//! C21 (network, original stack): reassembly lemma for `try_decode_message`, the incremental decode step behind `ChannelBuffer::recv_full_msg`.
//! fn: pallas_network::multiplexer::try_decode_message::<M> (through multiplexer::verif_hooks), per protocol message type M
//! stub: std::fmt::format -> empty String; std::panic::catch_unwind -> Ok(f()) (tracing::error! is reachable)
//! outside: the async loop of `ChannelBuffer::recv_full_msg` around the step (tokio channel), the demuxer; streams of more than two messages and more than one cut: they reduce to this lemma by induction on the number of segments (every strict prefix => incomplete, nothing consumed => retry after append), which is not machine-checked
//! outside: message pairs other than the listed concrete variant pairs; payloads longer than 3 bytes; handshake and node-to-client message types
use crate::c22::{any_u16, bf, bytes_n, cs, encode_into, ka, point_k, ps, set_class, tx};
use pallas_network::multiplexer::verif_hooks::try_decode_message;
use std::panic::catch_unwind as cu;

/// one incremental decode step: (signalled an error, returned message)
fn step<T: pallas_codec::Fragment>(buf: &mut Vec<u8>) -> (bool, Option<T>) {
    let r = try_decode_message::<T>(buf);
    let out = match r {
        Ok(x) => (false, x),
        Err(e) => {
            core::mem::forget(e);
            (true, None)
        }
    };
    out
}

/// `buf == bytes[from..to]`
fn same_bytes(buf: &[u8], bytes: &[u8], from: usize, to: usize, n: usize) -> bool {
    if to < from || buf.len() != to - from {
        return false;
    }
    let mut ok = true;
    let mut i = 0;
    while i < n {
        if i < buf.len() && buf[i] != bytes[from + i] {
            ok = false;
        }
        i += 1;
    }
    ok
}

macro_rules! reassembly {
    ($name:ident, $t:ty, $n:expr, $unw:expr, $m1:expr, $m2:expr, $eq:path) => {
        #[kani::proof]
        #[kani::unwind($unw)]
        #[kani::stub(std::fmt::format, crate::stubs::fmt_format_stub)]
        #[kani::stub(cu, crate::stubs::catch_unwind_stub)]
        fn $name() {
            set_class(2);
            let m1: $t = $m1;
            let m2: $t = $m2;
            // bytes[..l] = enc(m1) || enc(m2)
            let mut bytes = [0u8; $n];
            let (ok1, l1) = encode_into(&m1, &mut bytes[..]);
            let (ok2, l2) = encode_into(&m2, &mut bytes[l1..]);
            let l = l1 + l2;
            assert!(ok1 && ok2 && 0 < l1 && l1 < l && l <= $n, "both messages encode into the buffer");
            // symbolic cut
            let c: usize = kani::any();
            kani::assume(c <= l);
            let mut buf: Vec<u8> = Vec::with_capacity($n);
            buf.extend_from_slice(&bytes[..c]);

            // (i) on the prefix: exactly the messages wholly inside it, rest untouched
            let (ea, a): (bool, Option<$t>) = step(&mut buf);
            assert!(!ea, "prefix: no error is signalled");
            let mut got = 0;
            if c >= l1 {
                match &a {
                    Some(x) => assert!($eq(x, &m1), "prefix: first message is returned unchanged"),
                    None => assert!(false, "prefix: a message wholly inside the prefix is returned"),
                }
                assert!(same_bytes(&buf, &bytes, l1, c, $n), "prefix: exactly the first message's bytes are consumed");
                got = 1;
                let (eb, b): (bool, Option<$t>) = step(&mut buf);
                assert!(!eb, "prefix: no error is signalled");
                if c == l {
                    match &b {
                        Some(x) => assert!($eq(x, &m2), "prefix: second message is returned unchanged"),
                        None => assert!(false, "prefix: a message wholly inside the prefix is returned"),
                    }
                    assert!(buf.is_empty(), "prefix: buffer empty after both messages");
                    got = 2;
                } else {
                    assert!(b.is_none(), "prefix: a partial message is not returned");
                    assert!(same_bytes(&buf, &bytes, l1, c, $n), "prefix: a partial message leaves the buffer untouched");
                }
                core::mem::forget(b);
            } else {
                assert!(a.is_none(), "prefix: a partial message is not returned");
                assert!(same_bytes(&buf, &bytes, 0, c, $n), "prefix: a partial message leaves the buffer untouched");
            }
            core::mem::forget(a);

            // (ii) after appending the rest: the remaining messages come out, buffer empty
            buf.extend_from_slice(&bytes[c..l]);
            if got == 0 {
                let (ex, x): (bool, Option<$t>) = step(&mut buf);
                assert!(!ex, "retry: no error is signalled");
                match &x {
                    Some(x) => assert!($eq(x, &m1), "retry: first message is returned unchanged"),
                    None => assert!(false, "retry: the completed message is returned"),
                }
                core::mem::forget(x);
                got = 1;
            }
            if got == 1 {
                let (ey, y): (bool, Option<$t>) = step(&mut buf);
                assert!(!ey, "retry: no error is signalled");
                match &y {
                    Some(y) => assert!($eq(y, &m2), "retry: second message is returned unchanged"),
                    None => assert!(false, "retry: the completed message is returned"),
                }
                core::mem::forget(y);
            }
            assert!(buf.is_empty(), "retry: no left-over bytes");
            kani::cover!(c == 0, "cut before the first byte");
            kani::cover!(0 < c && c < l1, "cut inside the first message");
            kani::cover!(c == l1, "cut between the messages");
            kani::cover!(l1 < c && c < l, "cut inside the second message");
            kani::cover!(c == l, "no cut");
            core::mem::forget(buf);
            core::mem::forget(m1);
            core::mem::forget(m2);
        }
    };
}

// bound: keepalive: KeepAlive(c) || ResponseKeepAlive(c'), cookies any u16 of the 3-byte head class, every cut 0..=len; 8-byte stream buffer; unwind 10
reassembly!(c21_q_n1_ka_request_response, ka::Message, 8, 10, ka::Message::KeepAlive(any_u16()), ka::Message::ResponseKeepAlive(any_u16()), ka::eq);
// bound: keepalive: ResponseKeepAlive(c) || Done; unwind 10
reassembly!(c21_q_n1_ka_response_done, ka::Message, 8, 10, ka::Message::ResponseKeepAlive(any_u16()), ka::Message::Done, ka::eq);

/// vacuity twin: must come back FAILED
#[kani::proof]
#[kani::unwind(10)]
#[kani::stub(std::fmt::format, crate::stubs::fmt_format_stub)]
#[kani::stub(cu, crate::stubs::catch_unwind_stub)]
fn c21_v_n1_twin() {
    let mut buf: Vec<u8> = Vec::with_capacity(4);
    let b: [u8; 2] = kani::any();
    buf.extend_from_slice(&b);
    let (_e, a): (bool, Option<ka::Message>) = step(&mut buf);
    assert!(a.is_none(), "twin: must fail");
    core::mem::forget(a);
    core::mem::forget(buf);
}
