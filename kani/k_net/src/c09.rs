//! C09 (network part, original stack): decoding arbitrary bytes as a mini-protocol message never panics.
//! fn: minicbor::decode::<T> for T in keepalive / blockfetch / chainsync<HeaderContent> / chainsync<BlockContent> / txsubmission<EraTxId,EraTxBody> / peersharing / localstate / txmonitor / localmsgnotification ::Message, Point, chainsync::Tip, peersharing::PeerAddress
//! stub: std::fmt::format -> empty String
//! outside: buffers longer than 3 bytes (quick) / 5 bytes (thorough); handshake messages (decoding a version table runs HashMap::new(), not executable under CBMC); localtxsubmission::Message<EraTx, TxValidationError> (its non-array fallback runs std::str::from_utf8 over the whole input: no verdict on symbolic bytes; the reject-reason decoder is a 2700-line derived tree)
use pallas_network::miniprotocols as proto;

macro_rules! total {
    ($name:ident, $t:ty, $n:expr, $unw:expr) => {
        #[kani::proof]
        #[kani::unwind($unw)]
        #[kani::stub(std::fmt::format, crate::stubs::fmt_format_stub)]
        fn $name() {
            let b: [u8; $n] = kani::any();
            let len: usize = kani::any();
            kani::assume(len <= $n);
            let r: Result<$t, _> = pallas_codec::minicbor::decode(&b[..len]);
            kani::cover!(r.is_ok(), "some input decodes");
            kani::cover!(r.is_err(), "some input is rejected");
            core::mem::forget(r);
        }
    };
}

type CsHdr = proto::chainsync::Message<proto::chainsync::HeaderContent>;
type CsBlk = proto::chainsync::Message<proto::chainsync::BlockContent>;
type TxMsg = proto::txsubmission::Message<proto::txsubmission::EraTxId, proto::txsubmission::EraTxBody>;

// bound: arbitrary buffer of symbolic length 0..=3; Kani's panic / bounds / overflow checks; unwind 8
total!(c09_q_n1_keepalive, proto::keepalive::Message, 3, 8);
total!(c09_x_n1_blockfetch_b3, proto::blockfetch::Message, 3, 8);
total!(c09_x_n1_chainsync_header_b3, CsHdr, 3, 8);
total!(c09_x_n1_chainsync_block_b3, CsBlk, 3, 8);
total!(c09_x_n1_txsubmission_b3, TxMsg, 3, 8);
total!(c09_x_n1_peersharing_b3, proto::peersharing::Message, 3, 8);
total!(c09_x_n1_localstate_b3, proto::localstate::Message, 3, 8);
total!(c09_x_n1_txmonitor_b3, proto::txmonitor::Message, 3, 8);
total!(c09_x_n1_localmsgnotification_b3, proto::localmsgnotification::Message, 3, 8);
total!(c09_q_n1_point, proto::Point, 3, 8);
total!(c09_q_n1_tip, proto::chainsync::Tip, 3, 8);
total!(c09_x_n1_peeraddress_b3, proto::peersharing::PeerAddress, 3, 8);
// bound: arbitrary buffer of symbolic length 0..=5; unwind 10
total!(c09_t_n1_keepalive, proto::keepalive::Message, 5, 10);
total!(c09_x_n1_blockfetch_b5, proto::blockfetch::Message, 5, 10);
total!(c09_x_n1_chainsync_header_b5, CsHdr, 5, 10);
total!(c09_x_n1_chainsync_block_b5, CsBlk, 5, 10);
total!(c09_x_n1_txsubmission_b5, TxMsg, 5, 10);
total!(c09_x_n1_peersharing_b5, proto::peersharing::Message, 5, 10);
total!(c09_x_n1_localstate_b5, proto::localstate::Message, 5, 10);
total!(c09_x_n1_txmonitor_b5, proto::txmonitor::Message, 5, 10);
total!(c09_x_n1_localmsgnotification_b5, proto::localmsgnotification::Message, 5, 10);
total!(c09_t_n1_point, proto::Point, 5, 10);
total!(c09_t_n1_tip, proto::chainsync::Tip, 5, 10);
total!(c09_x_n1_peeraddress_b5, proto::peersharing::PeerAddress, 5, 10);

/// vacuity twin: must come back FAILED
#[kani::proof]
#[kani::unwind(8)]
#[kani::stub(std::fmt::format, crate::stubs::fmt_format_stub)]
fn c09_v_n1_twin() {
    let b: [u8; 3] = kani::any();
    let r: Result<proto::keepalive::Message, _> = pallas_codec::minicbor::decode(&b[..]);
    assert!(r.is_err(), "twin: must fail");
    core::mem::forget(r);
}

/// RandomState::new reads OS randomness (not executable under CBMC): fixed keys. Sound for these harnesses: no
/// entry is ever inserted (the buffer ends before the first complete entry), so no hash is computed.
pub fn random_state_stub() -> std::hash::RandomState {
    unsafe { core::mem::transmute::<[u64; 2], std::hash::RandomState>([0, 0]) }
}

/// handshake Propose whose version table declares more entries than the buffer holds: [0x82, 0x00, map head with a
/// 1/2/4/8-byte length argument, at most one further byte]: the result is an error, never a panic (e.g. from
/// pre-allocating the declared length)
/// bound: (excluded: no verdict in 400 s) map length argument symbolic over the full width of its head form, 0..=1 trailing symbolic byte; unwind 4
/// stub: std::hash::RandomState::new -> fixed keys (no entry is inserted in these harnesses)
#[kani::proof]
#[kani::unwind(4)]
#[kani::stub(std::fmt::format, crate::stubs::fmt_format_stub)]
#[kani::stub(std::hash::RandomState::new, random_state_stub)]
fn c09_x_n1_handshake_declared_len() {
    let mut b: [u8; 12] = kani::any();
    b[0] = 0x82;
    b[1] = 0x00;
    let form: u8 = kani::any();
    kani::assume(form <= 3);
    b[2] = 0xb8 + form;
    let arg = 1usize << form;
    let extra: usize = kani::any();
    kani::assume(extra <= 1);
    let len = 3 + arg + extra;
    let r: Result<proto::handshake::Message<proto::handshake::n2n::VersionData>, _> = pallas_codec::minicbor::decode(&b[..len]);
    assert!(r.is_err(), "a version table that declares more entries than the buffer holds is rejected");
    kani::cover!(r.is_err(), "reached");
    core::mem::forget(r);
}
