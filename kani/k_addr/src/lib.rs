#![allow(unused)]
//! Kani harnesses over pallas-addresses (C18, C19, address part of C09).
#[cfg(kani)]
mod stubs;
#[cfg(kani)]
mod c19;
#[cfg(kani)]
mod c18;
#[cfg(kani)]
mod c09;
