//! C09 (address part): address decoders never panic on untrusted bytes.
//! fn: pallas_addresses::Address::from_bytes (bytes_to_address, parse_type_0..8, parse_type_14/15, Pointer::parse, varuint::read)
//! fn: pallas_addresses::byron::ByronAddress::from_bytes (derived minicbor Decode, TagWrap, ByteVec)
//! stub: std::fmt::format -> empty String
//! outside: text entry points (from_hex / from_bech32 / from_base58 / FromStr: trusted dependencies, std UTF-8 validation gives no verdict on symbolic bytes)
//! outside: ByronAddress::from_bytes on an indefinite-length outer array (first byte 9f): attempted with 6 and 12 bytes, no verdict in 900 s (the derived decoder's skip loop over symbolic items); the fixed buffer 9f d8 18 42 .. ff is covered by c19_t_parse_indefinite_array
//! outside: inputs longer than 58 bytes for Shelley/stake headers (the parsers only look at fixed prefixes: 28/56 bytes) and longer than 12 bytes for Byron CBOR
use pallas_addresses::byron::ByronAddress;
use pallas_addresses::Address;

// Engineering note (measured): a symbolic slice length or a symbolic header nibble each make CBMC lose the
// constant header byte (`bytes.first()` merges the Some/None paths), after which all 11 type parsers
// incl. the Byron CBOR decoder are walked at once: no verdict in 500 s even for the undefined types.
// So every call below is made with a *constant* header byte and a *constant* length, selected by
// symbolic guards inside concretely-counted loops; the bytes after the header are symbolic.

/// one guarded call per length lo..=hi (header constant)
fn sweep_len<const N: usize>(b: &[u8; N], lo: usize, hi: usize, sel: usize) {
    sweep_len_acc(b, lo, hi, sel, true)
}
/// `may_accept` = false for headers no parser accepts (e.g. 0x80: a Byron address is an array of 2): the
/// "accepted" witness is then not applicable
fn sweep_len_acc<const N: usize>(b: &[u8; N], lo: usize, hi: usize, sel: usize, may_accept: bool) {
    let mut n = lo;
    while n <= hi {
        if sel == n {
            let r = Address::from_bytes(&b[..n]);
            kani::cover!(!may_accept || r.is_ok(), "some input accepted");
            kani::cover!(r.is_err(), "some input rejected");
            core::mem::forget(r);
        }
        n += 1;
    }
}

macro_rules! addr_total {
    ($name:ident, $t:expr) => {
        #[kani::proof]
        #[kani::unwind(18)]
        #[kani::stub(std::fmt::format, crate::stubs::fmt_format_stub)]
        fn $name() {
            let mut b: [u8; 58] = kani::any();
            let sel: usize = kani::any();
            let which: bool = kani::any();
            if which {
                // the lengths around every length test of the parsers (payload < 28 / < 29 / < 56), network nibble 1
                b[0] = ($t << 4) | 1;
                if sel < 3 {
                    sweep_len(&b, 1, 2, sel);
                } else if sel < 31 {
                    sweep_len(&b, 28, 30, sel);
                } else {
                    sweep_len(&b, 56, 58, sel);
                }
            } else {
                // every network nibble, full length
                kani::assume(sel < 16);
                let mut k: u8 = 0;
                while k < 16 {
                    if sel == k as usize {
                        b[0] = ($t << 4) | k;
                        let r = Address::from_bytes(&b);
                        assert!(r.is_ok(), "58 bytes with a defined hash-only header are accepted");
                        core::mem::forget(r);
                    }
                    k += 1;
                }
            }
        }
    };
}

// bound: arbitrary bytes after a constant header; header high nibble concrete per harness (hash-only types 0-3, 6, 7, 14, 15); (lengths 1, 2, 28, 29, 30, 56, 57, 58 -- both sides of every length test in the parsers -- with network nibble 1) and (every network nibble 0..=15 at length 58); unwind 18
addr_total!(c09_q_addr_t0, 0u8);
addr_total!(c09_t_addr_t1, 1u8);
addr_total!(c09_t_addr_t2, 2u8);
addr_total!(c09_t_addr_t3, 3u8);
addr_total!(c09_q_addr_t6, 6u8);
addr_total!(c09_t_addr_t7, 7u8);
addr_total!(c09_q_addr_t14, 14u8);
addr_total!(c09_t_addr_t15, 15u8);

/// pointer types: payload = 28-byte hash + up to three varuints read from arbitrary bytes
macro_rules! addr_total_ptr {
    ($name:ident, $hdr:expr, $lo:expr, $hi:expr) => {
        #[kani::proof]
        #[kani::unwind(14)]
        #[kani::stub(std::fmt::format, crate::stubs::fmt_format_stub)]
        #[kani::stub(<&[u8] as std::io::Read>::read_exact, crate::stubs::slice_read_exact_err_model)]
        fn $name() {
            let mut b: [u8; $hi] = kani::any();
            b[0] = $hdr;
            let sel: usize = kani::any();
            kani::assume(sel >= $lo && sel <= $hi);
            sweep_len(&b, $lo, $hi, sel);
        }
    };
}
// bound: header byte constant (0x41 / 0x5f; the low nibble only feeds parse_network, covered by the hash-only harnesses), arbitrary bytes, every length in the stated window (pointer area 0..=11 bytes: each varuint read stops after at most 10 groups); unwind 14
// stub: <&[u8] as std::io::Read>::read_exact -> model with the same effect, EOF error built as io::Error::from(ErrorKind::UnexpectedEof) (see stubs.rs)
addr_total_ptr!(c09_q_addr_t4_len30_32, 0x41u8, 30, 32);
addr_total_ptr!(c09_x_addr_t4_len28_33, 0x41u8, 28, 33);
addr_total_ptr!(c09_x_addr_t4_len34_40, 0x41u8, 34, 40);
addr_total_ptr!(c09_x_addr_t5_len28_40, 0x5fu8, 28, 40);

/// type 8: the header byte is the first byte of the CBOR item (array of k elements)
macro_rules! addr_total_byron {
    ($name:ident, $hdr:expr, $lo:expr, $hi:expr) => {
        #[kani::proof]
        #[kani::unwind(14)]
        #[kani::stub(std::fmt::format, crate::stubs::fmt_format_stub)]
        fn $name() {
            let mut b: [u8; $hi] = kani::any();
            b[0] = $hdr;
            let sel: usize = kani::any();
            kani::assume(sel >= $lo && sel <= $hi);
            sweep_len_acc(&b, $lo, $hi, sel, $hdr == 0x82u8);
        }
    };
}
// bound: Address::from_bytes, header byte constant 0x80..0x8f (CBOR array head of k elements), arbitrary bytes, every length 1..=8 (quick, 0x82) / 1..=12 (thorough); unwind 14
addr_total_byron!(c09_q_addr_t8_82_len5_6, 0x82u8, 5, 6);
addr_total_byron!(c09_x_addr_t8_82_len8, 0x82u8, 1, 8);
addr_total_byron!(c09_x_addr_t8_82_len12, 0x82u8, 1, 12);
addr_total_byron!(c09_t_addr_t8_80_len12, 0x80u8, 1, 12);
addr_total_byron!(c09_x_addr_t8_83_len12, 0x83u8, 1, 12);
addr_total_byron!(c09_x_addr_t8_8f_len12, 0x8fu8, 1, 12);

/// ByronAddress::from_bytes directly: first byte constant per guarded call (array(2) / indefinite array / other), rest symbolic
macro_rules! byron_total {
    ($name:ident, $first:expr, $n:expr) => {
        #[kani::proof]
        #[kani::unwind(14)]
        #[kani::stub(std::fmt::format, crate::stubs::fmt_format_stub)]
        fn $name() {
            let mut b: [u8; $n] = kani::any();
            b[0] = $first;
            let r = ByronAddress::from_bytes(&b);
            kani::cover!(r.is_err(), "some input is rejected");
            core::mem::forget(r);
        }
    };
}
// bound: ByronAddress::from_bytes, first byte and length constant per harness (82 x 6/12 bytes, 00 x 2), remaining bytes symbolic; unwind 14
byron_total!(c09_q_byron_82_len6, 0x82u8, 6);
byron_total!(c09_t_byron_82_len12, 0x82u8, 12);
byron_total!(c09_x_byron_00_len2, 0x00u8, 2);

/// Undefined header types 9..=13 and the empty input are rejected without a panic.
/// bound: header high nibble 9..=13 with low nibble 0 and 15 (constant per guarded call), lengths 1 and 58, plus the empty slice; unwind 7
#[kani::proof]
#[kani::unwind(7)]
#[kani::stub(std::fmt::format, crate::stubs::fmt_format_stub)]
fn c09_q_addr_undefined_types() {
    let mut b: [u8; 58] = kani::any();
    let sel: u8 = kani::any();
    kani::assume(sel >= 9 && sel <= 13);
    let lo: bool = kani::any();
    let mut t: u8 = 9;
    while t <= 13 {
        if sel == t {
            if lo {
                b[0] = t << 4;
                let r = Address::from_bytes(&b);
                assert!(r.is_err(), "undefined header types are rejected");
                core::mem::forget(r);
                let r = Address::from_bytes(&b[..1]);
                assert!(r.is_err(), "undefined header types are rejected (header only)");
                core::mem::forget(r);
            } else {
                b[0] = (t << 4) | 15;
                let r = Address::from_bytes(&b);
                assert!(r.is_err(), "undefined header types are rejected");
                core::mem::forget(r);
            }
        }
        t += 1;
    }
    let r = Address::from_bytes(&b[..0]);
    assert!(r.is_err(), "the empty input is rejected");
    core::mem::forget(r);
    kani::cover!(sel == 13 && !lo, "header 0xdf");
}

/// vacuity twin: must come back FAILED
#[kani::proof]
#[kani::unwind(4)]
#[kani::stub(std::fmt::format, crate::stubs::fmt_format_stub)]
fn c09_v_twin() {
    let mut b: [u8; 30] = kani::any();
    b[0] = 0x61;
    let r = Address::from_bytes(&b[..28]);
    assert!(r.is_ok(), "twin: must fail");
    core::mem::forget(r);
}
