//! C09 (address part): address decoders never panic on untrusted bytes.
//! fn: pallas_addresses::Address::from_bytes (bytes_to_address, parse_type_0..8, parse_type_14/15, Pointer::parse, varuint::read)
//! fn: pallas_addresses::byron::ByronAddress::from_bytes (derived minicbor Decode, TagWrap, ByteVec)
//! stub: std::fmt::format -> empty String
//! outside: text entry points (from_hex / from_bech32 / from_base58 / FromStr: trusted dependencies, std UTF-8 validation gives no verdict on symbolic bytes)
//! outside: inputs longer than 58 bytes for Shelley/stake headers (the parsers only look at fixed prefixes: 28/56 bytes) and longer than 12 bytes for Byron CBOR
use pallas_addresses::byron::ByronAddress;
use pallas_addresses::Address;

/// `Address::from_bytes` on a buffer of symbolic length 0..=N whose first byte has the high nibble `T`
/// (low nibble symbolic); Kani's built-in panic / bounds / overflow checks are the property.
macro_rules! addr_total {
    ($name:ident, $t:expr, $n:expr, $unw:expr) => {
        #[kani::proof]
        #[kani::unwind($unw)]
        #[kani::stub(std::fmt::format, crate::stubs::fmt_format_stub)]
        fn $name() {
            let mut b: [u8; $n] = kani::any();
            let low: u8 = kani::any();
            b[0] = ($t << 4) | (low & 0x0f);
            let n: usize = kani::any();
            kani::assume(n <= $n);
            let r = Address::from_bytes(&b[..n]);
            kani::cover!(r.is_ok(), "some input is accepted");
            kani::cover!(r.is_err(), "some input is rejected");
            core::mem::forget(r);
        }
    };
}

// bound: arbitrary bytes, symbolic length 0..=58, header high nibble concrete per harness (hash-only types 0-3, 6, 7, 14, 15), low nibble symbolic; unwind 4
addr_total!(c09_q_addr_t0, 0u8, 58, 4);
addr_total!(c09_t_addr_t1, 1u8, 58, 4);
addr_total!(c09_t_addr_t2, 2u8, 58, 4);
addr_total!(c09_t_addr_t3, 3u8, 58, 4);
addr_total!(c09_q_addr_t6, 6u8, 58, 4);
addr_total!(c09_t_addr_t7, 7u8, 58, 4);
addr_total!(c09_q_addr_t14, 14u8, 58, 4);
addr_total!(c09_t_addr_t15, 15u8, 58, 4);

/// Undefined header types 9..=13 and the empty input are rejected without a panic.
/// bound: arbitrary bytes, symbolic length 0..=58, header byte symbolic with high nibble in 9..=13; unwind 4
#[kani::proof]
#[kani::unwind(4)]
#[kani::stub(std::fmt::format, crate::stubs::fmt_format_stub)]
fn c09_q_addr_undefined_types() {
    let b: [u8; 58] = kani::any();
    kani::assume(b[0] >> 4 >= 9 && b[0] >> 4 <= 13);
    let n: usize = kani::any();
    kani::assume(n <= 58);
    let r = Address::from_bytes(&b[..n]);
    assert!(r.is_err(), "undefined header types and the empty input are rejected");
    kani::cover!(n == 0, "empty input");
    kani::cover!(n == 58, "full length");
    core::mem::forget(r);
}
