//! Standard stub set (DESIGN.md 1.1). Copy of this file lives in every harness crate.
//!
//! usage on a harness:
//!   #[kani::stub(std::fmt::format, crate::stubs::fmt_format_stub)]
//!   #[kani::stub(cu, crate::stubs::catch_unwind_stub)]      // with `use std::panic::catch_unwind as cu;`
//!   #[kani::stub(pallas_codec::minicbor::encode::Error::write, crate::stubs::mcb_write_err_stub)]
use std::any::Any;
use std::panic::UnwindSafe;

/// `format!` output is never the subject of a property; building it explodes the formula.
pub fn fmt_format_stub(_args: core::fmt::Arguments<'_>) -> String {
    String::new()
}

/// Without this any reachable `tracing::...!` macro is a Kani compiler ICE.
pub fn catch_unwind_stub<F: FnOnce() -> R + UnwindSafe, R>(f: F) -> Result<R, Box<dyn Any + Send + 'static>> {
    Ok(f())
}

/// Without this every minicbor encode into Vec<u8> / Hasher is a Kani compiler ICE
/// (uninhabited `Error<Infallible>::Write`). Only the *kind* of a write error changes.
pub fn mcb_write_err_stub<E>(_e: E) -> pallas_codec::minicbor::encode::Error<E> {
    pallas_codec::minicbor::encode::Error::message("write")
}

/// Model of `<&[u8] as Read>::read_exact` (what `Cursor<&[u8]>::read_exact` delegates to) for the
/// round-trip harnesses (C18): same effect on the Ok path (copy, advance); running past the end is a
/// *reported failure* (panic) instead of an `Err(io::Error)` value, because dropping an `io::Error`
/// (what `map_err(|_| ..)` in varuint::read does) unrolls a recursive `dyn Error` drop glue that
/// dominates the formula. Not usable for totality harnesses (C09).
pub fn slice_read_exact_model<'a>(s: &mut &'a [u8], buf: &mut [u8]) -> std::io::Result<()>
where
    'a: 'a,
{
    if buf.len() > s.len() {
        panic!("model: read_exact past the end of the buffer");
    }
    let n = buf.len();
    let mut i = 0;
    while i < n {
        buf[i] = s[i];
        i += 1;
    }
    let rest: &'a [u8] = &(*s)[n..];
    *s = rest;
    Ok(())
}

/// Model of `<&[u8] as Read>::read_exact` for totality harnesses (C09): identical effect on both paths
/// (copy + advance, or consume everything and fail with kind UnexpectedEof) except for the *representation*
/// of the error value: `io::Error::from(ErrorKind::UnexpectedEof)` (integer-tagged `Simple`) instead of the
/// pointer-tagged static `READ_EXACT_EOF`, so that the tag test in `io::Error`'s drop glue constant-folds
/// and the recursive `dyn Error` drop is not unrolled. varuint::read discards the value (`map_err(|_| ..)`).
pub fn slice_read_exact_err_model<'a>(s: &mut &'a [u8], buf: &mut [u8]) -> std::io::Result<()>
where
    'a: 'a,
{
    if buf.len() > s.len() {
        let end: &'a [u8] = &(*s)[s.len()..];
        *s = end;
        return Err(std::io::Error::from(std::io::ErrorKind::UnexpectedEof));
    }
    let n = buf.len();
    let mut i = 0;
    while i < n {
        buf[i] = s[i];
        i += 1;
    }
    let rest: &'a [u8] = &(*s)[n..];
    *s = rest;
    Ok(())
}
