//! C18: Shelley and stake addresses round-trip with a faithful header.
//! fn: pallas_addresses::{ShelleyAddress,StakeAddress}::{new,to_vec,to_header,typeid,hrp,network,payment,delegation,payload}
//! fn: pallas_addresses::Address::{from_bytes,to_vec,typeid,hrp,network} (bytes_to_address, parse_type_0..7, parse_type_14/15, parse_network)
//! fn: pallas_addresses::Pointer::{new,to_vec,parse}, pallas_addresses::varuint::{read,write}
//! stub: std::fmt::format -> empty String
//! stub: <&[u8] as std::io::Read>::read_exact (what Cursor<&[u8]>::read_exact delegates to) -> model with the same Ok-path effect; reading past the end is a reported failure instead of an Err(io::Error) value (dropping io::Error unrolls a recursive dyn drop glue: no verdict in 400 s without the model). Only on the varuint / pointer round-trip harnesses.
//! outside: hex and bech32 string legs (to_hex/from_hex, to_bech32/from_bech32, Display/FromStr: trusted dependencies `hex`, `bech32`; std UTF-8 validation on symbolic bytes gives no verdict)
//! outside: Network::Other(x) built by hand with x >= 16 or x in {0,1} (not producible by Network::from / parse_network; to_header would overlap the type nibble, Other(0) re-parses as Testnet)
//! outside: pointer components >= 2^14 inside whole-address round trips (the varuint codec itself is decided for every u64, Pointer::to_vec -> parse for components < 2^14)
use pallas_addresses::{
    varuint, Address, Network, Pointer, ShelleyAddress, ShelleyDelegationPart, ShelleyPaymentPart, StakeAddress,
    StakePayload,
};
use pallas_crypto::hash::Hash;
use std::io::Cursor;

fn net(id: u8) -> Network {
    Network::from(id)
}

fn w64(b: &[u8; 28], o: usize) -> u64 {
    u64::from_le_bytes([b[o], b[o + 1], b[o + 2], b[o + 3], b[o + 4], b[o + 5], b[o + 6], b[o + 7]])
}

/// loop-free comparison of all 28 bytes (keeps the unwind bound of the harnesses small)
fn hash_eq(a: &Hash<28>, b: &[u8; 28]) -> bool {
    let a: &[u8; 28] = a;
    w64(a, 0) == w64(b, 0)
        && w64(a, 8) == w64(b, 8)
        && w64(a, 16) == w64(b, 16)
        && a[24] == b[24]
        && a[25] == b[25]
        && a[26] == b[26]
        && a[27] == b[27]
}

fn str_is(s: &str, want: &[u8]) -> bool {
    let b = s.as_bytes();
    if b.len() != want.len() || want.len() < 4 || want.len() > 10 {
        return false;
    }
    let at = |i: usize| -> bool { i >= want.len() || b[i] == want[i] };
    at(0) && at(1) && at(2) && at(3) && at(4) && at(5) && at(6) && at(7) && at(8) && at(9)
}

fn pay(t: u8, h: [u8; 28]) -> ShelleyPaymentPart {
    if t & 1 == 0 {
        ShelleyPaymentPart::key_hash(Hash::new(h))
    } else {
        ShelleyPaymentPart::script_hash(Hash::new(h))
    }
}

/// shared checks on the encoded bytes and on the re-parsed address
fn check_header(v: &[u8], t: u8, k: u8, len: usize, hdr: u8) {
    assert!(v.len() == len, "encoded length");
    assert!(v[0] >> 4 == t, "header high nibble = address type");
    assert!(v[0] & 0x0f == k, "header low nibble = network id");
    assert!(hdr == v[0], "to_header() is the first encoded byte");
}

fn check_hrp(r: Result<&'static str, pallas_addresses::Error>, k: u8, main: &[u8], test: &[u8]) {
    match &r {
        Ok(s) => {
            assert!(k <= 1, "hrp defined only for network 0/1");
            assert!(str_is(s, if k == 1 { main } else { test }), "hrp matches the network");
        }
        Err(_) => assert!(k > 1, "hrp is an error exactly for other networks"),
    }
    core::mem::forget(r);
}

// ---------------------------------------------------------------------------------------------
// types 0..3: payment hash + delegation hash
// ---------------------------------------------------------------------------------------------
macro_rules! rt_base {
    ($name:ident, $t:expr, $k:expr) => {
        #[kani::proof]
        #[kani::unwind(6)]
        #[kani::stub(std::fmt::format, crate::stubs::fmt_format_stub)]
        fn $name() {
            const T: u8 = $t;
            const K: u8 = $k;
            let h1: [u8; 28] = kani::any();
            let h2: [u8; 28] = kani::any();
            let d = if T & 2 == 0 {
                ShelleyDelegationPart::key_hash(Hash::new(h2))
            } else {
                ShelleyDelegationPart::script_hash(Hash::new(h2))
            };
            let a = ShelleyAddress::new(net(K), pay(T, h1), d);
            assert!(a.typeid() == T, "typeid");
            let v = a.to_vec();
            check_header(&v, T, K, 57, a.to_header());
            assert!(v[1] == h1[0] && v[28] == h1[27] && v[29] == h2[0] && v[56] == h2[27], "hash placement");
            check_hrp(a.hrp(), K, b"addr", b"addr_test");
            let r = Address::from_bytes(&v);
            match &r {
                Ok(Address::Shelley(b)) => {
                    assert!(b.network() == net(K), "network survives");
                    assert!(b.typeid() == T, "type survives");
                    let pok = match b.payment() {
                        ShelleyPaymentPart::Key(x) => T & 1 == 0 && hash_eq(x, &h1),
                        ShelleyPaymentPart::Script(x) => T & 1 == 1 && hash_eq(x, &h1),
                    };
                    assert!(pok, "payment part survives");
                    let dok = match b.delegation() {
                        ShelleyDelegationPart::Key(x) => T & 2 == 0 && hash_eq(x, &h2),
                        ShelleyDelegationPart::Script(x) => T & 2 == 2 && hash_eq(x, &h2),
                        _ => false,
                    };
                    assert!(dok, "delegation part survives");
                    kani::cover!(h1[0] != h2[0], "distinct hashes");
                }
                _ => assert!(false, "own encoding parses as a Shelley address"),
            }
            core::mem::forget(r);
            core::mem::forget(v);
        }
    };
}

// ---------------------------------------------------------------------------------------------
// types 4,5: payment hash + pointer. The encoded length of a pointer is symbolic, and a Vec of symbolic
// length read back from the heap loses its concrete header byte (the solver then walks all 11 type
// parsers incl. the Byron CBOR decoder: no verdict in 600 s). So the round trip is decided in two legs
// that meet in a hand-laid expected encoding E (byte length of each varuint concrete per harness):
//   (i)  a.to_vec() == E bytewise  (`_enc`, thorough only, four (type, id) pairs: symbolic-length Vecs, ~12 min each; the network id enters to_vec only through to_header(), which c18_q_header_hrp_symbolic_net decides for every id)
//   (ii) Address::from_bytes(E) == a field-wise  (`_dec`)
// ---------------------------------------------------------------------------------------------
/// value range of a varuint of `l` bytes (l = 1, 2)
fn vu_range(l: usize, x: u64) -> bool {
    if l == 1 {
        x < 1 << 7
    } else {
        x >= 1 << 7 && x < 1 << 14
    }
}

/// hand-laid varuint of `l` bytes (l = 1, 2) at `w[o..]`
fn vu_put(w: &mut [u8], o: usize, l: usize, x: u64) -> usize {
    if l == 1 {
        w[o] = x as u8 & 0x7f;
    } else {
        w[o] = 0x80 | (x >> 7) as u8;
        w[o + 1] = x as u8 & 0x7f;
    }
    o + l
}

/// loop-free `a[..n] == b[..n]` for n <= 36 (keeps the unwind bound small: varuint::read's loop is
/// unrolled up to the bound for every call)
fn prefix_eq36(a: &[u8], b: &[u8], n: usize) -> bool {
    if n > 36 || a.len() < n || b.len() < n {
        return false;
    }
    (n <= 0 || a[0] == b[0]) && (n <= 1 || a[1] == b[1]) && (n <= 2 || a[2] == b[2]) && (n <= 3 || a[3] == b[3]) && (n <= 4 || a[4] == b[4]) && (n <= 5 || a[5] == b[5]) && (n <= 6 || a[6] == b[6]) && (n <= 7 || a[7] == b[7]) && (n <= 8 || a[8] == b[8]) && (n <= 9 || a[9] == b[9]) && (n <= 10 || a[10] == b[10]) && (n <= 11 || a[11] == b[11]) && (n <= 12 || a[12] == b[12]) && (n <= 13 || a[13] == b[13]) && (n <= 14 || a[14] == b[14]) && (n <= 15 || a[15] == b[15]) && (n <= 16 || a[16] == b[16]) && (n <= 17 || a[17] == b[17]) && (n <= 18 || a[18] == b[18]) && (n <= 19 || a[19] == b[19]) && (n <= 20 || a[20] == b[20]) && (n <= 21 || a[21] == b[21]) && (n <= 22 || a[22] == b[22]) && (n <= 23 || a[23] == b[23]) && (n <= 24 || a[24] == b[24]) && (n <= 25 || a[25] == b[25]) && (n <= 26 || a[26] == b[26]) && (n <= 27 || a[27] == b[27]) && (n <= 28 || a[28] == b[28]) && (n <= 29 || a[29] == b[29]) && (n <= 30 || a[30] == b[30]) && (n <= 31 || a[31] == b[31]) && (n <= 32 || a[32] == b[32]) && (n <= 33 || a[33] == b[33]) && (n <= 34 || a[34] == b[34]) && (n <= 35 || a[35] == b[35])
}

/// common prologue: symbolic hash and pointer, the address value and its expected encoding
macro_rules! ptr_setup {
    ($t:expr, $k:expr, $ls:expr, $lx:expr, $lc:expr, $h1:ident, $s:ident, $x:ident, $c:ident, $a:ident, $e:ident) => {
        const T: u8 = $t;
        const K: u8 = $k;
        const LEN: usize = 29 + $ls + $lx + $lc;
        let $h1: [u8; 28] = kani::any();
        let ($s, $x, $c): (u64, u64, u64) = (kani::any(), kani::any(), kani::any());
        kani::assume(vu_range($ls, $s) && vu_range($lx, $x) && vu_range($lc, $c));
        let $a = ShelleyAddress::new(net(K), pay(T, $h1), ShelleyDelegationPart::Pointer(Pointer::new($s, $x, $c)));
        let mut $e = [0u8; LEN];
        $e[0] = (T << 4) | K;
        $e[1..29].copy_from_slice(&$h1);
        let o = vu_put(&mut $e, 29, $ls, $s);
        let o = vu_put(&mut $e, o, $lx, $x);
        let o = vu_put(&mut $e, o, $lc, $c);
        assert!(o == LEN, "harness: expected encoding fills the buffer");
    };
}

/// leg (i): value -> bytes
macro_rules! rt_ptr_enc {
    ($name:ident, $t:expr, $k:expr, $ls:expr, $lx:expr, $lc:expr) => {
        #[kani::proof]
        #[kani::unwind(6)]
        #[kani::stub(std::fmt::format, crate::stubs::fmt_format_stub)]
        fn $name() {
            ptr_setup!($t, $k, $ls, $lx, $lc, h1, s, x, c, a, e);
            assert!(a.typeid() == T, "typeid");
            check_hrp(a.hrp(), K, b"addr", b"addr_test");
            let v = a.to_vec();
            check_header(&v, T, K, LEN, a.to_header());
            assert!(prefix_eq36(&v, &e, LEN), "to_vec: header, hash, then the three varuints");
            kani::cover!(s & 0x7f == 0x7f && c & 1 == 0, "symbolic components");
            core::mem::forget(v);
        }
    };
}

/// leg (ii): bytes -> value
macro_rules! rt_ptr_dec {
    ($name:ident, $t:expr, $k:expr, $ls:expr, $lx:expr, $lc:expr) => {
        #[kani::proof]
        #[kani::unwind(6)]
        #[kani::stub(std::fmt::format, crate::stubs::fmt_format_stub)]
        #[kani::stub(<&[u8] as std::io::Read>::read_exact, crate::stubs::slice_read_exact_model)]
        fn $name() {
            ptr_setup!($t, $k, $ls, $lx, $lc, h1, s, x, c, a, e);
            let r = Address::from_bytes(&e);
            match &r {
                Ok(Address::Shelley(b)) => {
                    assert!(b.network() == net(K), "network survives");
                    assert!(b.typeid() == T, "type survives");
                    let pok = match b.payment() {
                        ShelleyPaymentPart::Key(y) => T & 1 == 0 && hash_eq(y, &h1),
                        ShelleyPaymentPart::Script(y) => T & 1 == 1 && hash_eq(y, &h1),
                    };
                    assert!(pok, "payment part survives");
                    let dok = match b.delegation() {
                        ShelleyDelegationPart::Pointer(p) => p.slot() == s && p.tx_idx() == x && p.cert_idx() == c,
                        _ => false,
                    };
                    assert!(dok, "pointer survives");
                    kani::cover!(s & 0x7f == 0x7f && c & 1 == 0, "symbolic components");
                }
                _ => assert!(false, "expected encoding parses as a Shelley address"),
            }
            core::mem::forget(r);
        }
    };
}

// ---------------------------------------------------------------------------------------------
// types 6,7: enterprise
// ---------------------------------------------------------------------------------------------
macro_rules! rt_ent {
    ($name:ident, $t:expr, $k:expr) => {
        #[kani::proof]
        #[kani::unwind(6)]
        #[kani::stub(std::fmt::format, crate::stubs::fmt_format_stub)]
        fn $name() {
            const T: u8 = $t;
            const K: u8 = $k;
            let h1: [u8; 28] = kani::any();
            let a = ShelleyAddress::new(net(K), pay(T, h1), ShelleyDelegationPart::Null);
            assert!(a.typeid() == T, "typeid");
            let v = a.to_vec();
            check_header(&v, T, K, 29, a.to_header());
            check_hrp(a.hrp(), K, b"addr", b"addr_test");
            let r = Address::from_bytes(&v);
            match &r {
                Ok(Address::Shelley(b)) => {
                    assert!(b.network() == net(K), "network survives");
                    assert!(b.typeid() == T, "type survives");
                    let pok = match b.payment() {
                        ShelleyPaymentPart::Key(y) => T & 1 == 0 && hash_eq(y, &h1),
                        ShelleyPaymentPart::Script(y) => T & 1 == 1 && hash_eq(y, &h1),
                    };
                    assert!(pok, "payment part survives");
                    assert!(matches!(b.delegation(), ShelleyDelegationPart::Null), "no delegation part");
                    kani::cover!(h1[27] == 0xff, "symbolic hash");
                }
                _ => assert!(false, "own encoding parses as a Shelley address"),
            }
            core::mem::forget(r);
            core::mem::forget(v);
        }
    };
}

// ---------------------------------------------------------------------------------------------
// types 14,15: stake addresses
// ---------------------------------------------------------------------------------------------
macro_rules! rt_stake {
    ($name:ident, $t:expr, $k:expr) => {
        #[kani::proof]
        #[kani::unwind(6)]
        #[kani::stub(std::fmt::format, crate::stubs::fmt_format_stub)]
        fn $name() {
            const T: u8 = $t;
            const K: u8 = $k;
            let h1: [u8; 28] = kani::any();
            let pl = if T == 14 { StakePayload::Stake(Hash::new(h1)) } else { StakePayload::Script(Hash::new(h1)) };
            let a = StakeAddress::new(net(K), pl);
            assert!(a.typeid() == T, "typeid");
            let v = a.to_vec();
            check_header(&v, T, K, 29, a.to_header());
            check_hrp(a.hrp(), K, b"stake", b"stake_test");
            let r = Address::from_bytes(&v);
            match &r {
                Ok(Address::Stake(b)) => {
                    assert!(b.network() == net(K), "network survives");
                    assert!(b.typeid() == T, "type survives");
                    let pok = match b.payload() {
                        StakePayload::Stake(y) => T == 14 && hash_eq(y, &h1),
                        StakePayload::Script(y) => T == 15 && hash_eq(y, &h1),
                    };
                    assert!(pok, "stake credential survives");
                    kani::cover!(h1[27] == 0xff, "symbolic hash");
                }
                _ => assert!(false, "own encoding parses as a stake address"),
            }
            core::mem::forget(r);
            core::mem::forget(v);
        }
    };
}

// bound: one harness per (address type t, network id k), both concrete; 28-byte hashes symbolic; to_vec -> Address::from_bytes compared field-wise; pointer types 4/5: components symbolic < 2^14 with the byte length (1 or 2) of each varuint concrete per harness (suffix _l<ls><lx><lc>), round trip through a hand-laid expected encoding; quick = 9 pairs, thorough = the whole 10 x 16 grid; unwind 6
rt_base!(c18_q_rt_t0_n0, 0, 0);
rt_base!(c18_t_rt_t0_n1, 0, 1);
rt_base!(c18_t_rt_t0_n2, 0, 2);
rt_base!(c18_t_rt_t0_n3, 0, 3);
rt_base!(c18_t_rt_t0_n4, 0, 4);
rt_base!(c18_t_rt_t0_n5, 0, 5);
rt_base!(c18_t_rt_t0_n6, 0, 6);
rt_base!(c18_t_rt_t0_n7, 0, 7);
rt_base!(c18_t_rt_t0_n8, 0, 8);
rt_base!(c18_t_rt_t0_n9, 0, 9);
rt_base!(c18_t_rt_t0_n10, 0, 10);
rt_base!(c18_t_rt_t0_n11, 0, 11);
rt_base!(c18_t_rt_t0_n12, 0, 12);
rt_base!(c18_t_rt_t0_n13, 0, 13);
rt_base!(c18_t_rt_t0_n14, 0, 14);
rt_base!(c18_t_rt_t0_n15, 0, 15);
rt_base!(c18_t_rt_t1_n0, 1, 0);
rt_base!(c18_t_rt_t1_n1, 1, 1);
rt_base!(c18_t_rt_t1_n2, 1, 2);
rt_base!(c18_t_rt_t1_n3, 1, 3);
rt_base!(c18_t_rt_t1_n4, 1, 4);
rt_base!(c18_t_rt_t1_n5, 1, 5);
rt_base!(c18_t_rt_t1_n6, 1, 6);
rt_base!(c18_t_rt_t1_n7, 1, 7);
rt_base!(c18_t_rt_t1_n8, 1, 8);
rt_base!(c18_t_rt_t1_n9, 1, 9);
rt_base!(c18_t_rt_t1_n10, 1, 10);
rt_base!(c18_t_rt_t1_n11, 1, 11);
rt_base!(c18_t_rt_t1_n12, 1, 12);
rt_base!(c18_t_rt_t1_n13, 1, 13);
rt_base!(c18_t_rt_t1_n14, 1, 14);
rt_base!(c18_t_rt_t1_n15, 1, 15);
rt_base!(c18_t_rt_t2_n0, 2, 0);
rt_base!(c18_t_rt_t2_n1, 2, 1);
rt_base!(c18_t_rt_t2_n2, 2, 2);
rt_base!(c18_t_rt_t2_n3, 2, 3);
rt_base!(c18_t_rt_t2_n4, 2, 4);
rt_base!(c18_t_rt_t2_n5, 2, 5);
rt_base!(c18_t_rt_t2_n6, 2, 6);
rt_base!(c18_t_rt_t2_n7, 2, 7);
rt_base!(c18_t_rt_t2_n8, 2, 8);
rt_base!(c18_t_rt_t2_n9, 2, 9);
rt_base!(c18_t_rt_t2_n10, 2, 10);
rt_base!(c18_t_rt_t2_n11, 2, 11);
rt_base!(c18_t_rt_t2_n12, 2, 12);
rt_base!(c18_t_rt_t2_n13, 2, 13);
rt_base!(c18_t_rt_t2_n14, 2, 14);
rt_base!(c18_q_rt_t2_n15, 2, 15);
rt_base!(c18_t_rt_t3_n0, 3, 0);
rt_base!(c18_q_rt_t3_n1, 3, 1);
rt_base!(c18_t_rt_t3_n2, 3, 2);
rt_base!(c18_t_rt_t3_n3, 3, 3);
rt_base!(c18_t_rt_t3_n4, 3, 4);
rt_base!(c18_t_rt_t3_n5, 3, 5);
rt_base!(c18_t_rt_t3_n6, 3, 6);
rt_base!(c18_t_rt_t3_n7, 3, 7);
rt_base!(c18_t_rt_t3_n8, 3, 8);
rt_base!(c18_t_rt_t3_n9, 3, 9);
rt_base!(c18_t_rt_t3_n10, 3, 10);
rt_base!(c18_t_rt_t3_n11, 3, 11);
rt_base!(c18_t_rt_t3_n12, 3, 12);
rt_base!(c18_t_rt_t3_n13, 3, 13);
rt_base!(c18_t_rt_t3_n14, 3, 14);
rt_base!(c18_x_rt_t3_n15, 3, 15);
rt_ptr_dec!(c18_t_rt_t4_n0_l212_dec, 4, 0, 2, 1, 2);
rt_ptr_dec!(c18_q_rt_t4_n1_l111_dec, 4, 1, 1, 1, 1);
rt_ptr_enc!(c18_x_rt_t4_n1_l111_enc, 4, 1, 1, 1, 1);
rt_ptr_dec!(c18_t_rt_t4_n1_l121_dec, 4, 1, 1, 2, 1);
rt_ptr_dec!(c18_t_rt_t4_n2_l221_dec, 4, 2, 2, 2, 1);
rt_ptr_dec!(c18_t_rt_t4_n3_l112_dec, 4, 3, 1, 1, 2);
rt_ptr_dec!(c18_t_rt_t4_n4_l212_dec, 4, 4, 2, 1, 2);
rt_ptr_dec!(c18_t_rt_t4_n5_l121_dec, 4, 5, 1, 2, 1);
rt_ptr_dec!(c18_t_rt_t4_n6_l221_dec, 4, 6, 2, 2, 1);
rt_ptr_dec!(c18_t_rt_t4_n7_l112_dec, 4, 7, 1, 1, 2);
rt_ptr_dec!(c18_t_rt_t4_n8_l212_dec, 4, 8, 2, 1, 2);
rt_ptr_dec!(c18_t_rt_t4_n9_l121_dec, 4, 9, 1, 2, 1);
rt_ptr_dec!(c18_t_rt_t4_n10_l221_dec, 4, 10, 2, 2, 1);
rt_ptr_dec!(c18_t_rt_t4_n11_l112_dec, 4, 11, 1, 1, 2);
rt_ptr_dec!(c18_t_rt_t4_n12_l212_dec, 4, 12, 2, 1, 2);
rt_ptr_dec!(c18_t_rt_t4_n13_l121_dec, 4, 13, 1, 2, 1);
rt_ptr_dec!(c18_t_rt_t4_n14_l221_dec, 4, 14, 2, 2, 1);
rt_ptr_dec!(c18_t_rt_t4_n15_l112_dec, 4, 15, 1, 1, 2);
rt_ptr_enc!(c18_x_rt_t4_n15_l112_enc, 4, 15, 1, 1, 2);
rt_ptr_dec!(c18_t_rt_t5_n0_l212_dec, 5, 0, 2, 1, 2);
rt_ptr_enc!(c18_t_rt_t5_n0_l212_enc, 5, 0, 2, 1, 2);
rt_ptr_dec!(c18_t_rt_t5_n1_l121_dec, 5, 1, 1, 2, 1);
rt_ptr_dec!(c18_t_rt_t5_n2_l221_dec, 5, 2, 2, 2, 1);
rt_ptr_dec!(c18_t_rt_t5_n3_l112_dec, 5, 3, 1, 1, 2);
rt_ptr_dec!(c18_t_rt_t5_n4_l212_dec, 5, 4, 2, 1, 2);
rt_ptr_dec!(c18_t_rt_t5_n5_l121_dec, 5, 5, 1, 2, 1);
rt_ptr_dec!(c18_t_rt_t5_n6_l221_dec, 5, 6, 2, 2, 1);
rt_ptr_dec!(c18_t_rt_t5_n7_l112_dec, 5, 7, 1, 1, 2);
rt_ptr_dec!(c18_t_rt_t5_n8_l212_dec, 5, 8, 2, 1, 2);
rt_ptr_dec!(c18_t_rt_t5_n9_l121_dec, 5, 9, 1, 2, 1);
rt_ptr_dec!(c18_t_rt_t5_n10_l221_dec, 5, 10, 2, 2, 1);
rt_ptr_dec!(c18_t_rt_t5_n11_l112_dec, 5, 11, 1, 1, 2);
rt_ptr_dec!(c18_t_rt_t5_n12_l212_dec, 5, 12, 2, 1, 2);
rt_ptr_dec!(c18_t_rt_t5_n13_l121_dec, 5, 13, 1, 2, 1);
rt_ptr_dec!(c18_t_rt_t5_n14_l221_dec, 5, 14, 2, 2, 1);
rt_ptr_dec!(c18_q_rt_t5_n15_l212_dec, 5, 15, 2, 1, 2);
rt_ptr_enc!(c18_x_rt_t5_n15_l212_enc, 5, 15, 2, 1, 2);
rt_ptr_dec!(c18_t_rt_t5_n15_l112_dec, 5, 15, 1, 1, 2);
rt_ent!(c18_t_rt_t6_n0, 6, 0);
rt_ent!(c18_q_rt_t6_n1, 6, 1);
rt_ent!(c18_t_rt_t6_n2, 6, 2);
rt_ent!(c18_t_rt_t6_n3, 6, 3);
rt_ent!(c18_t_rt_t6_n4, 6, 4);
rt_ent!(c18_t_rt_t6_n5, 6, 5);
rt_ent!(c18_t_rt_t6_n6, 6, 6);
rt_ent!(c18_t_rt_t6_n7, 6, 7);
rt_ent!(c18_t_rt_t6_n8, 6, 8);
rt_ent!(c18_t_rt_t6_n9, 6, 9);
rt_ent!(c18_t_rt_t6_n10, 6, 10);
rt_ent!(c18_t_rt_t6_n11, 6, 11);
rt_ent!(c18_t_rt_t6_n12, 6, 12);
rt_ent!(c18_t_rt_t6_n13, 6, 13);
rt_ent!(c18_t_rt_t6_n14, 6, 14);
rt_ent!(c18_t_rt_t6_n15, 6, 15);
rt_ent!(c18_q_rt_t7_n0, 7, 0);
rt_ent!(c18_t_rt_t7_n1, 7, 1);
rt_ent!(c18_t_rt_t7_n2, 7, 2);
rt_ent!(c18_t_rt_t7_n3, 7, 3);
rt_ent!(c18_t_rt_t7_n4, 7, 4);
rt_ent!(c18_t_rt_t7_n5, 7, 5);
rt_ent!(c18_t_rt_t7_n6, 7, 6);
rt_ent!(c18_t_rt_t7_n7, 7, 7);
rt_ent!(c18_t_rt_t7_n8, 7, 8);
rt_ent!(c18_t_rt_t7_n9, 7, 9);
rt_ent!(c18_t_rt_t7_n10, 7, 10);
rt_ent!(c18_t_rt_t7_n11, 7, 11);
rt_ent!(c18_t_rt_t7_n12, 7, 12);
rt_ent!(c18_t_rt_t7_n13, 7, 13);
rt_ent!(c18_t_rt_t7_n14, 7, 14);
rt_ent!(c18_t_rt_t7_n15, 7, 15);
rt_stake!(c18_t_rt_t14_n0, 14, 0);
rt_stake!(c18_q_rt_t14_n1, 14, 1);
rt_stake!(c18_t_rt_t14_n2, 14, 2);
rt_stake!(c18_t_rt_t14_n3, 14, 3);
rt_stake!(c18_t_rt_t14_n4, 14, 4);
rt_stake!(c18_t_rt_t14_n5, 14, 5);
rt_stake!(c18_t_rt_t14_n6, 14, 6);
rt_stake!(c18_t_rt_t14_n7, 14, 7);
rt_stake!(c18_t_rt_t14_n8, 14, 8);
rt_stake!(c18_t_rt_t14_n9, 14, 9);
rt_stake!(c18_t_rt_t14_n10, 14, 10);
rt_stake!(c18_t_rt_t14_n11, 14, 11);
rt_stake!(c18_t_rt_t14_n12, 14, 12);
rt_stake!(c18_t_rt_t14_n13, 14, 13);
rt_stake!(c18_t_rt_t14_n14, 14, 14);
rt_stake!(c18_t_rt_t14_n15, 14, 15);
rt_stake!(c18_t_rt_t15_n0, 15, 0);
rt_stake!(c18_t_rt_t15_n1, 15, 1);
rt_stake!(c18_t_rt_t15_n2, 15, 2);
rt_stake!(c18_t_rt_t15_n3, 15, 3);
rt_stake!(c18_t_rt_t15_n4, 15, 4);
rt_stake!(c18_t_rt_t15_n5, 15, 5);
rt_stake!(c18_t_rt_t15_n6, 15, 6);
rt_stake!(c18_t_rt_t15_n7, 15, 7);
rt_stake!(c18_t_rt_t15_n8, 15, 8);
rt_stake!(c18_t_rt_t15_n9, 15, 9);
rt_stake!(c18_t_rt_t15_n10, 15, 10);
rt_stake!(c18_t_rt_t15_n11, 15, 11);
rt_stake!(c18_t_rt_t15_n12, 15, 12);
rt_stake!(c18_t_rt_t15_n13, 15, 13);
rt_stake!(c18_t_rt_t15_n14, 15, 14);
rt_stake!(c18_q_rt_t15_n15, 15, 15);

// ---------------------------------------------------------------------------------------------
// header formula and hrp for a symbolic network id (no Vec)
// ---------------------------------------------------------------------------------------------
/// bound: all 10 address types, network id symbolic 0..=15 (via Network::from), hashes fixed (they do not enter the header), unwind 3
#[kani::proof]
#[kani::unwind(3)]
#[kani::stub(std::fmt::format, crate::stubs::fmt_format_stub)]
fn c18_q_header_hrp_symbolic_net() {
    let k: u8 = kani::any();
    kani::assume(k < 16);
    let t: u8 = kani::any();
    kani::assume(t < 8 || t == 14 || t == 15);
    let h = [7u8; 28];
    if t < 8 {
        let d = match t >> 1 {
            0 => ShelleyDelegationPart::key_hash(Hash::new(h)),
            1 => ShelleyDelegationPart::script_hash(Hash::new(h)),
            2 => ShelleyDelegationPart::Pointer(Pointer::new(1, 2, 3)),
            _ => ShelleyDelegationPart::Null,
        };
        let a = ShelleyAddress::new(net(k), pay(t, h), d);
        assert!(a.typeid() == t, "typeid");
        assert!(a.to_header() == (t << 4) | k, "header = type << 4 | network id");
        assert!(a.network().value() == k, "network value");
        check_hrp(a.hrp(), k, b"addr", b"addr_test");
        let aa = Address::Shelley(a);
        assert!(aa.typeid() == t, "Address::typeid");
        check_hrp(aa.hrp(), k, b"addr", b"addr_test");
        core::mem::forget(aa);
    } else {
        let pl = if t == 14 { StakePayload::Stake(Hash::new(h)) } else { StakePayload::Script(Hash::new(h)) };
        let a = StakeAddress::new(net(k), pl);
        assert!(a.typeid() == t, "typeid");
        assert!(a.to_header() == (t << 4) | k, "header = type << 4 | network id");
        assert!(a.network().value() == k, "network value");
        check_hrp(a.hrp(), k, b"stake", b"stake_test");
        let aa = Address::Stake(a);
        assert!(aa.typeid() == t, "Address::typeid");
        check_hrp(aa.hrp(), k, b"stake", b"stake_test");
        core::mem::forget(aa);
    }
    kani::cover!(t == 5 && k == 15, "script/pointer on network 15");
    kani::cover!(t == 15 && k == 1, "script stake on mainnet");
}

// ---------------------------------------------------------------------------------------------
// varuint
// ---------------------------------------------------------------------------------------------
fn varuint_body(x: u64) {
    let mut c = Cursor::new(Vec::new());
    varuint::write(&mut c, x);
    let v = c.into_inner();
    // canonical length: ceil(bits/7), at least 1
    let want = 1
        + (x >= 1 << 7) as usize
        + (x >= 1 << 14) as usize
        + (x >= 1 << 21) as usize
        + (x >= 1 << 28) as usize
        + (x >= 1 << 35) as usize
        + (x >= 1 << 42) as usize
        + (x >= 1 << 49) as usize
        + (x >= 1 << 56) as usize
        + (x >= 1 << 63) as usize;
    assert!(v.len() == want, "varuint length is minimal");
    assert!(v[v.len() - 1] & 0x80 == 0, "last byte has no continuation bit");
    assert!(v.len() == 1 || v[0] & 0x80 != 0, "leading bytes carry the continuation bit");
    assert!(v.len() == 1 || v[0] != 0x80, "no leading zero group");
    let mut rc = Cursor::new(&v[..]);
    let r = varuint::read(&mut rc);
    match &r {
        Ok(z) => assert!(*z == x, "read(write(x)) == x"),
        Err(_) => assert!(false, "own encoding reads back"),
    }
    assert!(rc.position() as usize == v.len(), "read consumes exactly what write produced");
    core::mem::forget(r);
    core::mem::forget(v);
}

/// bound: x symbolic < 2^21 (1..=3 bytes), unwind 5
#[kani::proof]
#[kani::unwind(5)]
#[kani::stub(std::fmt::format, crate::stubs::fmt_format_stub)]
#[kani::stub(<&[u8] as std::io::Read>::read_exact, crate::stubs::slice_read_exact_model)]
fn c18_q_varuint_lt_2p21() {
    let x: u64 = kani::any();
    kani::assume(x < 1 << 21);
    varuint_body(x);
    kani::cover!(x >= 1 << 14, "three bytes");
    kani::cover!(x < 128, "one byte");
}

/// bound: every u64 (1..=10 bytes), unwind 12
#[kani::proof]
#[kani::unwind(12)]
#[kani::stub(std::fmt::format, crate::stubs::fmt_format_stub)]
#[kani::stub(<&[u8] as std::io::Read>::read_exact, crate::stubs::slice_read_exact_model)]
fn c18_q_varuint_all_u64() {
    let x: u64 = kani::any();
    varuint_body(x);
    kani::cover!(x == u64::MAX, "u64::MAX");
    kani::cover!(x >= 1 << 63, "ten bytes");
}

/// bound: Pointer with three symbolic components < 2^14: to_vec -> parse, unwind 4
#[kani::proof]
#[kani::unwind(4)]
#[kani::stub(std::fmt::format, crate::stubs::fmt_format_stub)]
#[kani::stub(<&[u8] as std::io::Read>::read_exact, crate::stubs::slice_read_exact_model)]
fn c18_q_pointer_roundtrip() {
    let (s, x, c): (u64, u64, u64) = (kani::any(), kani::any(), kani::any());
    kani::assume(s < 1 << 14 && x < 1 << 14 && c < 1 << 14);
    let p = Pointer::new(s, x, c);
    let v = p.to_vec();
    let r = Pointer::parse(&v);
    match &r {
        Ok(q) => assert!(q.slot() == s && q.tx_idx() == x && q.cert_idx() == c, "pointer components survive"),
        Err(_) => assert!(false, "own encoding parses"),
    }
    kani::cover!(s >= 128 && x < 128 && c >= 128, "mixed lengths");
    core::mem::forget(r);
    core::mem::forget(v);
}

/// vacuity twin: must come back FAILED
#[kani::proof]
#[kani::unwind(6)]
#[kani::stub(std::fmt::format, crate::stubs::fmt_format_stub)]
fn c18_v_twin() {
    let h1: [u8; 28] = kani::any();
    let a = ShelleyAddress::new(net(3), pay(6, h1), ShelleyDelegationPart::Null);
    let v = a.to_vec();
    assert!(v[0] == 0x61, "twin: must fail");
    core::mem::forget(v);
}

