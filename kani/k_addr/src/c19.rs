//! C19: Byron addresses round-trip and corrupted addresses are rejected.
//! fn: pallas_addresses::byron::ByronAddress::{from_bytes,new,from_decoded,to_vec} and its derived minicbor Decode/Encode
//! fn: pallas_addresses::Address::from_bytes (type 8 dispatch: bytes_to_address, parse_type_8)
//! fn: pallas_codec::utils::TagWrap<ByteVec,24> Decode/Encode
//! stub: pallas_codec::minicbor::encode::Error::write -> Error::message on every harness (a parse path that re-encodes would otherwise hit a Kani compiler ICE)
//! stub: std::fmt::format -> empty String
//! stub: minicbor::encode::Error::write -> Error::message (to_vec legs only)
//! outside: base58 text leg (ByronAddress::{from_base58,to_base58}, trusted dependency `base58`); Address::from_str (tries bech32 and base58 first); payloads longer than 6 bytes on the bytes->value side (the decoder does not look at payload content, real payloads are ~30-80 bytes)
//! outside: the CRC oracle is a bitwise CRC-32/ISO-HDLC written in the harness (poly 0xEDB88320 reflected, init/xorout 0xFFFFFFFF)
use pallas_addresses::byron::{AddrAttrProperty, AddrAttrs, AddrDistr, AddrType, AddressPayload, ByronAddress};
use pallas_addresses::Address;
use pallas_codec::minicbor;
use pallas_crypto::hash::Hash;

/// reference CRC-32 (ISO-HDLC, the one `from_decoded` uses) over the first `n` bytes of `p`, bitwise
fn crc32_ref<const M: usize>(p: &[u8; M], n: usize) -> u32 {
    let mut crc: u32 = 0xFFFF_FFFF;
    let mut i = 0;
    while i < M {
        if i < n {
            crc ^= p[i] as u32;
            let mut k = 0;
            while k < 8 {
                let mask = (crc & 1).wrapping_neg();
                crc = (crc >> 1) ^ (0xEDB8_8320 & mask);
                k += 1;
            }
        }
        i += 1;
    }
    !crc
}

fn crc32_slice(p: &[u8], max: usize) -> u32 {
    let mut crc: u32 = 0xFFFF_FFFF;
    let mut i = 0;
    while i < max {
        if i < p.len() {
            crc ^= p[i] as u32;
            let mut k = 0;
            while k < 8 {
                let mask = (crc & 1).wrapping_neg();
                crc = (crc >> 1) ^ (0xEDB8_8320 & mask);
                k += 1;
            }
        }
        i += 1;
    }
    !crc
}

/// the check shared by every bytes->value harness: `a` was produced by a parser from a buffer whose
/// payload bytes are `p[..n]` and whose checksum field is `c` (big endian)
fn check_parsed<const M: usize>(a: &ByronAddress, p: &[u8; M], n: usize, c: &[u8; 4]) {
    let pl: &Vec<u8> = &a.payload.0;
    assert!(pl.len() == n, "decoded payload has the length of the byte string");
    let mut i = 0;
    while i < M {
        if i < n {
            assert!(pl[i] == p[i], "decoded payload bytes are the bytes of the byte string");
        }
        i += 1;
    }
    assert!(a.crc == u32::from_be_bytes(*c), "decoded crc field is the encoded integer");
    // the property: a parser never yields an address whose checksum does not match its payload
    assert!(a.crc == crc32_ref(p, n), "accepted address: crc field == CRC32(payload)");
}

// ---------------------------------------------------------------------------------------------
// bytes -> value, minimal heads:  82 d8 18 (40+n) payload.. 1a crc..
// ---------------------------------------------------------------------------------------------
macro_rules! parse_min {
    ($name:ident, $n:expr, $unw:expr, $via:ident) => {
        #[kani::proof]
        #[kani::unwind($unw)]
        #[kani::stub(std::fmt::format, crate::stubs::fmt_format_stub)]
        #[kani::stub(pallas_codec::minicbor::encode::Error::write, crate::stubs::mcb_write_err_stub)]
        fn $name() {
            const N: usize = $n;
            let p: [u8; N] = kani::any();
            let c: [u8; 4] = kani::any();
            let mut b = [0u8; 4 + N + 5];
            b[0] = 0x82;
            b[1] = 0xd8;
            b[2] = 0x18;
            b[3] = 0x40 + N as u8;
            let mut i = 0;
            while i < N {
                b[4 + i] = p[i];
                i += 1;
            }
            b[4 + N] = 0x1a;
            b[5 + N] = c[0];
            b[6 + N] = c[1];
            b[7 + N] = c[2];
            b[8 + N] = c[3];
            parse_min!(@$via b, p, N, c);
        }
    };
    (@byron $b:ident, $p:ident, $n:ident, $c:ident) => {
        let r = ByronAddress::from_bytes(&$b);
        kani::cover!(r.is_ok(), "buffer accepted");
        if let Ok(a) = &r {
            kani::cover!(a.crc == crc32_ref(&$p, $n), "accepted with the right checksum");
            check_parsed(a, &$p, $n, &$c);
        }
        core::mem::forget(r);
    };
    (@address $b:ident, $p:ident, $n:ident, $c:ident) => {
        let r = Address::from_bytes(&$b);
        kani::cover!(r.is_ok(), "buffer accepted");
        match &r {
            Ok(Address::Byron(a)) => {
                kani::cover!(a.crc == crc32_ref(&$p, $n), "accepted with the right checksum");
                check_parsed(a, &$p, $n, &$c);
            }
            Ok(_) => assert!(false, "header 0x82 dispatches to Byron"),
            Err(_) => {}
        }
        core::mem::forget(r);
    };
}

// bound: hand-laid buffer 82 d8 18 (40+n) p[n] 1a c[4], payload bytes p and checksum bytes c symbolic, n concrete per harness (0,1,2,4,6); ByronAddress::from_bytes
parse_min!(c19_q_parse_n0, 0, 10, byron);
parse_min!(c19_q_parse_n2, 2, 10, byron);
parse_min!(c19_t_parse_n1, 1, 10, byron);
parse_min!(c19_t_parse_n4, 4, 10, byron);
parse_min!(c19_t_parse_n6, 6, 10, byron);
// bound: same buffers through Address::from_bytes (header 0x82 -> type 8 -> parse_type_8), n = 2 (quick), 6 (thorough)
parse_min!(c19_q_parse_via_address_n2, 2, 10, address);
parse_min!(c19_t_parse_via_address_n6, 6, 10, address);

// ---------------------------------------------------------------------------------------------
// bytes -> value, non-minimal heads of the same skeleton
// ---------------------------------------------------------------------------------------------
/// bound: buffer 82 d9 00 18 58 02 p[2] 1b 00 00 00 00 c[4] (2-byte tag head, 1-byte length head, 8-byte integer head), p and c symbolic
#[kani::proof]
#[kani::unwind(10)]
#[kani::stub(std::fmt::format, crate::stubs::fmt_format_stub)]
#[kani::stub(pallas_codec::minicbor::encode::Error::write, crate::stubs::mcb_write_err_stub)]
fn c19_t_parse_nonminimal_heads() {
    let p: [u8; 2] = kani::any();
    let c: [u8; 4] = kani::any();
    let b = [0x82, 0xd9, 0x00, 0x18, 0x58, 0x02, p[0], p[1], 0x1b, 0, 0, 0, 0, c[0], c[1], c[2], c[3]];
    let r = ByronAddress::from_bytes(&b);
    kani::cover!(r.is_ok(), "buffer accepted");
    if let Ok(a) = &r {
        check_parsed(a, &p, 2, &c);
    }
    core::mem::forget(r);
}

/// bound: buffer 9f d8 18 42 p[2] 1a c[4] ff (indefinite-length outer array), p and c symbolic
#[kani::proof]
#[kani::unwind(10)]
#[kani::stub(std::fmt::format, crate::stubs::fmt_format_stub)]
#[kani::stub(pallas_codec::minicbor::encode::Error::write, crate::stubs::mcb_write_err_stub)]
fn c19_t_parse_indefinite_array() {
    let p: [u8; 2] = kani::any();
    let c: [u8; 4] = kani::any();
    let b = [0x9f, 0xd8, 0x18, 0x42, p[0], p[1], 0x1a, c[0], c[1], c[2], c[3], 0xff];
    let r = ByronAddress::from_bytes(&b);
    kani::cover!(r.is_ok() || r.is_err(), "decoder returns");
    if let Ok(a) = &r {
        check_parsed(a, &p, 2, &c);
    }
    core::mem::forget(r);
}

// ---------------------------------------------------------------------------------------------
// value -> bytes -> value
// ---------------------------------------------------------------------------------------------
macro_rules! roundtrip {
    ($name:ident, $n:expr, $unw:expr) => {
        #[kani::proof]
        #[kani::unwind($unw)]
        #[kani::stub(std::fmt::format, crate::stubs::fmt_format_stub)]
        #[kani::stub(pallas_codec::minicbor::encode::Error::write, crate::stubs::mcb_write_err_stub)]
        fn $name() {
            const N: usize = $n;
            let p: [u8; N] = kani::any();
            // an address is built from a payload: its checksum is the CRC32 of that payload
            let crc: u32 = crc32_ref(&p, N);
            let a = ByronAddress::new(&p, crc);
            let mut buf = [0u8; N + 16];
            let er = minicbor::encode(&a, &mut buf[..]);
            assert!(er.is_ok(), "encoding into a large enough slice succeeds");
            // wire layout of what was written
            assert!(buf[0] == 0x82 && buf[1] == 0xd8 && buf[2] == 0x18, "array(2), tag(24)");
            assert!(buf[3] == 0x40 + N as u8, "byte string head");
            let r = ByronAddress::from_bytes(&buf[..]);
            // trailing zero bytes of the scratch buffer are not looked at by the decoder
            assert!(r.is_ok(), "own encoding decodes");
            if let Ok(b) = &r {
                assert!(b.crc == crc, "crc field survives");
                assert!(b.payload.0.len() == N, "payload length survives");
                let mut i = 0;
                while i < N {
                    assert!(b.payload.0[i] == p[i], "payload bytes survive");
                    i += 1;
                }
            }
            kani::cover!(r.is_ok(), "round trip completed");
            core::mem::forget(r);
            core::mem::forget(er);
            core::mem::forget(a);
        }
    };
}
// bound: ByronAddress::new(payload of n symbolic bytes, crc = CRC32(payload)) -> minicbor::encode into a slice -> from_bytes, n = 3 (quick), 0 and 6 (thorough)
roundtrip!(c19_q_roundtrip_n3, 3, 10);
roundtrip!(c19_t_roundtrip_n0, 0, 10);
roundtrip!(c19_t_roundtrip_n6, 6, 10);

// ---------------------------------------------------------------------------------------------
// from_decoded: checksum is computed over the encoded payload
// ---------------------------------------------------------------------------------------------
const CRC_LIB: crc::Crc<u32> = crc::Crc::<u32>::new(&crc::CRC_32_ISO_HDLC);

/// `sym` = number of trailing root bytes that are symbolic (rest zero); `bitwise` = compare against the
/// harness' bitwise CRC (independent oracle) instead of the `crc` crate run over the stored payload
fn from_decoded_body(attrs: Vec<AddrAttrProperty>, max: usize, sym: usize, bitwise: bool) {
    let any_root: [u8; 28] = kani::any();
    let mut root = [0u8; 28];
    let mut i = 0;
    while i < 28 {
        if i + sym >= 28 {
            root[i] = any_root[i];
        }
        i += 1;
    }
    let t: u8 = kani::any();
    kani::assume(t < 24);
    let addrtype = match t {
        0 => AddrType::PubKey,
        1 => AddrType::Script,
        2 => AddrType::Redeem,
        x => AddrType::Other(x as u32),
    };
    let pl = AddressPayload { root: Hash::<28>::new(root), attributes: attrs.into(), addrtype };
    let a = ByronAddress::from_decoded(pl);
    let bytes: &Vec<u8> = &a.payload.0;
    assert!(bytes.len() == max, "length of the encoded payload");
    if bitwise {
        assert!(a.crc == crc32_slice(bytes, max), "from_decoded: crc field == CRC32(encoded payload) [bitwise oracle]");
    } else {
        assert!(a.crc == CRC_LIB.checksum(bytes), "from_decoded: crc field == CRC32(encoded payload) [crc crate oracle]");
    }
    // the payload field is the CBOR of the AddressPayload: array(3), bytes(28) root, attributes map, type
    assert!(bytes[0] == 0x83 && bytes[1] == 0x58 && bytes[2] == 28, "payload starts array(3) bytes(28)");
    assert!(bytes[3] == root[0] && bytes[30] == root[27], "root hash is embedded");
    assert!(bytes[max - 1] == t, "address type is the last item");
    kani::cover!(t == 2, "redeem type");
    kani::cover!(root[27] == 0xff, "symbolic root byte");
    core::mem::forget(a);
}

/// bound: AddressPayload with symbolic 28-byte root, addrtype 0..23 symbolic, no attributes (encoded payload 33 bytes); oracle = `crc` crate (trusted, tied to the bitwise reference by c19_q_crc_lib_vs_bitwise) over the stored payload bytes, unwind 36
#[kani::proof]
#[kani::unwind(36)]
#[kani::stub(std::fmt::format, crate::stubs::fmt_format_stub)]
#[kani::stub(pallas_codec::minicbor::encode::Error::write, crate::stubs::mcb_write_err_stub)]
fn c19_t_from_decoded_noattr() {
    from_decoded_body(Vec::new(), 33, 28, false);
}

/// bound: as c19_t_from_decoded_noattr with only the last 4 root bytes and the addrtype symbolic (other root bytes zero), unwind 36
#[kani::proof]
#[kani::unwind(36)]
#[kani::stub(std::fmt::format, crate::stubs::fmt_format_stub)]
#[kani::stub(pallas_codec::minicbor::encode::Error::write, crate::stubs::mcb_write_err_stub)]
fn c19_q_from_decoded_noattr_sym4() {
    from_decoded_body(Vec::new(), 33, 4, false);
}

/// bound: as above with exactly one attribute AddrDistr::BootstrapEraDistribution (encoded payload 36 bytes), unwind 39
#[kani::proof]
#[kani::unwind(39)]
#[kani::stub(std::fmt::format, crate::stubs::fmt_format_stub)]
#[kani::stub(pallas_codec::minicbor::encode::Error::write, crate::stubs::mcb_write_err_stub)]
fn c19_t_from_decoded_one_attr() {
    let mut v = Vec::with_capacity(1);
    v.push(AddrAttrProperty::AddrDistr(AddrDistr::BootstrapEraDistribution));
    from_decoded_body(v, 36, 28, false);
}

/// ties the trusted `crc` crate (CRC_32_ISO_HDLC, what from_decoded calls) to the bitwise reference used by the parse harnesses
/// bound: 4 symbolic bytes, symbolic length 0..=4, unwind 10
#[kani::proof]
#[kani::unwind(10)]
fn c19_q_crc_lib_vs_bitwise() {
    let p: [u8; 4] = kani::any();
    let n: usize = kani::any();
    kani::assume(n <= 4);
    assert!(CRC_LIB.checksum(&p[..n]) == crc32_ref(&p, n), "crc crate == bitwise CRC-32/ISO-HDLC");
    kani::cover!(n == 4, "full length");
    kani::cover!(n == 0, "empty");
}

/// vacuity twin: must come back FAILED
#[kani::proof]
#[kani::unwind(10)]
#[kani::stub(std::fmt::format, crate::stubs::fmt_format_stub)]
#[kani::stub(pallas_codec::minicbor::encode::Error::write, crate::stubs::mcb_write_err_stub)]
fn c19_v_twin() {
    let p: [u8; 2] = kani::any();
    let b = [0x82, 0xd8, 0x18, 0x42, p[0], p[1], 0x1a, 0, 0, 0, 0];
    let r = ByronAddress::from_bytes(&b);
    assert!(r.is_ok(), "twin: must fail");
    core::mem::forget(r);
}

// ---------------------------------------------------------------------------------------------
// bytes -> value on a *structured* payload that is a valid but non-canonical AddressPayload encoding:
// [root(28 bytes), attributes, type]; the checksum must still be taken over the bytes that were received
// (a parser that re-encodes the decoded payload before checksumming accepts a wrong CRC here).
// ---------------------------------------------------------------------------------------------
macro_rules! parse_structured {
    ($name:ident, $plen:expr, [$($tail:expr),*]) => {
        #[kani::proof]
        #[kani::unwind(70)]
        #[kani::stub(std::fmt::format, crate::stubs::fmt_format_stub)]
        #[kani::stub(pallas_codec::minicbor::encode::Error::write, crate::stubs::mcb_write_err_stub)]
        fn $name() {
            const N: usize = $plen;
            // payload: 83 58 1c <28 x 0x11> <tail>
            let tail: [u8; N - 31] = [$($tail),*];
            let mut p = [0x11u8; N];
            p[0] = 0x83;
            p[1] = 0x58;
            p[2] = 0x1c;
            let mut i = 0;
            while i < N - 31 {
                p[31 + i] = tail[i];
                i += 1;
            }
            let c: [u8; 4] = kani::any();
            // 82 d8 18 58 N payload 1a crc
            let mut b = [0u8; 5 + N + 5];
            b[0] = 0x82;
            b[1] = 0xd8;
            b[2] = 0x18;
            b[3] = 0x58;
            b[4] = N as u8;
            let mut i = 0;
            while i < N {
                b[5 + i] = p[i];
                i += 1;
            }
            b[5 + N] = 0x1a;
            b[6 + N] = c[0];
            b[7 + N] = c[1];
            b[8 + N] = c[2];
            b[9 + N] = c[3];
            let want = CRC_REF.checksum(&p);
            let r = ByronAddress::from_bytes(&b);
            kani::cover!(r.is_ok(), "accepted for the right checksum");
            kani::cover!(r.is_err(), "rejected for a wrong checksum");
            if let Ok(a) = &r {
                assert!(a.crc == u32::from_be_bytes(c), "decoded crc field is the encoded integer");
                assert!(a.crc == want, "accepted address: crc field == CRC32(payload bytes as received)");
            }
            core::mem::forget(r);
        }
    };
}
const CRC_REF: crc::Crc<u32> = crc::Crc::<u32>::new(&crc::CRC_32_ISO_HDLC);
// bound: concrete structured payloads (root = 28 x 0x11), checksum bytes symbolic: canonical `a0 00`, non-minimal type `a0 18 00`, non-minimal map head `b8 00 00`, indefinite map `bf ff 00`; unwind 70
parse_structured!(c19_q_parse_structured_canonical, 33, [0xa0, 0x00]);
parse_structured!(c19_q_parse_structured_nonminimal_type, 34, [0xa0, 0x18, 0x00]);
parse_structured!(c19_q_parse_structured_nonminimal_map, 34, [0xb8, 0x00, 0x00]);
parse_structured!(c19_t_parse_structured_indef_map, 34, [0xbf, 0xff, 0x00]);
