//! C31: UTxO effects follow the phase-2 validity flag (produced side) and the sorted input set.
//! fn: pallas_traverse::MultiEraTx::{is_valid,outputs (length),output_at,collateral_return} on Babbage, Conway and Alonzo-compatible txs; MultiEraTx::produces (length) on Alonzo-compatible txs
//! fn: pallas_traverse::MultiEraOutput::{from_alonzo_compatible,from_babbage,from_conway,value}, MultiEraValue::coin
//! outside: MultiEraTx::consumes (de-duplicates through a HashSet: not executable under CBMC) -- only its source inputs() and the switch is_valid() are covered; requires(); Byron txs
//! outside: produces()/produces_at() on Babbage and Conway txs, i.e. the "collateral return at index n" rule itself: both functions create and drop a temporary Vec<MultiEraOutput> *inside* the library (`self.outputs().len()`, `into_iter().enumerate().collect()`); for Babbage/Conway outputs CBMC does not resolve the niche-encoded Cow::Borrowed discriminant read back from the heap and unrolls the recursive drop glue of PlutusData/NativeScript/BTreeMap (measured: no verdict in 300 s for 0, 1 or 2 outputs, success concrete or symbolic, unwind 1..3). For these eras the ingredients are decided separately (is_valid, outputs, output_at, collateral_return); of their composition only `produces().len()` on Alonzo-compatible txs (valid: n, invalid: 0) is decided
//! outside: identity of the *elements* of the Vec returned by outputs()/produces() (reading MultiEraOutput values back out of the returned Vec: no verdict in 300 s; output_at(i), which returns the value on the stack, is decided for every i instead); produces_at (no verdict in 300 s even on Alonzo-compatible txs); inputs_sorted_set (3 inputs, sort_by_key + dedup_by_key on Vec<MultiEraInput>: no verdict in 400 s); more than 2 outputs
use crate::build::*;
use pallas_codec::utils::{KeepRaw, Nullable, Set};
use pallas_crypto::hash::Hash;
use pallas_primitives::{alonzo, babbage, conway, TransactionInput};
use pallas_traverse::{MultiEraInput, MultiEraOutput, MultiEraTx};
use std::ops::Deref;

fn bab_out<'b>(coin: u64) -> babbage::TransactionOutput<'b> {
    babbage::TransactionOutput::PostAlonzo(KeepRaw::from(babbage::PostAlonzoTransactionOutput {
        address: bytes0(),
        value: babbage::Value::Coin(coin),
        datum_option: None,
        script_ref: None,
    }))
}
fn con_out<'b>(coin: u64) -> conway::TransactionOutput<'b> {
    conway::TransactionOutput::PostAlonzo(KeepRaw::from(conway::PostAlonzoTransactionOutput {
        address: bytes0(),
        value: conway::Value::Coin(coin),
        datum_option: None,
        script_ref: None,
    }))
}
fn coin(o: &MultiEraOutput) -> u64 {
    let v = o.value();
    let c = v.coin();
    core::mem::forget(v);
    c
}

fn coins() -> [u64; 3] {
    let c: [u64; 3] = kani::any();
    kani::assume(c[0] != c[1] && c[1] != c[2] && c[0] != c[2]);
    c
}

fn bab_body<'b>(c: [u64; 3], has_ret: bool) -> babbage::TransactionBody<'b> {
    babbage::TransactionBody {
        outputs: vec![KeepRaw::from(bab_out(c[0])), KeepRaw::from(bab_out(c[1]))],
        collateral_return: if has_ret { Some(KeepRaw::from(bab_out(c[2]))) } else { None },
        inputs: Vec::new(),
        fee: 0,
        ttl: None,
        certificates: None,
        withdrawals: None,
        update: None,
        auxiliary_data_hash: None,
        validity_interval_start: None,
        mint: None,
        script_data_hash: None,
        collateral: None,
        required_signers: None,
        network_id: None,
        total_collateral: None,
        reference_inputs: None,
    }
}
fn con_body<'b>(c: [u64; 3], has_ret: bool) -> conway::TransactionBody<'b> {
    conway::TransactionBody {
        outputs: vec![con_out(c[0]), con_out(c[1])],
        collateral_return: if has_ret { Some(con_out(c[2])) } else { None },
        inputs: Set::from(Vec::new()),
        fee: 0,
        ttl: None,
        certificates: None,
        withdrawals: None,
        auxiliary_data_hash: None,
        validity_interval_start: None,
        mint: None,
        script_data_hash: None,
        collateral: None,
        required_signers: None,
        network_id: None,
        total_collateral: None,
        reference_inputs: None,
        voting_procedures: None,
        proposal_procedures: None,
        treasury_value: None,
        donation: None,
    }
}
fn alo_body(c: [u64; 3]) -> alonzo::TransactionBody {
    alonzo::TransactionBody {
        outputs: vec![
            alonzo::TransactionOutput { address: bytes0(), amount: alonzo::Value::Coin(c[0]), datum_hash: None },
            alonzo::TransactionOutput { address: bytes0(), amount: alonzo::Value::Coin(c[1]), datum_hash: None },
        ],
        inputs: Vec::new(),
        fee: 0,
        ttl: None,
        certificates: None,
        withdrawals: None,
        update: None,
        auxiliary_data_hash: None,
        validity_interval_start: None,
        mint: None,
        script_data_hash: None,
        collateral: None,
        required_signers: None,
        network_id: None,
    }
}

// one library call per harness: several calls on one tx in one harness gave no verdict in 400 s

fn op_outputs(mtx: &MultiEraTx, success: bool, _has_ret: bool, _c: [u64; 3]) {
    let outs = mtx.outputs();
    let n = outs.len();
    core::mem::forget(outs);
    kani::cover!(!success, "invalid tx");
    assert!(n == 2, "outputs(): as many as the body has, whatever the validity flag");
}
fn op_output_at(mtx: &MultiEraTx, _success: bool, _has_ret: bool, c: [u64; 3]) {
    let idx: usize = kani::any();
    let oa = mtx.output_at(idx);
    if idx < 2 {
        assert!(oa.is_some(), "output_at inside the list");
        if let Some(o) = &oa {
            assert!(coin(o) == c[idx], "output_at(i) is output i");
        }
    } else {
        assert!(oa.is_none(), "output_at beyond the list");
    }
    kani::cover!(idx == 1, "second output");
    kani::cover!(idx > 2, "index beyond n");
    core::mem::forget(oa);
}
fn op_collateral_return(mtx: &MultiEraTx, _success: bool, has_ret: bool, c: [u64; 3]) {
    let ret = mtx.collateral_return();
    assert!(ret.is_some() == has_ret, "collateral_return() present iff the body has one");
    if let Some(r) = &ret {
        assert!(coin(r) == c[2], "collateral_return() is the body's collateral return");
    }
    kani::cover!(ret.is_some() == has_ret, "reached");
    core::mem::forget(ret);
}
fn op_produces(mtx: &MultiEraTx, success: bool, _has_ret: bool, _c: [u64; 3]) {
    let prod = mtx.produces();
    let n = prod.len();
    core::mem::forget(prod);
    kani::cover!(success, "valid tx");
    kani::cover!(!success, "invalid tx");
    assert!(n == if success { 2 } else { 0 }, "valid tx produces as many outputs as it has, invalid tx without collateral return produces nothing");
}
fn op_is_valid(mtx: &MultiEraTx, success: bool, _has_ret: bool, _c: [u64; 3]) {
    kani::cover!(!success, "invalid tx");
    assert!(mtx.is_valid() == success, "is_valid is the success flag");
}

macro_rules! babbage_op {
    ($name:ident, $op:ident, $has_ret:expr) => {
        #[kani::proof]
        #[kani::unwind(3)]
        #[kani::stub(std::fmt::format, crate::stubs::fmt_format_stub)]
        fn $name() {
            let c = coins();
            let success: bool = kani::any();
            let tx = babbage::Tx {
                transaction_body: KeepRaw::from(bab_body(c, $has_ret)),
                transaction_witness_set: KeepRaw::from(babbage_wits()),
                success,
                auxiliary_data: Nullable::Null,
            };
            let mtx = MultiEraTx::from_babbage(&tx);
            $op(&mtx, success, $has_ret, c);
            core::mem::forget(mtx);
            core::mem::forget(tx);
        }
    };
}
macro_rules! conway_op {
    ($name:ident, $op:ident, $has_ret:expr) => {
        #[kani::proof]
        #[kani::unwind(3)]
        #[kani::stub(std::fmt::format, crate::stubs::fmt_format_stub)]
        fn $name() {
            let c = coins();
            let success: bool = kani::any();
            let tx = conway::Tx {
                transaction_body: KeepRaw::from(con_body(c, $has_ret)),
                transaction_witness_set: KeepRaw::from(conway_wits()),
                success,
                auxiliary_data: Nullable::Null,
            };
            let mtx = MultiEraTx::from_conway(&tx);
            $op(&mtx, success, $has_ret, c);
            core::mem::forget(mtx);
            core::mem::forget(tx);
        }
    };
}
macro_rules! alonzo_op {
    ($name:ident, $op:ident) => {
        #[kani::proof]
        #[kani::unwind(3)]
        #[kani::stub(std::fmt::format, crate::stubs::fmt_format_stub)]
        fn $name() {
            let c = coins();
            let success: bool = kani::any();
            let tx = alonzo::Tx {
                transaction_body: KeepRaw::from(alo_body(c)),
                transaction_witness_set: KeepRaw::from(alonzo_wits()),
                success,
                auxiliary_data: Nullable::Null,
            };
            let era = if kani::any() { pallas_traverse::Era::Mary } else { pallas_traverse::Era::Alonzo };
            let mtx = MultiEraTx::from_alonzo_compatible(&tx, era);
            $op(&mtx, success, false, c);
            core::mem::forget(mtx);
            core::mem::forget(tx);
        }
    };
}
// bound: built tx with 2 outputs (coins symbolic, pairwise distinct), collateral return (coin symbolic) present/absent per harness, success flag symbolic, lookup index symbolic over all usize; one library call per harness; unwind 3
babbage_op!(c31_q_babbage_is_valid, op_is_valid, true);
babbage_op!(c31_q_babbage_outputs_len, op_outputs, true);
babbage_op!(c31_q_babbage_output_at, op_output_at, true);
babbage_op!(c31_q_babbage_collateral_return, op_collateral_return, true);
babbage_op!(c31_q_babbage_no_collateral_return, op_collateral_return, false);
conway_op!(c31_q_conway_is_valid, op_is_valid, true);
conway_op!(c31_q_conway_outputs_len, op_outputs, true);
conway_op!(c31_q_conway_output_at, op_output_at, true);
conway_op!(c31_q_conway_collateral_return, op_collateral_return, true);
conway_op!(c31_q_conway_no_collateral_return, op_collateral_return, false);
// bound: built Alonzo-compatible tx (era tag Mary or Alonzo) with 2 outputs (coins symbolic, distinct), success flag symbolic, lookup index symbolic over all usize; one library call per harness; unwind 3
alonzo_op!(c31_q_alonzo_is_valid, op_is_valid);
alonzo_op!(c31_q_alonzo_outputs_len, op_outputs);
alonzo_op!(c31_q_alonzo_output_at, op_output_at);
alonzo_op!(c31_q_alonzo_collateral_return, op_collateral_return);
alonzo_op!(c31_q_alonzo_produces_len, op_produces);

/// vacuity twin: must come back FAILED (an invalid tx does not produce its outputs)
#[kani::proof]
#[kani::unwind(3)]
#[kani::stub(std::fmt::format, crate::stubs::fmt_format_stub)]
fn c31_v_twin() {
    let c = coins();
    let tx = alonzo::Tx {
        transaction_body: KeepRaw::from(alo_body(c)),
        transaction_witness_set: KeepRaw::from(alonzo_wits()),
        success: kani::any(),
        auxiliary_data: Nullable::Null,
    };
    let mtx = MultiEraTx::from_alonzo_compatible(&tx, pallas_traverse::Era::Alonzo);
    let prod = mtx.produces();
    let n = prod.len();
    core::mem::forget(prod);
    core::mem::forget(mtx);
    core::mem::forget(tx);
    assert!(n == 2, "twin: must fail");
}
