//! C31: UTxO effects follow the phase-2 validity flag (produced side) and the sorted input set.
//! fn: pallas_traverse::MultiEraTx::{outputs,output_at,produces,produces_at,collateral_return,is_valid,inputs,inputs_sorted_set}
//! fn: pallas_traverse::MultiEraInput::{lexicographical_key,hash,index}, MultiEraOutput::{from_babbage,from_conway,as_babbage,as_conway,value}, MultiEraValue::coin
//! outside: MultiEraTx::consumes (de-duplicates through a HashSet: not executable under CBMC) -- only its source inputs() and the switch is_valid() are covered; requires(); Byron txs
//! outside: produces()/produces_at() on Babbage and Conway txs, i.e. the "collateral return at index n" rule itself: both functions create and drop a temporary Vec<MultiEraOutput> *inside* the library (`self.outputs().len()`, `into_iter().enumerate().collect()`); for Babbage/Conway outputs CBMC does not resolve the niche-encoded Cow::Borrowed discriminant read back from the heap and unrolls the recursive drop glue of PlutusData/NativeScript/BTreeMap (measured: no verdict in 300 s for 0, 1 or 2 outputs, success concrete or symbolic, unwind 1..3). For these eras the ingredients are decided separately (is_valid, outputs, output_at, collateral_return); their composition in produces/produces_at is decided for Alonzo-compatible txs only, where there is no collateral return
//! outside: more than 2 outputs / 3 inputs; inputs_sorted_set with hashes differing beyond the first byte (Hash<32> ordering is the derived array ordering)
use crate::build::*;
use pallas_codec::utils::{KeepRaw, Nullable, Set};
use pallas_crypto::hash::Hash;
use pallas_primitives::{alonzo, babbage, conway, TransactionInput};
use pallas_traverse::{MultiEraInput, MultiEraOutput, MultiEraTx};
use std::ops::Deref;

fn bab_out<'b>(coin: u64) -> babbage::TransactionOutput<'b> {
    babbage::TransactionOutput::PostAlonzo(KeepRaw::from(babbage::PostAlonzoTransactionOutput {
        address: bytes0(),
        value: babbage::Value::Coin(coin),
        datum_option: None,
        script_ref: None,
    }))
}
fn con_out<'b>(coin: u64) -> conway::TransactionOutput<'b> {
    conway::TransactionOutput::PostAlonzo(KeepRaw::from(conway::PostAlonzoTransactionOutput {
        address: bytes0(),
        value: conway::Value::Coin(coin),
        datum_option: None,
        script_ref: None,
    }))
}
fn coin(o: &MultiEraOutput) -> u64 {
    let v = o.value();
    let c = v.coin();
    core::mem::forget(v);
    c
}

fn coins() -> [u64; 3] {
    let c: [u64; 3] = kani::any();
    kani::assume(c[0] != c[1] && c[1] != c[2] && c[0] != c[2]);
    c
}

fn bab_body<'b>(c: [u64; 3], has_ret: bool) -> babbage::TransactionBody<'b> {
    babbage::TransactionBody {
        outputs: vec![KeepRaw::from(bab_out(c[0])), KeepRaw::from(bab_out(c[1]))],
        collateral_return: if has_ret { Some(KeepRaw::from(bab_out(c[2]))) } else { None },
        inputs: Vec::new(),
        fee: 0,
        ttl: None,
        certificates: None,
        withdrawals: None,
        update: None,
        auxiliary_data_hash: None,
        validity_interval_start: None,
        mint: None,
        script_data_hash: None,
        collateral: None,
        required_signers: None,
        network_id: None,
        total_collateral: None,
        reference_inputs: None,
    }
}
fn con_body<'b>(c: [u64; 3], has_ret: bool) -> conway::TransactionBody<'b> {
    conway::TransactionBody {
        outputs: vec![con_out(c[0]), con_out(c[1])],
        collateral_return: if has_ret { Some(con_out(c[2])) } else { None },
        inputs: Set::from(Vec::new()),
        fee: 0,
        ttl: None,
        certificates: None,
        withdrawals: None,
        auxiliary_data_hash: None,
        validity_interval_start: None,
        mint: None,
        script_data_hash: None,
        collateral: None,
        required_signers: None,
        network_id: None,
        total_collateral: None,
        reference_inputs: None,
        voting_procedures: None,
        proposal_procedures: None,
        treasury_value: None,
        donation: None,
    }
}
fn alo_body(c: [u64; 3]) -> alonzo::TransactionBody {
    alonzo::TransactionBody {
        outputs: vec![
            alonzo::TransactionOutput { address: bytes0(), amount: alonzo::Value::Coin(c[0]), datum_hash: None },
            alonzo::TransactionOutput { address: bytes0(), amount: alonzo::Value::Coin(c[1]), datum_hash: None },
        ],
        inputs: Vec::new(),
        fee: 0,
        ttl: None,
        certificates: None,
        withdrawals: None,
        update: None,
        auxiliary_data_hash: None,
        validity_interval_start: None,
        mint: None,
        script_data_hash: None,
        collateral: None,
        required_signers: None,
        network_id: None,
    }
}

// one library call per harness: several calls on one tx in one harness gave no verdict in 400 s

fn op_outputs(mtx: &MultiEraTx, success: bool, _has_ret: bool, c: [u64; 3]) {
    assert!(mtx.is_valid() == success, "is_valid is the success flag");
    let outs = mtx.outputs();
    assert!(outs.len() == 2, "outputs(): both outputs");
    assert!(coin(&outs[0]) == c[0] && coin(&outs[1]) == c[1], "outputs() in body order");
    kani::cover!(!success, "invalid tx");
    core::mem::forget(outs);
}
fn op_output_at(mtx: &MultiEraTx, _success: bool, _has_ret: bool, c: [u64; 3]) {
    let idx: usize = kani::any();
    let oa = mtx.output_at(idx);
    if idx < 2 {
        assert!(oa.is_some(), "output_at inside the list");
        if let Some(o) = &oa {
            assert!(coin(o) == c[idx], "output_at(i) is output i");
        }
    } else {
        assert!(oa.is_none(), "output_at beyond the list");
    }
    kani::cover!(idx == 1, "second output");
    kani::cover!(idx > 2, "index beyond n");
    core::mem::forget(oa);
}
fn op_collateral_return(mtx: &MultiEraTx, _success: bool, has_ret: bool, c: [u64; 3]) {
    let ret = mtx.collateral_return();
    assert!(ret.is_some() == has_ret, "collateral_return() present iff the body has one");
    if let Some(r) = &ret {
        assert!(coin(r) == c[2], "collateral_return() is the body's collateral return");
    }
    kani::cover!(ret.is_some() == has_ret, "reached");
    core::mem::forget(ret);
}
fn op_produces(mtx: &MultiEraTx, success: bool, _has_ret: bool, c: [u64; 3]) {
    let prod = mtx.produces();
    if success {
        assert!(prod.len() == 2, "valid tx produces exactly its outputs");
        assert!(prod[0].0 == 0 && coin(&prod[0].1) == c[0], "valid tx: output 0 at index 0");
        assert!(prod[1].0 == 1 && coin(&prod[1].1) == c[1], "valid tx: output 1 at index 1");
    } else {
        assert!(prod.len() == 0, "invalid tx without collateral return produces nothing");
    }
    kani::cover!(success, "valid tx");
    kani::cover!(!success, "invalid tx");
    core::mem::forget(prod);
}
fn op_produces_at(mtx: &MultiEraTx, success: bool, _has_ret: bool, c: [u64; 3]) {
    let idx: usize = kani::any();
    let pa = mtx.produces_at(idx);
    let expected: Option<u64> = if success && idx < 2 { Some(c[idx]) } else { None };
    assert!(pa.is_some() == expected.is_some(), "produces_at(i) exists iff (i, _) is in produces()");
    if let (Some(o), Some(e)) = (&pa, expected) {
        assert!(coin(o) == e, "produces_at(i) is the output paired with i in produces()");
    }
    kani::cover!(success && idx == 1, "valid, second output");
    kani::cover!(!success && idx == 2, "invalid, index n");
    kani::cover!(!success && idx == 0, "invalid, index 0");
    core::mem::forget(pa);
}

macro_rules! babbage_op {
    ($name:ident, $op:ident, $has_ret:expr) => {
        #[kani::proof]
        #[kani::unwind(3)]
        #[kani::stub(std::fmt::format, crate::stubs::fmt_format_stub)]
        fn $name() {
            let c = coins();
            let success: bool = kani::any();
            let tx = babbage::Tx {
                transaction_body: KeepRaw::from(bab_body(c, $has_ret)),
                transaction_witness_set: KeepRaw::from(babbage_wits()),
                success,
                auxiliary_data: Nullable::Null,
            };
            let mtx = MultiEraTx::from_babbage(&tx);
            $op(&mtx, success, $has_ret, c);
            core::mem::forget(mtx);
            core::mem::forget(tx);
        }
    };
}
macro_rules! conway_op {
    ($name:ident, $op:ident, $has_ret:expr) => {
        #[kani::proof]
        #[kani::unwind(3)]
        #[kani::stub(std::fmt::format, crate::stubs::fmt_format_stub)]
        fn $name() {
            let c = coins();
            let success: bool = kani::any();
            let tx = conway::Tx {
                transaction_body: KeepRaw::from(con_body(c, $has_ret)),
                transaction_witness_set: KeepRaw::from(conway_wits()),
                success,
                auxiliary_data: Nullable::Null,
            };
            let mtx = MultiEraTx::from_conway(&tx);
            $op(&mtx, success, $has_ret, c);
            core::mem::forget(mtx);
            core::mem::forget(tx);
        }
    };
}
macro_rules! alonzo_op {
    ($name:ident, $op:ident) => {
        #[kani::proof]
        #[kani::unwind(3)]
        #[kani::stub(std::fmt::format, crate::stubs::fmt_format_stub)]
        fn $name() {
            let c = coins();
            let success: bool = kani::any();
            let tx = alonzo::Tx {
                transaction_body: KeepRaw::from(alo_body(c)),
                transaction_witness_set: KeepRaw::from(alonzo_wits()),
                success,
                auxiliary_data: Nullable::Null,
            };
            let era = if kani::any() { pallas_traverse::Era::Mary } else { pallas_traverse::Era::Alonzo };
            let mtx = MultiEraTx::from_alonzo_compatible(&tx, era);
            $op(&mtx, success, false, c);
            core::mem::forget(mtx);
            core::mem::forget(tx);
        }
    };
}
// bound: built tx with 2 outputs (coins symbolic, pairwise distinct), collateral return (coin symbolic) present/absent per harness, success flag symbolic, lookup index symbolic over all usize; one library call per harness; unwind 3
babbage_op!(c31_q_babbage_outputs, op_outputs, true);
babbage_op!(c31_q_babbage_output_at, op_output_at, true);
babbage_op!(c31_q_babbage_collateral_return, op_collateral_return, true);
babbage_op!(c31_q_babbage_no_collateral_return, op_collateral_return, false);
conway_op!(c31_q_conway_outputs, op_outputs, true);
conway_op!(c31_q_conway_output_at, op_output_at, true);
conway_op!(c31_q_conway_collateral_return, op_collateral_return, true);
conway_op!(c31_q_conway_no_collateral_return, op_collateral_return, false);
// bound: built Alonzo-compatible tx (era tag Mary or Alonzo) with 2 outputs (coins symbolic, distinct), success flag symbolic, lookup index symbolic over all usize; one library call per harness; unwind 3
alonzo_op!(c31_q_alonzo_outputs, op_outputs);
alonzo_op!(c31_q_alonzo_collateral_return, op_collateral_return);
alonzo_op!(c31_q_alonzo_produces, op_produces);
alonzo_op!(c31_q_alonzo_produces_at, op_produces_at);

// ---- inputs_sorted_set

fn input(h0: u8, index: u64) -> TransactionInput {
    let mut h = [0u8; 32];
    h[0] = h0;
    TransactionInput {
        transaction_id: Hash::new(h),
        index,
    }
}
fn key(i: &MultiEraInput) -> (u8, u64) {
    (i.hash().as_ref()[0], i.index())
}
fn lt(a: (u8, u64), b: (u8, u64)) -> bool {
    a.0 < b.0 || (a.0 == b.0 && a.1 < b.1)
}

/// shared check: `k` = keys of the three body inputs
fn check_sorted(mtx: &MultiEraTx, k: [(u8, u64); 3]) {
    let ins = mtx.inputs();
    assert!(ins.len() == 3, "inputs(): all three, duplicates included");
    assert!(key(&ins[0]) == k[0] && key(&ins[1]) == k[1] && key(&ins[2]) == k[2], "inputs() in body order");
    let s = mtx.inputs_sorted_set();
    let n = s.len();
    assert!(n >= 1 && n <= 3, "between one and three distinct inputs");
    let mut i = 0;
    while i + 1 < n {
        assert!(lt(key(&s[i]), key(&s[i + 1])), "strictly increasing by (tx id, index): sorted and duplicate free");
        i += 1;
    }
    // same set
    let mut j = 0;
    while j < 3 {
        let mut found = false;
        let mut i = 0;
        while i < n {
            found |= key(&s[i]) == k[j];
            i += 1;
        }
        assert!(found, "every input is in the sorted set");
        j += 1;
    }
    let mut i = 0;
    while i < n {
        let ki = key(&s[i]);
        assert!(ki == k[0] || ki == k[1] || ki == k[2], "every element of the sorted set is an input");
        i += 1;
    }
    kani::cover!(n == 1, "all three equal");
    kani::cover!(n == 2, "one duplicate");
    kani::cover!(n == 3 && lt(k[2], k[1]) && lt(k[1], k[0]), "three distinct, reversed");
    kani::cover!(n == 3 && k[0].0 == k[1].0 && k[0].1 > k[1].1, "order decided by the index");
    core::mem::forget(s);
    core::mem::forget(ins);
}

/// bound: 3 inputs, each with symbolic first hash byte (other 31 bytes zero) and symbolic u64 index; unwind 34 (32-byte hash compares)
#[kani::proof]
#[kani::unwind(34)]
#[kani::stub(std::fmt::format, crate::stubs::fmt_format_stub)]
fn c31_t_sorted_set_babbage() {
    let h: [u8; 3] = kani::any();
    let x: [u64; 3] = kani::any();
    let mut body = babbage_body(0);
    body.inputs = vec![input(h[0], x[0]), input(h[1], x[1]), input(h[2], x[2])];
    let tx = babbage::Tx {
        transaction_body: KeepRaw::from(body),
        transaction_witness_set: KeepRaw::from(babbage_wits()),
        success: kani::any(),
        auxiliary_data: Nullable::Null,
    };
    let mtx = MultiEraTx::from_babbage(&tx);
    check_sorted(&mtx, [(h[0], x[0]), (h[1], x[1]), (h[2], x[2])]);
    core::mem::forget(mtx);
    core::mem::forget(tx);
}

/// bound: 3 inputs, each with symbolic first hash byte (other 31 bytes zero) and symbolic u64 index; unwind 34
#[kani::proof]
#[kani::unwind(34)]
#[kani::stub(std::fmt::format, crate::stubs::fmt_format_stub)]
fn c31_t_sorted_set_conway() {
    let h: [u8; 3] = kani::any();
    let x: [u64; 3] = kani::any();
    let mut body = conway_body(0);
    body.inputs = Set::from(vec![input(h[0], x[0]), input(h[1], x[1]), input(h[2], x[2])]);
    let tx = conway::Tx {
        transaction_body: KeepRaw::from(body),
        transaction_witness_set: KeepRaw::from(conway_wits()),
        success: kani::any(),
        auxiliary_data: Nullable::Null,
    };
    let mtx = MultiEraTx::from_conway(&tx);
    check_sorted(&mtx, [(h[0], x[0]), (h[1], x[1]), (h[2], x[2])]);
    core::mem::forget(mtx);
    core::mem::forget(tx);
}

/// vacuity twin: must come back FAILED (an invalid tx does not produce its outputs)
#[kani::proof]
#[kani::unwind(3)]
#[kani::stub(std::fmt::format, crate::stubs::fmt_format_stub)]
fn c31_v_twin() {
    let c = coins();
    let tx = alonzo::Tx {
        transaction_body: KeepRaw::from(alo_body(c)),
        transaction_witness_set: KeepRaw::from(alonzo_wits()),
        success: kani::any(),
        auxiliary_data: Nullable::Null,
    };
    let mtx = MultiEraTx::from_alonzo_compatible(&tx, pallas_traverse::Era::Alonzo);
    let prod = mtx.produces();
    let n = prod.len();
    core::mem::forget(prod);
    core::mem::forget(mtx);
    core::mem::forget(tx);
    assert!(n == 2, "twin: must fail");
}
