//! C32: slot <-> (epoch, sub-slot) <-> wall-clock for the four well-known networks.
//! fn: pallas_traverse::wellknown::GenesisValues::{mainnet,testnet,preview,preprod}
//! fn: pallas_traverse::wellknown::GenesisValues::{absolute_slot_to_relative,relative_slot_to_absolute,slot_to_wallclock,shelley_start_epoch}
//! fn: pallas_traverse::time::{compute_era_epoch,compute_absolute_slot_within_era,compute_linear_timestamp} (reached through the above)
//! outside: slots >= 2^40 (u64 overflow of slot*slot_length starts at 2^59.7); MultiEraBlock::{epoch,wallclock} (field projection of a decoded header, then the functions above); user-supplied GenesisValues
//! outside: era epoch length in slots = epoch_length / slot_length of the genesis record (21600 Byron slots on mainnet/testnet/preprod, 4320 on preview; Shelley 432000 resp. 86400); that the genesis constants equal the ones of the real networks is trusted
use pallas_traverse::wellknown::GenesisValues;

const MAX: u64 = 1 << 40;

/// symbolic slot < 2^40 (masking keeps the upper 24 bits constant for the bit-blaster)
fn any_slot() -> u64 {
    kani::any::<u64>() & (MAX - 1)
}

fn byron_len(g: &GenesisValues) -> u64 {
    g.byron_epoch_length as u64 / g.byron_slot_length as u64
}
fn shelley_len(g: &GenesisValues) -> u64 {
    g.shelley_epoch_length as u64 / g.shelley_slot_length as u64
}

/// Shelley-and-later slots: the property exactly as stated, plus the closed form of the epoch
macro_rules! shelley_rel {
    ($name:ident, $net:ident) => {
        #[kani::proof]
        #[kani::unwind(2)]
        fn $name() {
            let g = GenesisValues::$net();
            let slot = any_slot();
            kani::assume(slot >= g.shelley_known_slot && slot < MAX);
            let (epoch, sub) = g.absolute_slot_to_relative(slot);
            let len = shelley_len(&g);
            assert!(sub < len, "sub-slot below the Shelley epoch length in slots");
            assert!(g.relative_slot_to_absolute(epoch, sub) == slot, "relative->absolute inverts absolute->relative (Shelley)");
            let era_slot = slot - g.shelley_known_slot;
            let start = g.shelley_known_slot / byron_len(&g); // concrete
            assert!(epoch >= start && (epoch - start) * len + sub == era_slot, "(epoch - Byron epochs) * epoch length + sub-slot = era slot, i.e. Euclidean division of the era slot");
            kani::cover!(sub == len - 1 && epoch > g.shelley_start_epoch() + 1, "last slot of a later Shelley epoch");
            kani::cover!(slot == g.shelley_known_slot, "first Shelley slot");
            core::mem::forget(g);
        }
    };
}
// bound: slot symbolic in [shelley_known_slot, 2^40), network concrete; unwind 2 (no loops)
shelley_rel!(c32_q_mainnet_shelley_rel, mainnet);
shelley_rel!(c32_q_testnet_shelley_rel, testnet);
shelley_rel!(c32_q_preview_shelley_rel, preview);
shelley_rel!(c32_q_preprod_shelley_rel, preprod);

/// Byron slots: the property exactly as stated. FINDING: the sub-slot is `slot % byron_epoch_length`
/// (432000) although a Byron epoch has byron_epoch_length / byron_slot_length = 21600 slots.
macro_rules! byron_rel {
    ($name:ident, $net:ident) => {
        #[kani::proof]
        #[kani::unwind(2)]
        fn $name() {
            let g = GenesisValues::$net();
            let slot = any_slot();
            kani::assume(slot < g.shelley_known_slot && slot < MAX);
            let (epoch, sub) = g.absolute_slot_to_relative(slot);
            kani::cover!(epoch >= 1, "a Byron slot beyond the first epoch");
            assert!(sub < byron_len(&g), "sub-slot below the Byron epoch length in slots");
            assert!(g.relative_slot_to_absolute(epoch, sub) == slot, "relative->absolute inverts absolute->relative (Byron)");
            core::mem::forget(g);
        }
    };
}
// bound: slot symbolic in [0, shelley_known_slot), network concrete (preview has no Byron slots: no instance); unwind 2
byron_rel!(c32_q_mainnet_byron_rel, mainnet);
byron_rel!(c32_q_testnet_byron_rel, testnet);
byron_rel!(c32_q_preprod_byron_rel, preprod);

/// Byron slots, everything the defect isolated in `*_byron_rel` does not touch: the epoch number,
/// the first epoch, and the inverse function on the correct (epoch, sub-slot) pair.
macro_rules! byron_rest {
    ($name:ident, $net:ident) => {
        #[kani::proof]
        #[kani::unwind(2)]
        fn $name() {
            let g = GenesisValues::$net();
            let slot = any_slot();
            kani::assume(slot < g.shelley_known_slot && slot < MAX);
            let len = byron_len(&g);
            let (epoch, sub) = g.absolute_slot_to_relative(slot);
            assert!(epoch * len <= slot && slot - epoch * len < len, "Byron epoch = floor(slot / epoch length in slots)");
            assert!(epoch < g.shelley_start_epoch(), "Byron slots lie in epochs before the Shelley start epoch");
            if slot < len {
                // assumed away elsewhere: slot >= len (sub-slot defect)
                assert!(sub == slot, "first Byron epoch: sub-slot = slot");
                assert!(g.relative_slot_to_absolute(epoch, sub) == slot, "first Byron epoch: round trip");
            }
            assert!(g.relative_slot_to_absolute(epoch, slot - epoch * len) == slot, "relative->absolute on the correct Byron pair");
            kani::cover!(epoch >= 1 && slot - epoch * len == len - 1, "last slot of a later Byron epoch");
            kani::cover!(slot < len, "first Byron epoch");
            core::mem::forget(g);
        }
    };
}
// assume: for Byron slots >= one epoch (slot >= byron_epoch_length / byron_slot_length) the computed sub-slot is not examined here (isolated in c32_q_<net>_byron_rel, which fails); epoch number and inverse function are examined for all Byron slots
// bound: slot symbolic in [0, shelley_known_slot), network concrete; unwind 2
byron_rest!(c32_q_mainnet_byron_rest, mainnet);
byron_rest!(c32_q_testnet_byron_rest, testnet);
byron_rest!(c32_q_preprod_byron_rest, preprod);

/// the inverse direction: every (epoch, sub) with sub < epoch length maps to a slot of that epoch,
/// consecutive pairs map to consecutive slots, and (Shelley) mapping back returns the pair
macro_rules! rel_abs {
    ($name:ident, $net:ident) => {
        #[kani::proof]
        #[kani::unwind(2)]
        fn $name() {
            let g = GenesisValues::$net();
            let epoch = (kani::any::<u32>() & 0xf_ffff) as u64;
            let sub = (kani::any::<u32>() & 0xf_ffff) as u64;
            let start = g.shelley_start_epoch();
            let byron = epoch < start;
            let len = if byron { byron_len(&g) } else { shelley_len(&g) };
            kani::assume(sub < len);
            let slot = g.relative_slot_to_absolute(epoch, sub);
            if byron {
                assert!(slot == epoch * len + sub, "Byron: slot = epoch * length + sub");
                assert!(slot < g.shelley_known_slot, "Byron pair maps to a Byron slot");
            } else {
                assert!(slot == g.shelley_known_slot + (epoch - start) * len + sub, "Shelley: slot = known + (epoch - start) * length + sub");
            }
            let (e2, s2) = g.absolute_slot_to_relative(slot);
            assert!(e2 == epoch, "epoch survives the round trip in both eras");
            assert!(byron || s2 == sub, "absolute->relative inverts relative->absolute (Shelley)");
            kani::cover!(byron && epoch >= 1, "later Byron epoch");
            kani::cover!(!byron && epoch > start, "later Shelley epoch");
            core::mem::forget(g);
        }
    };
}
// bound: epoch symbolic < 2^20, sub-slot symbolic < epoch length (< 2^20) of the era of `epoch`, network concrete; unwind 2
rel_abs!(c32_q_mainnet_rel_abs, mainnet);
rel_abs!(c32_q_testnet_rel_abs, testnet);
rel_abs!(c32_q_preprod_rel_abs, preprod);

/// preview has start epoch 0: the Byron cover cannot be reached, so it gets its own instance
#[kani::proof]
#[kani::unwind(2)]
fn c32_q_preview_rel_abs() {
    let g = GenesisValues::preview();
    let epoch = (kani::any::<u32>() & 0xf_ffff) as u64;
    let sub = (kani::any::<u32>() & 0xf_ffff) as u64;
    let len = shelley_len(&g);
    kani::assume(sub < len);
    assert!(g.shelley_start_epoch() == 0 && g.shelley_known_slot == 0, "preview starts in Shelley");
    let slot = g.relative_slot_to_absolute(epoch, sub);
    assert!(slot == epoch * len + sub, "slot = epoch * length + sub");
    let (e2, s2) = g.absolute_slot_to_relative(slot);
    assert!(e2 == epoch && s2 == sub, "absolute->relative inverts relative->absolute");
    kani::cover!(epoch > 1 && sub == len - 1, "last slot of a later epoch");
    core::mem::forget(g);
}

/// wall clock inside one era: strictly increasing, (s2 - s1) * slot length apart
macro_rules! wc_step {
    ($name:ident, $net:ident) => {
        #[kani::proof]
        #[kani::unwind(2)]
        fn $name() {
            let g = GenesisValues::$net();
            let s1 = any_slot();
            let s2 = any_slot();
            kani::assume(s1 < s2 && s2 < MAX);
            let b1 = s1 < g.shelley_known_slot;
            let b2 = s2 < g.shelley_known_slot;
            kani::assume(b1 == b2);
            let t1 = g.slot_to_wallclock(s1);
            let t2 = g.slot_to_wallclock(s2);
            let len = if b1 { g.byron_slot_length as u64 } else { g.shelley_slot_length as u64 };
            assert!(t1 < t2, "wall clock strictly increasing inside an era");
            assert!(t2 - t1 == (s2 - s1) * len, "wall clock advances by the era's slot length per slot");
            kani::cover!(!b1 && s2 == s1 + 1, "adjacent Shelley slots");
            core::mem::forget(g);
        }
    };
}
// bound: two symbolic slots s1 < s2 < 2^40 of the same era, network concrete; unwind 2
wc_step!(c32_q_mainnet_wc_step, mainnet);
wc_step!(c32_q_testnet_wc_step, testnet);
wc_step!(c32_q_preview_wc_step, preview);
wc_step!(c32_q_preprod_wc_step, preprod);

/// wall clock and epoch across the Shelley boundary
macro_rules! boundary {
    ($name:ident, $net:ident) => {
        #[kani::proof]
        #[kani::unwind(2)]
        fn $name() {
            let g = GenesisValues::$net();
            let k = g.shelley_known_slot;
            let s1 = any_slot();
            let s2 = any_slot();
            kani::assume(s1 < k && k <= s2 && s2 < MAX);
            // epoch side
            let (e_last, _) = g.absolute_slot_to_relative(k - 1);
            let (e_first, sub_first) = g.absolute_slot_to_relative(k);
            assert!(k % byron_len(&g) == 0, "the Shelley era starts on a Byron epoch boundary");
            assert!(e_first == e_last + 1 && sub_first == 0, "first Shelley slot opens the epoch after the last Byron epoch");
            let (e1, _) = g.absolute_slot_to_relative(s1);
            assert!(e1 <= e_last, "Byron slots lie in epochs up to the last Byron epoch");
            let (e2, _) = g.absolute_slot_to_relative(s2);
            assert!(e2 >= e_first, "Shelley slots lie in epochs from the Shelley start epoch on");
            // wall-clock side
            let t_last = g.slot_to_wallclock(k - 1);
            let t_first = g.slot_to_wallclock(k);
            assert!(t_first == t_last + g.byron_slot_length as u64, "wall clock continuous at the Shelley boundary (last Byron slot lasts one Byron slot length)");
            assert!(g.slot_to_wallclock(s1) < g.slot_to_wallclock(s2), "wall clock strictly increasing across the boundary");
            kani::cover!(s1 + 1 < k && s2 > k, "pair straddling the boundary");
            core::mem::forget(g);
        }
    };
}
// bound: symbolic Byron slot s1 and Shelley slot s2 < 2^40, network concrete (preview has no Byron era: see c32_q_preview_origin); unwind 2
boundary!(c32_q_mainnet_boundary, mainnet);
boundary!(c32_q_testnet_boundary, testnet);
boundary!(c32_q_preprod_boundary, preprod);

/// preview: no Byron era, both known points coincide
/// bound: concrete (no symbolic input); unwind 2
#[kani::proof]
#[kani::unwind(2)]
fn c32_q_preview_origin() {
    let g = GenesisValues::preview();
    assert!(g.shelley_known_slot == 0 && g.byron_known_slot == 0, "preview starts in Shelley");
    assert!(g.slot_to_wallclock(0) == g.byron_known_time, "origin wall clock");
    let r = g.absolute_slot_to_relative(0);
    assert!(r.0 == 0 && r.1 == 0, "origin is epoch 0, sub-slot 0");
    kani::cover!(g.shelley_known_time == g.byron_known_time, "known times coincide");
    core::mem::forget(g);
}

/// consecutive slots: the pair either advances by one sub-slot or opens the next epoch at 0
macro_rules! shelley_seq {
    ($name:ident, $net:ident) => {
        #[kani::proof]
        #[kani::unwind(2)]
        fn $name() {
            let g = GenesisValues::$net();
            let s = any_slot();
            kani::assume(s >= g.shelley_known_slot && s + 1 < MAX);
            let (e1, r1) = g.absolute_slot_to_relative(s);
            let (e2, r2) = g.absolute_slot_to_relative(s + 1);
            assert!((e2 == e1 && r2 == r1 + 1) || (e2 == e1 + 1 && r2 == 0 && r1 + 1 == shelley_len(&g)), "successor slot: next sub-slot or first slot of the next epoch");
            kani::cover!(e2 == e1 + 1, "epoch change");
            kani::cover!(e2 == e1, "same epoch");
            core::mem::forget(g);
        }
    };
}
// bound: slot symbolic in [shelley_known_slot, 2^40 - 1), network concrete; unwind 2
shelley_seq!(c32_q_mainnet_shelley_seq, mainnet);
shelley_seq!(c32_q_testnet_shelley_seq, testnet);
shelley_seq!(c32_q_preview_shelley_seq, preview);
shelley_seq!(c32_q_preprod_shelley_seq, preprod);

/// vacuity twin: must come back FAILED
#[kani::proof]
#[kani::unwind(2)]
fn c32_v_twin() {
    let g = GenesisValues::mainnet();
    let slot = any_slot();
    kani::assume(slot >= g.shelley_known_slot && slot < MAX);
    let (_, sub) = g.absolute_slot_to_relative(slot);
    let ok = sub + 1 < shelley_len(&g);
    core::mem::forget(g);
    assert!(ok, "twin: must fail");
}
