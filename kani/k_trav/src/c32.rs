//! C32: slot <-> (epoch, sub-slot) <-> wall-clock for the four well-known networks.
//! fn: pallas_traverse::wellknown::GenesisValues::{mainnet,testnet,preview,preprod}
//! fn: pallas_traverse::wellknown::GenesisValues::{absolute_slot_to_relative,relative_slot_to_absolute,slot_to_wallclock,shelley_start_epoch}
//! fn: pallas_traverse::time::{compute_era_epoch,compute_absolute_slot_within_era,compute_linear_timestamp} (reached through the above)
//! outside: slots >= 2^40 (u64 overflow of slot*slot_length starts at 2^59.7); MultiEraBlock::{epoch,wallclock} (field projection of a decoded header, then the functions above); user-supplied GenesisValues
//! outside: era epoch length in slots = epoch_length / slot_length of the genesis record (21600 Byron slots on mainnet/testnet/preprod, 4320 on preview; Shelley 432000 resp. 86400); that the genesis constants equal the ones of the real networks is trusted
use pallas_traverse::wellknown::GenesisValues;

const MAX: u64 = 1 << 40;

/// symbolic slot < 2^40 (masking keeps the upper 24 bits constant for the bit-blaster)
fn any_slot() -> u64 {
    kani::any::<u64>() & (MAX - 1)
}

fn byron_len(g: &GenesisValues) -> u64 {
    g.byron_epoch_length as u64 / g.byron_slot_length as u64
}
fn shelley_len(g: &GenesisValues) -> u64 {
    g.shelley_epoch_length as u64 / g.shelley_slot_length as u64
}

/// Shelley-and-later slots, first half of the property as stated: sub-slot below the epoch length
macro_rules! shelley_sub {
    ($name:ident, $net:ident) => {
        #[kani::proof]
        #[kani::unwind(2)]
        fn $name() {
            let g = GenesisValues::$net();
            let slot = any_slot();
            kani::assume(slot >= g.shelley_known_slot);
            let (epoch, sub) = g.absolute_slot_to_relative(slot);
            let len = shelley_len(&g);
            assert!(sub < len, "sub-slot below the Shelley epoch length in slots");
            assert!(epoch >= g.shelley_start_epoch(), "Shelley slots lie in epochs from the Shelley start epoch on");
            kani::cover!(sub == len - 1 && slot > (1 << 39), "last slot of a late Shelley epoch");
            kani::cover!(slot == g.shelley_known_slot, "first Shelley slot");
            core::mem::forget(g);
        }
    };
}
// bound: slot symbolic in [shelley_known_slot, 2^40), network concrete; unwind 2 (no loops)
shelley_sub!(c32_q_mainnet_shelley_sub, mainnet);
shelley_sub!(c32_q_testnet_shelley_sub, testnet);
shelley_sub!(c32_q_preview_shelley_sub, preview);
shelley_sub!(c32_q_preprod_shelley_sub, preprod);

/// Shelley-and-later slots, second half: converting back gives the original slot.
/// The quotient (epoch) comes from `/`, the remainder from `%`: two independent divider circuits, so the
/// solver has to prove uniqueness of Euclidean division bit by bit; cost grows ~4x per 2 bits of slot
/// range (measured on mainnet: 2^30 6 s, 2^32 30 s, 2^34 76 s, 2^36 > 800 s). Hence the smaller bounds.
fn shelley_rt<const BITS: u32>(g: GenesisValues) {
    let slot = kani::any::<u64>() & ((1u64 << BITS) - 1);
    kani::assume(slot >= g.shelley_known_slot);
    let (epoch, sub) = g.absolute_slot_to_relative(slot);
    assert!(g.relative_slot_to_absolute(epoch, sub) == slot, "relative->absolute inverts absolute->relative (Shelley)");
    kani::cover!(epoch > g.shelley_start_epoch() + 1 && sub == shelley_len(&g) - 1, "last slot of a later Shelley epoch");
    core::mem::forget(g);
}
macro_rules! shelley_rt {
    ($name:ident, $net:ident, $bits:expr) => {
        #[kani::proof]
        #[kani::unwind(2)]
        fn $name() {
            shelley_rt::<$bits>(GenesisValues::$net());
        }
    };
}
// bound: slot symbolic in [shelley_known_slot, 2^32) (136 years of 1 s slots; mainnet tip in 2026 is < 2^28), network concrete; unwind 2
shelley_rt!(c32_q_mainnet_shelley_rt32, mainnet, 32);
shelley_rt!(c32_q_testnet_shelley_rt32, testnet, 32);
shelley_rt!(c32_q_preview_shelley_rt32, preview, 32);
shelley_rt!(c32_q_preprod_shelley_rt32, preprod, 32);
// bound: slot symbolic in [shelley_known_slot, 2^34), network concrete; unwind 2
shelley_rt!(c32_t_mainnet_shelley_rt34, mainnet, 34);
shelley_rt!(c32_t_testnet_shelley_rt34, testnet, 34);
shelley_rt!(c32_t_preview_shelley_rt34, preview, 34);
shelley_rt!(c32_t_preprod_shelley_rt34, preprod, 34);

/// Shelley-and-later slots: closed form (Euclidean division of the era slot) and successor step
fn shelley_closed<const BITS: u32>(g: GenesisValues) {
    let slot = kani::any::<u64>() & ((1u64 << BITS) - 1);
    kani::assume(slot >= g.shelley_known_slot);
    let (epoch, sub) = g.absolute_slot_to_relative(slot);
    let len = shelley_len(&g);
    let era_slot = slot - g.shelley_known_slot;
    let start = g.shelley_known_slot / byron_len(&g); // concrete
    assert!(epoch >= start && (epoch - start) * len + sub == era_slot, "(epoch - Byron epochs) * epoch length + sub-slot = era slot");
    kani::cover!(epoch > start + 1 && sub == len - 1, "last slot of a later Shelley epoch");
    core::mem::forget(g);
}
fn shelley_seq<const BITS: u32>(g: GenesisValues) {
    let s = kani::any::<u64>() & ((1u64 << BITS) - 1);
    kani::assume(s >= g.shelley_known_slot && s + 1 < (1u64 << BITS));
    let (e1, r1) = g.absolute_slot_to_relative(s);
    let (e2, r2) = g.absolute_slot_to_relative(s + 1);
    assert!((e2 == e1 && r2 == r1 + 1) || (e2 == e1 + 1 && r2 == 0 && r1 + 1 == shelley_len(&g)), "successor slot: next sub-slot or first slot of the next epoch");
    kani::cover!(e2 == e1 + 1, "epoch change");
    kani::cover!(e2 == e1, "same epoch");
    core::mem::forget(g);
}
macro_rules! shelley_more {
    ($name:ident, $f:ident, $net:ident, $bits:expr) => {
        #[kani::proof]
        #[kani::unwind(2)]
        fn $name() {
            $f::<$bits>(GenesisValues::$net());
        }
    };
}
// bound: slot symbolic in [shelley_known_slot, 2^30), network concrete; unwind 2
shelley_more!(c32_t_mainnet_shelley_closed30, shelley_closed, mainnet, 30);
shelley_more!(c32_t_testnet_shelley_closed30, shelley_closed, testnet, 30);
shelley_more!(c32_t_preview_shelley_closed30, shelley_closed, preview, 30);
shelley_more!(c32_t_preprod_shelley_closed30, shelley_closed, preprod, 30);
shelley_more!(c32_t_mainnet_shelley_seq30, shelley_seq, mainnet, 30);
shelley_more!(c32_t_testnet_shelley_seq30, shelley_seq, testnet, 30);
shelley_more!(c32_t_preview_shelley_seq30, shelley_seq, preview, 30);
shelley_more!(c32_t_preprod_shelley_seq30, shelley_seq, preprod, 30);

/// Byron slots: the property exactly as stated. FINDING: the sub-slot is `slot % byron_epoch_length`
/// (432000) although a Byron epoch has byron_epoch_length / byron_slot_length = 21600 slots.
macro_rules! byron_rel {
    ($name:ident, $net:ident) => {
        #[kani::proof]
        #[kani::unwind(2)]
        fn $name() {
            let g = GenesisValues::$net();
            let slot = any_slot();
            kani::assume(slot < g.shelley_known_slot);
            let (epoch, sub) = g.absolute_slot_to_relative(slot);
            assert!(sub < byron_len(&g), "sub-slot below the Byron epoch length in slots");
            assert!(g.relative_slot_to_absolute(epoch, sub) == slot, "relative->absolute inverts absolute->relative (Byron)");
            kani::cover!(epoch >= 1, "a Byron slot beyond the first epoch");
            core::mem::forget(g);
        }
    };
}
// bound: slot symbolic in [0, shelley_known_slot), network concrete (preview has no Byron slots: no instance); unwind 2
byron_rel!(c32_q_mainnet_byron_rel, mainnet);
byron_rel!(c32_q_testnet_byron_rel, testnet);
byron_rel!(c32_q_preprod_byron_rel, preprod);

/// Byron slots, everything the defect isolated in `*_byron_rel` does not touch: the epoch number,
/// the first epoch, and the inverse function on the correct (epoch, sub-slot) pair.
macro_rules! byron_rest {
    ($name:ident, $net:ident) => {
        #[kani::proof]
        #[kani::unwind(2)]
        fn $name() {
            let g = GenesisValues::$net();
            let slot = any_slot();
            kani::assume(slot < g.shelley_known_slot);
            let len = byron_len(&g);
            let (epoch, sub) = g.absolute_slot_to_relative(slot);
            assert!(epoch * len <= slot && slot - epoch * len < len, "Byron epoch = floor(slot / epoch length in slots)");
            assert!(epoch < g.shelley_start_epoch(), "Byron slots lie in epochs before the Shelley start epoch");
            if slot < len {
                // assumed away elsewhere: slot >= len (sub-slot defect)
                assert!(sub == slot, "first Byron epoch: sub-slot = slot");
                assert!(g.relative_slot_to_absolute(epoch, sub) == slot, "first Byron epoch: round trip");
            }
            assert!(g.relative_slot_to_absolute(epoch, slot - epoch * len) == slot, "relative->absolute on the correct Byron pair");
            kani::cover!(epoch >= 1 && slot - epoch * len == len - 1, "last slot of a later Byron epoch");
            kani::cover!(slot < len, "first Byron epoch");
            core::mem::forget(g);
        }
    };
}
// assume: for Byron slots >= one epoch (slot >= byron_epoch_length / byron_slot_length) the computed sub-slot is not examined here (isolated in c32_q_<net>_byron_rel, which fails); epoch number and inverse function are examined for all Byron slots
// bound: slot symbolic in [0, shelley_known_slot), network concrete; unwind 2
byron_rest!(c32_q_mainnet_byron_rest, mainnet);
byron_rest!(c32_q_testnet_byron_rest, testnet);
byron_rest!(c32_q_preprod_byron_rest, preprod);

/// the inverse direction: every (epoch, sub) with sub < epoch length maps to a slot of that epoch,
/// consecutive pairs map to consecutive slots, and (Shelley) mapping back returns the pair
macro_rules! rel_abs {
    ($name:ident, $net:ident) => {
        #[kani::proof]
        #[kani::unwind(2)]
        fn $name() {
            let g = GenesisValues::$net();
            let epoch = (kani::any::<u32>() & 0xfff) as u64;
            let sub = (kani::any::<u32>() & 0xf_ffff) as u64;
            let start = g.shelley_start_epoch();
            let byron = epoch < start;
            let len = if byron { byron_len(&g) } else { shelley_len(&g) };
            kani::assume(sub < len);
            let slot = g.relative_slot_to_absolute(epoch, sub);
            if byron {
                assert!(slot == epoch * len + sub, "Byron: slot = epoch * length + sub");
                assert!(slot < g.shelley_known_slot, "Byron pair maps to a Byron slot");
            } else {
                assert!(slot == g.shelley_known_slot + (epoch - start) * len + sub, "Shelley: slot = known + (epoch - start) * length + sub");
            }
            let (e2, s2) = g.absolute_slot_to_relative(slot);
            assert!(e2 == epoch, "epoch survives the round trip in both eras");
            assert!(byron || s2 == sub, "absolute->relative inverts relative->absolute (Shelley)");
            kani::cover!(byron && epoch >= 1, "later Byron epoch");
            kani::cover!(!byron && epoch > start, "later Shelley epoch");
            core::mem::forget(g);
        }
    };
}
// bound: epoch symbolic < 2^12, sub-slot symbolic < epoch length (< 2^20) of the era of `epoch`, network concrete; unwind 2
rel_abs!(c32_t_mainnet_rel_abs, mainnet);
rel_abs!(c32_t_testnet_rel_abs, testnet);
rel_abs!(c32_t_preprod_rel_abs, preprod);

/// preview has start epoch 0: the Byron cover cannot be reached, so it gets its own instance
#[kani::proof]
#[kani::unwind(2)]
fn c32_t_preview_rel_abs() {
    let g = GenesisValues::preview();
    let epoch = (kani::any::<u32>() & 0xfff) as u64;
    let sub = (kani::any::<u32>() & 0xf_ffff) as u64;
    let len = shelley_len(&g);
    kani::assume(sub < len);
    assert!(g.shelley_start_epoch() == 0 && g.shelley_known_slot == 0, "preview starts in Shelley");
    let slot = g.relative_slot_to_absolute(epoch, sub);
    assert!(slot == epoch * len + sub, "slot = epoch * length + sub");
    let (e2, s2) = g.absolute_slot_to_relative(slot);
    assert!(e2 == epoch && s2 == sub, "absolute->relative inverts relative->absolute");
    kani::cover!(epoch > 1 && sub == len - 1, "last slot of a later epoch");
    core::mem::forget(g);
}

/// wall clock inside one era: strictly increasing, (s2 - s1) * slot length apart
macro_rules! wc_step {
    ($name:ident, $net:ident) => {
        #[kani::proof]
        #[kani::unwind(2)]
        fn $name() {
            let g = GenesisValues::$net();
            let s1 = any_slot();
            let s2 = any_slot();
            kani::assume(s1 < s2);
            let b1 = s1 < g.shelley_known_slot;
            let b2 = s2 < g.shelley_known_slot;
            kani::assume(b1 == b2);
            let t1 = g.slot_to_wallclock(s1);
            let t2 = g.slot_to_wallclock(s2);
            let len = if b1 { g.byron_slot_length as u64 } else { g.shelley_slot_length as u64 };
            assert!(t1 < t2, "wall clock strictly increasing inside an era");
            assert!(t2 - t1 == (s2 - s1) * len, "wall clock advances by the era's slot length per slot");
            kani::cover!(!b1 && s2 == s1 + 1, "adjacent Shelley slots");
            core::mem::forget(g);
        }
    };
}
// assume: both slots in the same era (cross-era pairs: c32_q_<net>_boundary_wc_step / _wc_mono, which fail on testnet)
// bound: two symbolic slots s1 < s2 < 2^40 of the same era, network concrete; unwind 2
wc_step!(c32_q_mainnet_wc_step, mainnet);
wc_step!(c32_q_testnet_wc_step, testnet);
wc_step!(c32_q_preview_wc_step, preview);
wc_step!(c32_q_preprod_wc_step, preprod);

/// epochs across the Shelley boundary
macro_rules! boundary_epoch {
    ($name:ident, $net:ident) => {
        #[kani::proof]
        #[kani::unwind(2)]
        fn $name() {
            let g = GenesisValues::$net();
            let k = g.shelley_known_slot;
            let s1 = any_slot();
            let s2 = any_slot();
            kani::assume(s1 < k && k <= s2);
            let (e_last, _) = g.absolute_slot_to_relative(k - 1);
            let (e_first, sub_first) = g.absolute_slot_to_relative(k);
            assert!(k % byron_len(&g) == 0, "the Shelley era starts on a Byron epoch boundary");
            assert!(e_first == e_last + 1 && sub_first == 0, "first Shelley slot opens the epoch after the last Byron epoch");
            let (e1, _) = g.absolute_slot_to_relative(s1);
            assert!(e1 <= e_last, "Byron slots lie in epochs up to the last Byron epoch");
            let (e2, _) = g.absolute_slot_to_relative(s2);
            assert!(e2 >= e_first, "Shelley slots lie in epochs from the Shelley start epoch on");
            kani::cover!(s1 + 1 < k && s2 > k, "pair straddling the boundary");
            core::mem::forget(g);
        }
    };
}
// bound: symbolic Byron slot s1 and Shelley slot s2 < 2^40, network concrete (preview has no Byron era: see c32_q_preview_origin); unwind 2
boundary_epoch!(c32_q_mainnet_boundary_epoch, mainnet);
boundary_epoch!(c32_q_testnet_boundary_epoch, testnet);
boundary_epoch!(c32_q_preprod_boundary_epoch, preprod);

/// wall clock across the Shelley boundary: the last Byron slot lasts one Byron slot length
macro_rules! boundary_wc_step {
    ($name:ident, $net:ident) => {
        #[kani::proof]
        #[kani::unwind(2)]
        fn $name() {
            let g = GenesisValues::$net();
            let k = g.shelley_known_slot;
            let t_last = g.slot_to_wallclock(k - 1);
            let t_first = g.slot_to_wallclock(k);
            assert!(t_first == t_last + g.byron_slot_length as u64, "wall clock continuous at the Shelley boundary (last Byron slot lasts one Byron slot length)");
            kani::cover!(k > 0, "there is a Byron era");
            core::mem::forget(g);
        }
    };
}
// bound: concrete (the two slots around shelley_known_slot), network concrete; unwind 2
boundary_wc_step!(c32_q_mainnet_boundary_wc_step, mainnet);
boundary_wc_step!(c32_q_testnet_boundary_wc_step, testnet);
boundary_wc_step!(c32_q_preprod_boundary_wc_step, preprod);

/// wall clock across the Shelley boundary: strictly increasing for any Byron/Shelley pair
macro_rules! boundary_wc_mono {
    ($name:ident, $net:ident) => {
        #[kani::proof]
        #[kani::unwind(2)]
        fn $name() {
            let g = GenesisValues::$net();
            let k = g.shelley_known_slot;
            let s1 = any_slot();
            let s2 = any_slot();
            kani::assume(s1 < k && k <= s2);
            assert!(g.slot_to_wallclock(s1) < g.slot_to_wallclock(s2), "wall clock strictly increasing across the boundary");
            kani::cover!(s1 + 1 < k && s2 > k, "pair straddling the boundary");
            core::mem::forget(g);
        }
    };
}
// bound: symbolic Byron slot s1 and Shelley slot s2 < 2^40, network concrete; unwind 2
boundary_wc_mono!(c32_q_mainnet_boundary_wc_mono, mainnet);
boundary_wc_mono!(c32_q_testnet_boundary_wc_mono, testnet);
boundary_wc_mono!(c32_q_preprod_boundary_wc_mono, preprod);

/// preview: no Byron era, both known points coincide
/// bound: concrete (no symbolic input); unwind 2
#[kani::proof]
#[kani::unwind(2)]
fn c32_q_preview_origin() {
    let g = GenesisValues::preview();
    assert!(g.shelley_known_slot == 0 && g.byron_known_slot == 0, "preview starts in Shelley");
    assert!(g.slot_to_wallclock(0) == g.byron_known_time, "origin wall clock");
    let r = g.absolute_slot_to_relative(0);
    assert!(r.0 == 0 && r.1 == 0, "origin is epoch 0, sub-slot 0");
    kani::cover!(g.shelley_known_time == g.byron_known_time, "known times coincide");
    core::mem::forget(g);
}

/// vacuity twin: must come back FAILED
#[kani::proof]
#[kani::unwind(2)]
fn c32_v_twin() {
    let g = GenesisValues::mainnet();
    let slot = any_slot();
    kani::assume(slot >= g.shelley_known_slot);
    let (_, sub) = g.absolute_slot_to_relative(slot);
    let ok = sub + 1 < shelley_len(&g);
    core::mem::forget(g);
    assert!(ok, "twin: must fail");
}
