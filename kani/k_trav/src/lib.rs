#![allow(unused)]
//! Kani harnesses over pallas-traverse (C05, C30, C31, C32; traverse part of C09).
#[cfg(kani)]
mod stubs;
#[cfg(kani)]
mod c32;
#[cfg(kani)]
mod c30;
#[cfg(kani)]
mod xstubs;
#[cfg(kani)]
mod build;
#[cfg(kani)]
mod c05;
#[cfg(kani)]
mod c31;
