//! Stubs specific to the traverse harnesses (the standard set is in stubs.rs).

/// std's UTF-8 validator on symbolic bytes gives no verdict (HARNESS_GUIDE). Over-approximation:
/// any byte string is nondeterministically accepted or rejected; sound for properties that do not
/// depend on *which* strings are valid (panic-freedom, results that ignore text items).
pub fn from_utf8_stub(v: &[u8]) -> Result<&str, core::str::Utf8Error> {
    if kani::any() {
        Ok(unsafe { core::str::from_utf8_unchecked(v) })
    } else {
        const BAD: [u8; 1] = [0xff];
        #[allow(invalid_from_utf8)]
        let e = core::str::from_utf8(&BAD);
        match e {
            Err(e) => Err(e),
            Ok(_) => unreachable!(),
        }
    }
}

/// Recording Blake2b (DESIGN.md 1.1): `input` appends to a 31-byte log, `result` writes the log
/// (zero padded) and the total length into the digest and clears the log. For total input
/// <= outlen - 1 bytes the digest determines the byte stream, so "digests equal" <=> "the same
/// bytes were fed to the hasher". Blake2b itself is C10's business.
///   #[kani::stub(<cryptoxide::blake2b::Blake2b as cryptoxide::digest::Digest>::input, crate::xstubs::rec::input)]
///   #[kani::stub(<cryptoxide::blake2b::Blake2b as cryptoxide::digest::Digest>::result, crate::xstubs::rec::result)]
pub mod rec {
    use cryptoxide::blake2b::Blake2b;
    pub const CAP: usize = 31;
    pub static mut LOG: [u8; CAP] = [0; CAP];
    pub static mut LEN: usize = 0;
    /// number of `result` calls (harnesses assert that hashing happened through the stub)
    pub static mut DIGESTS: usize = 0;

    pub fn input(_h: &mut Blake2b, msg: &[u8]) {
        let mut i = 0;
        while i < msg.len() {
            unsafe {
                if LEN < CAP {
                    LOG[LEN] = msg[i];
                }
                LEN += 1;
            }
            i += 1;
        }
    }

    pub fn result(_h: &mut Blake2b, out: &mut [u8]) {
        let n = out.len();
        let mut i = 0;
        while i < n {
            unsafe {
                out[i] = if i + 1 == n {
                    LEN as u8
                } else if i < CAP {
                    LOG[i]
                } else {
                    0
                };
            }
            i += 1;
        }
        unsafe {
            LOG = [0; CAP];
            LEN = 0;
            DIGESTS += 1;
        }
    }
}
