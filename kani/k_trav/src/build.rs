//! Minimal ledger values built field by field (all fields are pub); never decoded.
use pallas_codec::minicbor::bytes::ByteVec;
use pallas_codec::utils::{Bytes, EmptyMap, KeepRaw, MaybeIndefArray, Nullable, Set};
use pallas_crypto::hash::Hash;
use pallas_primitives::{alonzo, babbage, byron, conway, VrfCert};
use std::collections::BTreeMap;

pub fn bytes0() -> Bytes {
    Bytes::from(Vec::new())
}
pub fn h32(b: u8) -> Hash<32> {
    Hash::new([b; 32])
}
pub fn h28(b: u8) -> Hash<28> {
    Hash::new([b; 28])
}

pub fn alonzo_body(fee: u64) -> alonzo::TransactionBody {
    alonzo::TransactionBody {
        inputs: Vec::new(),
        outputs: Vec::new(),
        fee,
        ttl: None,
        certificates: None,
        withdrawals: None,
        update: None,
        auxiliary_data_hash: None,
        validity_interval_start: None,
        mint: None,
        script_data_hash: None,
        collateral: None,
        required_signers: None,
        network_id: None,
    }
}

pub fn babbage_body<'b>(fee: u64) -> babbage::TransactionBody<'b> {
    babbage::TransactionBody {
        inputs: Vec::new(),
        outputs: Vec::new(),
        fee,
        ttl: None,
        certificates: None,
        withdrawals: None,
        update: None,
        auxiliary_data_hash: None,
        validity_interval_start: None,
        mint: None,
        script_data_hash: None,
        collateral: None,
        required_signers: None,
        network_id: None,
        collateral_return: None,
        total_collateral: None,
        reference_inputs: None,
    }
}

pub fn conway_body<'b>(fee: u64) -> conway::TransactionBody<'b> {
    conway::TransactionBody {
        inputs: Set::from(Vec::new()),
        outputs: Vec::new(),
        fee,
        ttl: None,
        certificates: None,
        withdrawals: None,
        auxiliary_data_hash: None,
        validity_interval_start: None,
        mint: None,
        script_data_hash: None,
        collateral: None,
        required_signers: None,
        network_id: None,
        collateral_return: None,
        total_collateral: None,
        reference_inputs: None,
        voting_procedures: None,
        proposal_procedures: None,
        treasury_value: None,
        donation: None,
    }
}

pub fn alonzo_wits<'b>() -> alonzo::WitnessSet<'b> {
    alonzo::WitnessSet {
        vkeywitness: None,
        native_script: None,
        bootstrap_witness: None,
        plutus_script: None,
        plutus_data: None,
        redeemer: None,
    }
}

pub fn babbage_wits<'b>() -> babbage::WitnessSet<'b> {
    babbage::WitnessSet {
        vkeywitness: None,
        native_script: None,
        bootstrap_witness: None,
        plutus_v1_script: None,
        plutus_data: None,
        redeemer: None,
        plutus_v2_script: None,
    }
}

pub fn conway_wits<'b>() -> conway::WitnessSet<'b> {
    conway::WitnessSet {
        vkeywitness: None,
        native_script: None,
        bootstrap_witness: None,
        plutus_v1_script: None,
        plutus_data: None,
        redeemer: None,
        plutus_v2_script: None,
        plutus_v3_script: None,
    }
}

pub fn alonzo_header(slot: u64) -> alonzo::Header {
    alonzo::Header {
        header_body: alonzo::HeaderBody {
            block_number: 0,
            slot,
            prev_hash: None,
            issuer_vkey: bytes0(),
            vrf_vkey: bytes0(),
            nonce_vrf: VrfCert(bytes0(), bytes0()),
            leader_vrf: VrfCert(bytes0(), bytes0()),
            block_body_size: 0,
            block_body_hash: h32(0),
            operational_cert_hot_vkey: bytes0(),
            operational_cert_sequence_number: 0,
            operational_cert_kes_period: 0,
            operational_cert_sigma: bytes0(),
            protocol_major: 0,
            protocol_minor: 0,
        },
        body_signature: bytes0(),
    }
}

pub fn babbage_header(slot: u64) -> babbage::Header {
    babbage::Header {
        header_body: babbage::HeaderBody {
            block_number: 0,
            slot,
            prev_hash: None,
            issuer_vkey: bytes0(),
            vrf_vkey: bytes0(),
            vrf_result: VrfCert(bytes0(), bytes0()),
            block_body_size: 0,
            block_body_hash: h32(0),
            operational_cert: babbage::OperationalCert {
                operational_cert_hot_vkey: bytes0(),
                operational_cert_sequence_number: 0,
                operational_cert_kes_period: 0,
                operational_cert_sigma: bytes0(),
            },
            protocol_version: (0, 0),
        },
        body_signature: bytes0(),
    }
}

pub fn ebb_head(epoch: u64) -> byron::EbbHead {
    byron::EbbHead {
        protocol_magic: 0,
        prev_block: h32(0),
        body_proof: h32(0),
        consensus_data: byron::EbbCons {
            epoch_id: epoch,
            difficulty: MaybeIndefArray::Def(Vec::new()),
        },
        extra_data: (EmptyMap,),
    }
}

pub fn byron_head(epoch: u64) -> byron::BlockHead {
    byron::BlockHead {
        protocol_magic: 0,
        prev_block: h32(0),
        body_proof: byron::BlockProof {
            tx_proof: (0, h32(0), h32(0)),
            ssc_proof: byron::SscProof::Variant3(h32(0)),
            dlg_proof: h32(0),
            upd_proof: h32(0),
        },
        consensus_data: byron::BlockCons(
            byron::SlotId { epoch, slot: 0 },
            ByteVec::from(Vec::new()),
            MaybeIndefArray::Def(Vec::new()),
            byron::BlockSig::Signature(ByteVec::from(Vec::new())),
        ),
        extra_data: byron::BlockHeadEx {
            block_version: (0, 0, 0),
            software_version: (String::new(), 0),
            attributes: None,
            extra_proof: h32(0),
        },
    }
}

pub fn byron_tx() -> byron::Tx {
    byron::Tx {
        inputs: MaybeIndefArray::Def(Vec::new()),
        outputs: MaybeIndefArray::Def(Vec::new()),
        attributes: EmptyMap,
    }
}
