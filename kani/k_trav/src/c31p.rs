use crate::build::*;
use pallas_codec::utils::{KeepRaw, Nullable, Set};
use pallas_primitives::{alonzo, babbage, conway};
use pallas_traverse::{MultiEraInput, MultiEraOutput, MultiEraTx};
fn bab_out<'b>(coin: u64) -> babbage::TransactionOutput<'b> {
    babbage::TransactionOutput::PostAlonzo(KeepRaw::from(babbage::PostAlonzoTransactionOutput {
        address: bytes0(),
        value: babbage::Value::Coin(coin),
        datum_option: None,
        script_ref: None,
    }))
}

fn body_with<'b>(outputs: Vec<KeepRaw<'b, babbage::TransactionOutput<'b>>>, ret: Option<KeepRaw<'b, babbage::TransactionOutput<'b>>>) -> babbage::TransactionBody<'b> {
    babbage::TransactionBody {
        inputs: Vec::new(), outputs, fee: 0, ttl: None, certificates: None, withdrawals: None, update: None,
        auxiliary_data_hash: None, validity_interval_start: None, mint: None, script_data_hash: None, collateral: None,
        required_signers: None, network_id: None, collateral_return: ret, total_collateral: None, reference_inputs: None,
    }
}
#[kani::proof]
#[kani::unwind(3)]
#[kani::stub(std::fmt::format, crate::stubs::fmt_format_stub)]
fn p31_a_outs_ret() {
    let body = body_with(vec![KeepRaw::from(bab_out(1)), KeepRaw::from(bab_out(2))], Some(KeepRaw::from(bab_out(3))));
    let tx = babbage::Tx {
        transaction_body: KeepRaw::from(body),
        transaction_witness_set: KeepRaw::from(babbage_wits()),
        success: true,
        auxiliary_data: Nullable::Null,
    };
    let mtx = MultiEraTx::from_babbage(&tx);
    let prod = mtx.outputs();
    let n = prod.len();
    core::mem::forget(prod);
    assert!(n == 2);
    core::mem::forget(mtx);
    core::mem::forget(tx);
}
#[kani::proof]
#[kani::unwind(3)]
#[kani::stub(std::fmt::format, crate::stubs::fmt_format_stub)]
fn p31_b_oat_noret() {
    let body = body_with(vec![KeepRaw::from(bab_out(1)), KeepRaw::from(bab_out(2))], None);
    let tx = babbage::Tx {
        transaction_body: KeepRaw::from(body),
        transaction_witness_set: KeepRaw::from(babbage_wits()),
        success: true,
        auxiliary_data: Nullable::Null,
    };
    let mtx = MultiEraTx::from_babbage(&tx);
    let idx: usize = kani::any();
    let p = mtx.output_at(idx);
    let s = p.is_some();
    core::mem::forget(p);
    kani::cover!(s);
    core::mem::forget(mtx);
    core::mem::forget(tx);
}
#[kani::proof]
#[kani::unwind(3)]
#[kani::stub(std::fmt::format, crate::stubs::fmt_format_stub)]
fn p31_c_cr() {
    let body = body_with(vec![KeepRaw::from(bab_out(1)), KeepRaw::from(bab_out(2))], Some(KeepRaw::from(bab_out(3))));
    let tx = babbage::Tx {
        transaction_body: KeepRaw::from(body),
        transaction_witness_set: KeepRaw::from(babbage_wits()),
        success: true,
        auxiliary_data: Nullable::Null,
    };
    let mtx = MultiEraTx::from_babbage(&tx);
    let p = mtx.collateral_return();
    let s = p.is_some();
    core::mem::forget(p);
    assert!(s);
    core::mem::forget(mtx);
    core::mem::forget(tx);
}
#[kani::proof]
#[kani::unwind(3)]
#[kani::stub(std::fmt::format, crate::stubs::fmt_format_stub)]
fn p31_d_pat_true_noret() {
    let body = body_with(vec![KeepRaw::from(bab_out(1)), KeepRaw::from(bab_out(2))], None);
    let tx = babbage::Tx {
        transaction_body: KeepRaw::from(body),
        transaction_witness_set: KeepRaw::from(babbage_wits()),
        success: true,
        auxiliary_data: Nullable::Null,
    };
    let mtx = MultiEraTx::from_babbage(&tx);
    let idx: usize = kani::any();
    let p = mtx.produces_at(idx);
    let s = p.is_some();
    core::mem::forget(p);
    kani::cover!(s);
    core::mem::forget(mtx);
    core::mem::forget(tx);
}
