//! C30: block traversal: era probe, tx count, per-index tx assembly.
//! fn: pallas_traverse::probe::block_era
//! fn: pallas_traverse::MultiEraBlock::{era,tx_count,is_empty,has_aux_data}
//! stub: minicbor::decode::Tokenizer::{new, next} -> 40-line CBOR head model in c30.rs (mod model): Array(n) / U8 / U16 heads exact for 1-3 byte heads, every other item abstracted to "some other token or an error"; anchored by c30_q_era_real_tokens on the real tokenizer (one token, concrete input)
//! outside: the per-index tx assembly (`clone_tx_fn!` instances, MultiEraBlock::txs): not attempted beyond the design probe (txs() on a heap-held block: no verdict in 600-900 s); the `*_clone_tx_at` hook route of DESIGN.md C30 step (1) was not built -- every C31 experiment that reads ledger values back from a Vec on the heap ended without verdict (see c31.rs), and clone_tx_at does exactly that (`transaction_bodies.get(i).cloned()`). So "i-th tx = i-th body / witness set / aux entry, is_valid iff i not in invalid_transactions" is NOT claimed
//! outside: decoding real blocks (MultiEraBlock::decode beyond the wrapper probe), auxiliary-data maps with >= 1 entry
//! outside: block_era oracle = CBOR data model restricted to what minicbor's Tokenizer calls Array(2) and U8: array head of any width with length 2, then an unsigned integer in its 1- or 2-byte form; wider (non-canonical) integer heads for the era tag are reported Inconclusive by design and are accepted as such
use pallas_traverse::probe::{block_era, Outcome};
use pallas_traverse::Era;
use std::panic::catch_unwind as cu;

/// 0 = Inconclusive, 1 = EpochBoundary, 2.. = Matched(era)
fn code(o: &Outcome) -> u8 {
    match o {
        Outcome::Inconclusive => 0,
        Outcome::EpochBoundary => 1,
        Outcome::Matched(Era::Byron) => 2,
        Outcome::Matched(Era::Shelley) => 3,
        Outcome::Matched(Era::Allegra) => 4,
        Outcome::Matched(Era::Mary) => 5,
        Outcome::Matched(Era::Alonzo) => 6,
        Outcome::Matched(Era::Babbage) => 7,
        Outcome::Matched(Era::Conway) => 8,
        _ => 255,
    }
}

/// the tag table of the block wrapper `[tag, block]` (node-to-node / on-disk convention)
fn oracle(b: &[u8; 4], n: usize) -> u8 {
    // array(2) head
    let off = if n >= 1 && b[0] == 0x82 {
        1
    } else if n >= 2 && b[0] == 0x98 && b[1] == 2 {
        2
    } else if n >= 3 && b[0] == 0x99 && b[1] == 0 && b[2] == 2 {
        3
    } else {
        return 0;
    };
    if n <= off {
        return 0;
    }
    let v = if b[off] <= 0x17 {
        b[off]
    } else if b[off] == 0x18 && n > off + 1 {
        b[off + 1]
    } else {
        return 0;
    };
    if v <= 7 {
        v + 1
    } else {
        0
    }
}

/// Model of minicbor's Tokenizer (see `stub:`): the real one is not symbolically executable beyond one
/// token (measured: two `next()` calls on a *concrete* 3-byte input: no verdict in 150 s; one call with a
/// symbolic first byte: no verdict in 150 s). State lives in statics because Tokenizer's fields are private.
mod model {
    use pallas_codec::minicbor::{self, data::Token, decode::Error, decode::Tokenizer};
    pub static mut BUF: [u8; 4] = [0; 4];
    pub static mut LEN: usize = 0;
    pub static mut POS: usize = 0;

    pub fn new_stub<'a, 'b>(bytes: &'b [u8]) -> Tokenizer<'a, 'b>
    where
        'a: 'a,
        'b: 'b,
    {
        unsafe {
            let mut i = 0;
            while i < 4 {
                if i < bytes.len() {
                    BUF[i] = bytes[i];
                }
                i += 1;
            }
            LEN = bytes.len();
            POS = 0;
        }
        Tokenizer::from(minicbor::Decoder::new(bytes))
    }

    /// CBOR head at POS: (major type, argument) for definite heads of width 0/1/2 bytes; wider heads,
    /// indefinite heads and reserved values are abstracted (None)
    fn head() -> Option<(u8, u64)> {
        unsafe {
            let b = BUF[POS];
            let mt = b >> 5;
            let ai = b & 0x1f;
            if ai < 24 {
                POS += 1;
                Some((mt, ai as u64))
            } else if ai == 24 {
                if POS + 1 < LEN {
                    let v = BUF[POS + 1] as u64;
                    POS += 2;
                    Some((mt, v))
                } else {
                    POS = LEN;
                    None
                }
            } else if ai == 25 {
                if POS + 2 < LEN {
                    let v = ((BUF[POS + 1] as u64) << 8) | BUF[POS + 2] as u64;
                    POS += 3;
                    Some((mt, v))
                } else {
                    POS = LEN;
                    None
                }
            } else {
                // 4/8-byte arguments cannot be followed by anything within 4 bytes; indefinite / reserved
                POS = LEN;
                None
            }
        }
    }

    pub fn next_stub<'a, 'b>(_t: &mut Tokenizer<'a, 'b>) -> Option<Result<Token<'b>, Error>>
    where
        'a: 'a,
        'b: 'b,
    {
        unsafe {
            if POS >= LEN {
                return None;
            }
            let b0 = BUF[POS];
            match head() {
                Some((4, n)) => Some(Ok(Token::Array(n))),
                // minicbor: 0x00..=0x18 is U8; 0x19 is U16 even when the value fits a byte
                Some((0, v)) if b0 <= 0x18 => Some(Ok(Token::U8(v as u8))),
                Some((0, v)) => Some(Ok(Token::U16(v as u16))),
                // every other item: abstracted to "some token that is neither Array nor U8" or an error
                _ => {
                    if kani::any() {
                        Some(Ok(Token::Null))
                    } else {
                        Some(Err(Error::message("abstracted")))
                    }
                }
            }
        }
    }
}

/// bound: 0..=4 arbitrary bytes (length symbolic); unwind 6
#[kani::proof]
#[kani::unwind(6)]
#[kani::stub(std::fmt::format, crate::stubs::fmt_format_stub)]
#[kani::stub(pallas_codec::minicbor::decode::Tokenizer::new, model::new_stub)]
#[kani::stub(<pallas_codec::minicbor::decode::Tokenizer as std::iter::Iterator>::next, model::next_stub)]
fn c30_q_era_table() {
    let b: [u8; 4] = kani::any();
    let n: usize = kani::any();
    kani::assume(n <= 4);
    let o = block_era(&b[..n]);
    let c = code(&o);
    assert!(c == oracle(&b, n), "probe result equals the wrapper tag table");
    kani::cover!(c == 1, "epoch boundary");
    kani::cover!(c == 2, "byron");
    kani::cover!(c == 3, "shelley");
    kani::cover!(c == 4, "allegra");
    kani::cover!(c == 5, "mary");
    kani::cover!(c == 6, "alonzo");
    kani::cover!(c == 7, "babbage");
    kani::cover!(c == 8 && b[0] == 0x98, "conway behind a 2-byte array head");
    kani::cover!(c == 8 && b[0] == 0x99, "conway behind a 3-byte array head");
    kani::cover!(c == 8 && b[1] == 0x18, "conway with a 2-byte tag");
    kani::cover!(c == 0 && n >= 2 && b[0] == 0x82 && b[1] == 8, "tag 8 is unknown");
    kani::cover!(c == 0 && n == 4 && b[0] == 0x82 && b[1] == 0x19, "3-byte tag form is inconclusive");
    kani::cover!(c == 0 && n == 0, "empty input");
    core::mem::forget(o);
}

/// the real minicbor Tokenizer, one token, concrete inputs: anchors the model's two relevant rows
/// bound: concrete inputs `82`, `98 02`, `07`, `18 07` (one token each); unwind 6
#[kani::proof]
#[kani::unwind(6)]
#[kani::stub(std::fmt::format, crate::stubs::fmt_format_stub)]
fn c30_q_era_real_tokens() {
    use pallas_codec::minicbor::{data::Token, decode::Tokenizer};
    let b1 = [0x82u8];
    let r = Tokenizer::new(&b1).next();
    let ok1 = matches!(r, Some(Ok(Token::Array(2))));
    core::mem::forget(r);
    let b2 = [0x98u8, 2];
    let r = Tokenizer::new(&b2).next();
    let ok2 = matches!(r, Some(Ok(Token::Array(2))));
    core::mem::forget(r);
    let b3 = [0x07u8];
    let r = Tokenizer::new(&b3).next();
    let ok3 = matches!(r, Some(Ok(Token::U8(7))));
    core::mem::forget(r);
    let b4 = [0x18u8, 7];
    let r = Tokenizer::new(&b4).next();
    let ok4 = matches!(r, Some(Ok(Token::U8(7))));
    core::mem::forget(r);
    kani::cover!(ok1, "reached");
    assert!(ok1 && ok2 && ok3 && ok4, "real tokenizer agrees with the model on array(2) and u8 heads");
}

// ---- MultiEraBlock::{era, tx_count, is_empty, has_aux_data} on blocks built in the harness

macro_rules! block_counts {
    ($name:ident, $era:ident, $variant:expr, $expect_era:expr, $header:expr, $body:expr, $wits:expr) => {
        #[kani::proof]
        #[kani::unwind(4)]
        #[kani::stub(std::fmt::format, crate::stubs::fmt_format_stub)]
        fn $name() {
            use pallas_codec::utils::KeepRaw;
            let two: bool = kani::any();
            let bodies = if two { vec![KeepRaw::from($body), KeepRaw::from($body)] } else { Vec::new() };
            let wits = if two { vec![KeepRaw::from($wits), KeepRaw::from($wits)] } else { Vec::new() };
            let b = pallas_primitives::$era::Block {
                header: KeepRaw::from($header),
                transaction_bodies: bodies,
                transaction_witness_sets: wits,
                auxiliary_data_set: std::collections::BTreeMap::new(),
                invalid_transactions: None,
            };
            let mb = $variant(Box::new(b));
            let n = mb.tx_count();
            let e = mb.era();
            let empty = mb.is_empty();
            let aux = mb.has_aux_data();
            core::mem::forget(mb);
            kani::cover!(two, "two transactions");
            kani::cover!(!two, "no transactions");
            assert!(n == if two { 2 } else { 0 }, "tx_count is the number of bodies");
            assert!(empty == !two, "is_empty iff there is no body");
            assert!(e == $expect_era, "era() is the era of the block variant");
            assert!(!aux, "no auxiliary data");
        }
    };
}
// bound: block built in the harness with 0 or 2 (symbolic choice) minimal bodies / witness sets, no aux data, no invalid list; unwind 4
block_counts!(c30_q_counts_conway, conway, pallas_traverse::MultiEraBlock::Conway, Era::Conway, crate::build::babbage_header(0), crate::build::conway_body(0), crate::build::conway_wits());
block_counts!(c30_q_counts_babbage, babbage, pallas_traverse::MultiEraBlock::Babbage, Era::Babbage, crate::build::babbage_header(0), crate::build::babbage_body(0), crate::build::babbage_wits());
block_counts!(c30_q_counts_alonzo, alonzo, (|b| pallas_traverse::MultiEraBlock::AlonzoCompatible(b, Era::Mary)), Era::Mary, crate::build::alonzo_header(0), crate::build::alonzo_body(0), crate::build::alonzo_wits());

/// vacuity twin: must come back FAILED
#[kani::proof]
#[kani::unwind(6)]
#[kani::stub(std::fmt::format, crate::stubs::fmt_format_stub)]
#[kani::stub(pallas_codec::minicbor::decode::Tokenizer::new, model::new_stub)]
#[kani::stub(<pallas_codec::minicbor::decode::Tokenizer as std::iter::Iterator>::next, model::next_stub)]
fn c30_v_twin() {
    let b: [u8; 4] = kani::any();
    let o = block_era(&b[..2]);
    let c = code(&o);
    core::mem::forget(o);
    assert!(c != 8, "twin: must fail");
}
