//! C30: block traversal: era probe, tx count, per-index tx assembly.
//! fn: pallas_traverse::probe::block_era
//! fn: pallas_traverse::MultiEraBlock::{era,tx_count,is_empty,has_aux_data}
//! outside: decoding real blocks (MultiEraBlock::decode beyond the wrapper probe), auxiliary-data maps with >= 2 entries
//! outside: block_era oracle = CBOR data model restricted to what minicbor's Tokenizer calls Array(2) and U8: array head of any width with length 2, then an unsigned integer in its 1- or 2-byte form; wider (non-canonical) integer heads for the era tag are reported Inconclusive by design and are accepted as such
use pallas_traverse::probe::{block_era, Outcome};
use pallas_traverse::Era;
use std::panic::catch_unwind as cu;

/// 0 = Inconclusive, 1 = EpochBoundary, 2.. = Matched(era)
fn code(o: &Outcome) -> u8 {
    match o {
        Outcome::Inconclusive => 0,
        Outcome::EpochBoundary => 1,
        Outcome::Matched(Era::Byron) => 2,
        Outcome::Matched(Era::Shelley) => 3,
        Outcome::Matched(Era::Allegra) => 4,
        Outcome::Matched(Era::Mary) => 5,
        Outcome::Matched(Era::Alonzo) => 6,
        Outcome::Matched(Era::Babbage) => 7,
        Outcome::Matched(Era::Conway) => 8,
        _ => 255,
    }
}

/// the tag table of the block wrapper `[tag, block]` (node-to-node / on-disk convention)
fn oracle(b: &[u8; 4], n: usize) -> u8 {
    // array(2) head
    let off = if n >= 1 && b[0] == 0x82 {
        1
    } else if n >= 2 && b[0] == 0x98 && b[1] == 2 {
        2
    } else if n >= 3 && b[0] == 0x99 && b[1] == 0 && b[2] == 2 {
        3
    } else {
        return 0;
    };
    if n <= off {
        return 0;
    }
    let v = if b[off] <= 0x17 {
        b[off]
    } else if b[off] == 0x18 && n > off + 1 {
        b[off + 1]
    } else {
        return 0;
    };
    if v <= 7 {
        v + 1
    } else {
        0
    }
}

macro_rules! era_probe {
    ($name:ident, $lo:expr, $hi:expr) => {
        #[kani::proof]
        #[kani::unwind(6)]
        #[kani::stub(std::fmt::format, crate::stubs::fmt_format_stub)]
        fn $name() {
            let b: [u8; 4] = kani::any();
            let n: usize = kani::any();
            kani::assume(n <= 4);
            kani::assume(n == 0 || (b[0] >= $lo && b[0] <= $hi));
            let o = block_era(&b[..n]);
            let c = code(&o);
            assert!(c == oracle(&b, n), "probe result equals the wrapper tag table");
            kani::cover!(n == 4, "four bytes");
            core::mem::forget(o);
        }
    };
}
// bound: 0..=4 arbitrary bytes (length symbolic), first byte restricted to one CBOR major type per harness (union = all bytes); unwind 6
era_probe!(c30_q_era_mt0_uint, 0x00, 0x1f);
era_probe!(c30_q_era_mt1_nint, 0x20, 0x3f);
era_probe!(c30_q_era_mt2_bytes, 0x40, 0x5f);
era_probe!(c30_q_era_mt5_map, 0xa0, 0xbf);
era_probe!(c30_q_era_mt6_tag, 0xc0, 0xdf);
era_probe!(c30_q_era_mt7_simple, 0xe0, 0xff);

/// first byte = array head: the only class with non-trivial outcomes; every table row is witnessed
/// bound: 0..=4 arbitrary bytes (length symbolic), first byte in 0x80..=0x9f; unwind 6
#[kani::proof]
#[kani::unwind(6)]
#[kani::stub(std::fmt::format, crate::stubs::fmt_format_stub)]
fn c30_q_era_mt4_array() {
    let b: [u8; 4] = kani::any();
    let n: usize = kani::any();
    kani::assume(n <= 4);
    kani::assume(n == 0 || (b[0] >= 0x80 && b[0] <= 0x9f));
    // text strings as the *second* item go through std's UTF-8 validator: see c30_q_era_second_text
    kani::assume(!(n >= 2 && b[0] == 0x82 && b[1] >= 0x60 && b[1] <= 0x7f));
    kani::assume(!(n >= 3 && b[0] == 0x98 && b[1] == 2 && b[2] >= 0x60 && b[2] <= 0x7f));
    kani::assume(!(n >= 4 && b[0] == 0x99 && b[1] == 0 && b[2] == 2 && b[3] >= 0x60 && b[3] <= 0x7f));
    let o = block_era(&b[..n]);
    let c = code(&o);
    assert!(c == oracle(&b, n), "probe result equals the wrapper tag table");
    kani::cover!(c == 1, "epoch boundary");
    kani::cover!(c == 2, "byron");
    kani::cover!(c == 3, "shelley");
    kani::cover!(c == 4, "allegra");
    kani::cover!(c == 5, "mary");
    kani::cover!(c == 6, "alonzo");
    kani::cover!(c == 7, "babbage");
    kani::cover!(c == 8 && b[0] == 0x98, "conway behind a 2-byte array head");
    kani::cover!(c == 8 && b[1] == 0x18, "conway with a 2-byte tag");
    kani::cover!(c == 0 && n >= 2 && b[0] == 0x82 && b[1] == 8, "tag 8 is unknown");
    core::mem::forget(o);
}

/// text string as first item
/// bound: 0..=4 arbitrary bytes, first byte in 0x60..=0x7f (text: std UTF-8 validation of <= 3 payload bytes); unwind 6
#[kani::proof]
#[kani::unwind(6)]
#[kani::stub(std::fmt::format, crate::stubs::fmt_format_stub)]
fn c30_q_era_mt3_text() {
    let b: [u8; 4] = kani::any();
    let n: usize = kani::any();
    kani::assume(n >= 1 && n <= 4);
    kani::assume(b[0] >= 0x60 && b[0] <= 0x7f);
    let o = block_era(&b[..n]);
    assert!(code(&o) == 0, "a text string is never a block wrapper");
    kani::cover!(n == 4 && b[0] == 0x63, "3-byte text");
    core::mem::forget(o);
}

/// text string as second item of a 2-array (std UTF-8 validation on the payload)
macro_rules! second_text {
    ($name:ident, $off:expr, $h0:expr, $h1:expr, $h2:expr) => {
        #[kani::proof]
        #[kani::unwind(6)]
        #[kani::stub(std::fmt::format, crate::stubs::fmt_format_stub)]
        fn $name() {
            let mut b: [u8; 4] = kani::any();
            let n: usize = kani::any();
            kani::assume(n >= $off + 1 && n <= 4);
            b[0] = $h0;
            if $off >= 2 {
                b[1] = $h1;
            }
            if $off >= 3 {
                b[2] = $h2;
            }
            kani::assume(b[$off] >= 0x60 && b[$off] <= 0x7f);
            let o = block_era(&b[..n]);
            assert!(code(&o) == 0, "a text string is never an era tag");
            kani::cover!(n == 4, "four bytes");
            core::mem::forget(o);
        }
    };
}
// bound: array(2) head concrete per harness (82 / 98 02 / 99 00 02), then a text-string head 0x60..=0x7f and arbitrary payload up to 4 bytes in total; unwind 6
second_text!(c30_q_era_second_text_82, 1, 0x82, 0, 0);
second_text!(c30_q_era_second_text_98, 2, 0x98, 2, 0);
second_text!(c30_q_era_second_text_99, 3, 0x99, 0, 2);

/// vacuity twin: must come back FAILED
#[kani::proof]
#[kani::unwind(6)]
#[kani::stub(std::fmt::format, crate::stubs::fmt_format_stub)]
fn c30_v_twin() {
    let b: [u8; 4] = kani::any();
    let o = block_era(&b[..2]);
    let c = code(&o);
    core::mem::forget(o);
    assert!(c != 8, "twin: must fail");
}
