//! C05: identity hashes are taken over the kept wire bytes (dispatch level, L2 of DESIGN.md C05).
//! fn: pallas_traverse::OriginalHash::original_hash for KeepRaw<byron::EbbHead>, KeepRaw<byron::BlockHead>, KeepRaw<byron::Tx>, KeepRaw<alonzo::Header>, KeepRaw<babbage::Header>, KeepRaw<alonzo::NativeScript>, KeepRaw<alonzo::PlutusData>, KeepRaw<alonzo::TransactionBody>, KeepRaw<babbage::TransactionBody>, KeepRaw<conway::TransactionBody>
//! fn: pallas_traverse::ComputeHash::compute_hash for alonzo::PlutusScript<1|2|3>, babbage::DatumOption::Hash
//! fn: pallas_traverse::MultiEraTx::hash (4 variants), MultiEraHeader::hash (ShelleyCompatible, BabbageCompatible), MultiEraBlock::hash (alonzo, babbage, conway)
//! fn: pallas_crypto::hash::Hasher::<224|256>::{hash,hash_tagged,hash_cbor} (real code, down to the Blake2b calls), KeepRaw::{raw_cbor,encode}
//! stub: <cryptoxide::blake2b::Blake2b as Digest>::{input,result} -> recording model (xstubs::rec): digest = the bytes fed (zero padded) and their count; injective for <= 27 / 31 bytes, so equal digests <=> equal byte streams
//! stub: minicbor::encode::Error::write -> Error::message (standard set)
//! assume: raw non-empty for the two Byron header impls (they go through KeepRaw::encode, which re-encodes the inner value when raw is empty; a decoded KeepRaw never has empty raw since every CBOR item has >= 1 byte)
//! outside: L1 (KeepRaw::decode stores exactly the consumed slice) is C03(c); decoding era bodies from symbolic bytes; real Blake2b (C10); raw longer than 24 bytes (the hashers are length-agnostic loops)
//! outside: MultiEraHeader::hash / MultiEraBlock::hash for the EpochBoundary and Byron variants (one-line dispatch to the two Byron OriginalHash impls, which are decided directly in c05_q_orig_{ebb,byron}_head; behind Cow / Box the dispatch gave no verdict in 700 s because KeepRaw::encode's `raw.is_empty()` test is then read back from the heap and the re-encoding of the whole header stays in the formula)
//! outside: babbage::DatumOption::compute_hash on an *inline* datum: by reading it reaches PlutusData::compute_hash through two Derefs (CborWrap -> KeepRaw -> PlutusData) and hashes a re-encoding instead of the kept bytes; a harness for it gave no verdict in 700 s (PlutusData's recursive encoder)
use crate::build::*;
use crate::xstubs::rec;
use pallas_codec::utils::{Bytes, CborWrap, KeepRaw, MaybeIndefArray, Nullable};
use pallas_crypto::hash::{Hash, Hasher};
use pallas_primitives::{alonzo, babbage, byron, conway, PlutusScript};
use pallas_traverse::{ComputeHash, Era, MultiEraBlock, MultiEraHeader, MultiEraTx, OriginalHash};
use std::borrow::Cow;
use std::collections::BTreeMap;

/// quick bound on the raw length (thorough instances use 24)
const N: usize = 12;
const NMAX: usize = 24;

fn raw_any_n<const N: usize>(min: usize) -> ([u8; N], usize) {
    let b: [u8; N] = kani::any();
    let n: usize = kani::any();
    kani::assume(n >= min && n <= N);
    (b, n)
}
fn raw_any(min: usize) -> ([u8; N], usize) {
    let b: [u8; N] = kani::any();
    let n: usize = kani::any();
    kani::assume(n >= min && n <= N);
    (b, n)
}

/// Blake2b-256 of `pre || raw`, through the same public one-shot API
fn expect256(pre: &[u8], raw: &[u8]) -> Hash<32> {
    let mut buf = [0u8; NMAX + 2];
    let mut m = 0;
    let mut i = 0;
    while i < pre.len() {
        buf[m] = pre[i];
        m += 1;
        i += 1;
    }
    let mut i = 0;
    while i < raw.len() {
        buf[m] = raw[i];
        m += 1;
        i += 1;
    }
    Hasher::<256>::hash(&buf[..m])
}
fn expect224(pre: &[u8], raw: &[u8]) -> Hash<28> {
    let mut buf = [0u8; NMAX + 2];
    let mut m = 0;
    let mut i = 0;
    while i < pre.len() {
        buf[m] = pre[i];
        m += 1;
        i += 1;
    }
    let mut i = 0;
    while i < raw.len() {
        buf[m] = raw[i];
        m += 1;
        i += 1;
    }
    Hasher::<224>::hash(&buf[..m])
}
fn eq<const K: usize>(a: &Hash<K>, b: &Hash<K>) -> bool {
    let (a, b): (&[u8], &[u8]) = (a.as_ref(), b.as_ref());
    let mut i = 0;
    let mut ok = true;
    while i < K {
        ok &= a[i] == b[i];
        i += 1;
    }
    ok
}
fn two_digests() -> bool {
    unsafe { rec::DIGESTS == 2 }
}

/// OriginalHash impls: `KeepRaw::verif_from_parts(raw, inner).original_hash() == H(prefix || raw)`
macro_rules! orig {
    ($name:ident, $n:expr, $expect:ident, $min:expr, [$($pre:expr),*], $inner:expr) => {
        #[kani::proof]
        #[kani::unwind(34)]
        #[kani::stub(std::fmt::format, crate::stubs::fmt_format_stub)]
        #[kani::stub(pallas_codec::minicbor::encode::Error::write, crate::stubs::mcb_write_err_stub)]
        #[kani::stub(<cryptoxide::blake2b::Blake2b as cryptoxide::digest::Digest>::input, crate::xstubs::rec::input)]
        #[kani::stub(<cryptoxide::blake2b::Blake2b as cryptoxide::digest::Digest>::result, crate::xstubs::rec::result)]
        fn $name() {
            let (raw, n) = raw_any_n::<$n>($min);
            let k = KeepRaw::verif_from_parts(&raw[..n], $inner);
            let h = k.original_hash();
            let exp = $expect(&[$($pre),*], &raw[..n]);
            assert!(eq(&h, &exp), "digest is Blake2b(prefix || kept raw bytes)");
            kani::cover!(n == $n && two_digests(), "longest raw, both digests through the hasher");
            kani::cover!(n == $min, "shortest raw");
            core::mem::forget(k);
        }
    };
}
// bound: raw = 0..=12 arbitrary bytes (length symbolic; >= 1 for the Byron headers), inner = minimal built value unrelated to raw; unwind 34 (32-byte digest compare, 26-byte copy loops)
orig!(c05_q_orig_ebb_head, 12, expect256, 1, [0x82, 0x00], ebb_head(0));
orig!(c05_q_orig_byron_head, 12, expect256, 1, [0x82, 0x01], byron_head(0));
orig!(c05_q_orig_byron_tx, 12, expect256, 0, [], byron_tx());
orig!(c05_q_orig_alonzo_header, 12, expect256, 0, [], alonzo_header(0));
orig!(c05_q_orig_babbage_header, 12, expect256, 0, [], babbage_header(0));
orig!(c05_q_orig_native_script, 12, expect224, 0, [0x00], alonzo::NativeScript::ScriptPubkey(h28(0)));
orig!(c05_q_orig_plutus_data, 12, expect256, 0, [], alonzo::PlutusData::BoundedBytes(Vec::new().into()));
orig!(c05_q_orig_alonzo_body, 12, expect256, 0, [], alonzo_body(0));
orig!(c05_q_orig_babbage_body, 12, expect256, 0, [], babbage_body(0));
orig!(c05_q_orig_conway_body, 12, expect256, 0, [], conway_body(0));
// bound: raw = 0..=24 arbitrary bytes (length symbolic; >= 1 for the Byron headers), inner = minimal built value unrelated to raw; unwind 34
orig!(c05_t_orig24_ebb_head, 24, expect256, 1, [0x82, 0x00], ebb_head(0));
orig!(c05_t_orig24_byron_head, 24, expect256, 1, [0x82, 0x01], byron_head(0));
orig!(c05_t_orig24_byron_tx, 24, expect256, 0, [], byron_tx());
orig!(c05_t_orig24_alonzo_header, 24, expect256, 0, [], alonzo_header(0));
orig!(c05_t_orig24_babbage_header, 24, expect256, 0, [], babbage_header(0));
orig!(c05_t_orig24_native_script, 24, expect224, 0, [0x00], alonzo::NativeScript::ScriptPubkey(h28(0)));
orig!(c05_t_orig24_plutus_data, 24, expect256, 0, [], alonzo::PlutusData::BoundedBytes(Vec::new().into()));
orig!(c05_t_orig24_alonzo_body, 24, expect256, 0, [], alonzo_body(0));
orig!(c05_t_orig24_babbage_body, 24, expect256, 0, [], babbage_body(0));
orig!(c05_t_orig24_conway_body, 24, expect256, 0, [], conway_body(0));

/// Plutus script hashes: Blake2b-224(version byte || script bytes)
macro_rules! plutus {
    ($name:ident, $v:expr, $len:expr) => {
        #[kani::proof]
        #[kani::unwind(34)]
        #[kani::stub(std::fmt::format, crate::stubs::fmt_format_stub)]
        #[kani::stub(pallas_codec::minicbor::encode::Error::write, crate::stubs::mcb_write_err_stub)]
        #[kani::stub(<cryptoxide::blake2b::Blake2b as cryptoxide::digest::Digest>::input, crate::xstubs::rec::input)]
        #[kani::stub(<cryptoxide::blake2b::Blake2b as cryptoxide::digest::Digest>::result, crate::xstubs::rec::result)]
        fn $name() {
            let raw: [u8; $len] = kani::any();
            let s: PlutusScript<$v> = PlutusScript(Bytes::from(raw.to_vec()));
            let h = s.compute_hash();
            let exp = expect224(&[$v as u8], &raw[..]);
            assert!(eq(&h, &exp), "script hash is Blake2b-224(language tag || script bytes)");
            kani::cover!(two_digests(), "both digests through the hasher");
            core::mem::forget(s);
        }
    };
}
// bound: script = 8 arbitrary bytes (length concrete: a Vec has to be built), language version concrete; unwind 34
plutus!(c05_q_plutus_v1, 1, 8);
plutus!(c05_q_plutus_v2, 2, 8);
plutus!(c05_q_plutus_v3, 3, 8);
// bound: empty script, language version 2; unwind 34
plutus!(c05_q_plutus_v2_empty, 2, 0);

macro_rules! hash_stubs {
    ($(#[$m:meta])* fn $name:ident() $body:block) => {
        $(#[$m])*
        #[kani::proof]
        #[kani::unwind(34)]
        #[kani::stub(std::fmt::format, crate::stubs::fmt_format_stub)]
        #[kani::stub(pallas_codec::minicbor::encode::Error::write, crate::stubs::mcb_write_err_stub)]
        #[kani::stub(<cryptoxide::blake2b::Blake2b as cryptoxide::digest::Digest>::input, crate::xstubs::rec::input)]
        #[kani::stub(<cryptoxide::blake2b::Blake2b as cryptoxide::digest::Digest>::result, crate::xstubs::rec::result)]
        fn $name() $body
    };
}

// ---- MultiEraTx::hash: the body's raw bytes, never the witness bytes, never a re-encoding

hash_stubs! {
/// bound: body raw = 0..=12 arbitrary bytes, witness raw = 2 arbitrary bytes, success symbolic, inner values minimal; unwind 34
fn c05_q_tx_conway() {
    let (raw, n) = raw_any(0);
    let wraw: [u8; 2] = kani::any();
    let tx = conway::Tx {
        transaction_body: KeepRaw::verif_from_parts(&raw[..n], conway_body(kani::any())),
        transaction_witness_set: KeepRaw::verif_from_parts(&wraw[..], conway_wits()),
        success: kani::any(),
        auxiliary_data: Nullable::Null,
    };
    let mtx = MultiEraTx::from_conway(&tx);
    let h = mtx.hash();
    let exp = expect256(&[], &raw[..n]);
    assert!(eq(&h, &exp), "tx id is Blake2b-256(kept body bytes)");
    kani::cover!(n == N && two_digests(), "longest raw");
    core::mem::forget(mtx);
    core::mem::forget(tx);
}
}

hash_stubs! {
/// bound: body raw = 0..=12 arbitrary bytes, witness raw = 2 arbitrary bytes, success symbolic, inner values minimal; unwind 34
fn c05_q_tx_babbage() {
    let (raw, n) = raw_any(0);
    let wraw: [u8; 2] = kani::any();
    let tx = babbage::Tx {
        transaction_body: KeepRaw::verif_from_parts(&raw[..n], babbage_body(kani::any())),
        transaction_witness_set: KeepRaw::verif_from_parts(&wraw[..], babbage_wits()),
        success: kani::any(),
        auxiliary_data: Nullable::Null,
    };
    let mtx = MultiEraTx::from_babbage(&tx);
    let h = mtx.hash();
    let exp = expect256(&[], &raw[..n]);
    assert!(eq(&h, &exp), "tx id is Blake2b-256(kept body bytes)");
    kani::cover!(n == N && two_digests(), "longest raw");
    core::mem::forget(mtx);
    core::mem::forget(tx);
}
}

hash_stubs! {
/// bound: body raw = 0..=12 arbitrary bytes, witness raw = 2 arbitrary bytes, success symbolic, era tag in {Shelley, Alonzo}, inner values minimal; unwind 34
fn c05_q_tx_alonzo() {
    let (raw, n) = raw_any(0);
    let wraw: [u8; 2] = kani::any();
    let tx = alonzo::Tx {
        transaction_body: KeepRaw::verif_from_parts(&raw[..n], alonzo_body(kani::any())),
        transaction_witness_set: KeepRaw::verif_from_parts(&wraw[..], alonzo_wits()),
        success: kani::any(),
        auxiliary_data: Nullable::Null,
    };
    let era = if kani::any() { Era::Shelley } else { Era::Alonzo };
    let mtx = MultiEraTx::from_alonzo_compatible(&tx, era);
    let h = mtx.hash();
    let exp = expect256(&[], &raw[..n]);
    assert!(eq(&h, &exp), "tx id is Blake2b-256(kept body bytes)");
    kani::cover!(n == N && two_digests(), "longest raw");
    core::mem::forget(mtx);
    core::mem::forget(tx);
}
}

hash_stubs! {
/// bound: tx raw = 0..=12 arbitrary bytes, witness raw = 2 arbitrary bytes, inner values minimal; unwind 34
fn c05_q_tx_byron() {
    let (raw, n) = raw_any(0);
    let wraw: [u8; 2] = kani::any();
    let tx = byron::TxPayload {
        transaction: KeepRaw::verif_from_parts(&raw[..n], byron_tx()),
        witness: KeepRaw::verif_from_parts(&wraw[..], MaybeIndefArray::Def(Vec::new())),
    };
    let mtx = MultiEraTx::from_byron(&tx);
    let h = mtx.hash();
    let exp = expect256(&[], &raw[..n]);
    assert!(eq(&h, &exp), "Byron tx id is Blake2b-256(kept tx bytes)");
    kani::cover!(n == N && two_digests(), "longest raw");
    core::mem::forget(mtx);
    core::mem::forget(tx);
}
}

// ---- MultiEraHeader::hash

macro_rules! header {
    ($name:ident, $variant:ident, $min:expr, [$($pre:expr),*], $inner:expr) => {
        hash_stubs! {
        fn $name() {
            let (raw, n) = raw_any($min);
            let n = if $min >= N { N } else { n }; // concrete when the length is fixed
            let k = KeepRaw::verif_from_parts(&raw[..n], $inner);
            let hd = MultiEraHeader::$variant(Cow::Borrowed(&k));
            let h = hd.hash();
            let exp = expect256(&[$($pre),*], &raw[..n]);
            assert!(eq(&h, &exp), "block hash is Blake2b-256(prefix || kept header bytes)");
            kani::cover!(n == N && two_digests(), "longest raw");
            core::mem::forget(hd);
            core::mem::forget(k);
        }
        }
    };
}
// bound: header raw = 0..=12 arbitrary bytes (>= 1 for Byron), inner = minimal built header; unwind 34
header!(c05_q_header_shelley, ShelleyCompatible, 0, [], alonzo_header(kani::any()));
header!(c05_q_header_babbage, BabbageCompatible, 0, [], babbage_header(kani::any()));

// ---- MultiEraBlock::hash (header() + hash())

hash_stubs! {
/// bound: header raw = 0..=12 arbitrary bytes, block otherwise empty; unwind 34
fn c05_q_block_conway() {
    let (raw, n) = raw_any(0);
    let b = conway::Block {
        header: KeepRaw::verif_from_parts(&raw[..n], babbage_header(kani::any())),
        transaction_bodies: Vec::new(),
        transaction_witness_sets: Vec::new(),
        auxiliary_data_set: BTreeMap::new(),
        invalid_transactions: None,
    };
    let mb = MultiEraBlock::Conway(Box::new(b));
    let h = mb.hash();
    let exp = expect256(&[], &raw[..n]);
    assert!(eq(&h, &exp), "block hash is Blake2b-256(kept header bytes)");
    kani::cover!(n == N && two_digests(), "longest raw");
    core::mem::forget(mb);
}
}

hash_stubs! {
/// bound: header raw = 0..=12 arbitrary bytes, block otherwise empty; unwind 34
fn c05_q_block_babbage() {
    let (raw, n) = raw_any(0);
    let b = babbage::Block {
        header: KeepRaw::verif_from_parts(&raw[..n], babbage_header(kani::any())),
        transaction_bodies: Vec::new(),
        transaction_witness_sets: Vec::new(),
        auxiliary_data_set: BTreeMap::new(),
        invalid_transactions: None,
    };
    let mb = MultiEraBlock::Babbage(Box::new(b));
    let h = mb.hash();
    let exp = expect256(&[], &raw[..n]);
    assert!(eq(&h, &exp), "block hash is Blake2b-256(kept header bytes)");
    kani::cover!(n == N && two_digests(), "longest raw");
    core::mem::forget(mb);
}
}

hash_stubs! {
/// bound: header raw = 0..=12 arbitrary bytes, block otherwise empty, era tag in {Shelley, Mary}; unwind 34
fn c05_q_block_alonzo() {
    let (raw, n) = raw_any(0);
    let b = alonzo::Block {
        header: KeepRaw::verif_from_parts(&raw[..n], alonzo_header(kani::any())),
        transaction_bodies: Vec::new(),
        transaction_witness_sets: Vec::new(),
        auxiliary_data_set: BTreeMap::new(),
        invalid_transactions: None,
    };
    let era = if kani::any() { Era::Shelley } else { Era::Mary };
    let mb = MultiEraBlock::AlonzoCompatible(Box::new(b), era);
    let h = mb.hash();
    let exp = expect256(&[], &raw[..n]);
    assert!(eq(&h, &exp), "block hash is Blake2b-256(kept header bytes)");
    kani::cover!(n == N && two_digests(), "longest raw");
    core::mem::forget(mb);
}
}

// ---- datum option

hash_stubs! {
/// DatumOption::Hash carries the hash through unchanged
/// bound: 32 arbitrary hash bytes; unwind 34
fn c05_q_datum_option_hash() {
    let hb: [u8; 32] = kani::any();
    let d = babbage::DatumOption::Hash(Hash::new(hb));
    let h = d.compute_hash();
    let exp: Hash<32> = Hash::new(hb);
    assert!(eq(&h, &exp), "datum hash option is returned as is");
    kani::cover!(hb[31] == 7, "reached");
    core::mem::forget(d);
}
}

hash_stubs! {
/// vacuity twin: must come back FAILED (the witness bytes are *not* what is hashed)
fn c05_v_twin() {
    let (raw, n) = raw_any(0);
    let wraw: [u8; 2] = kani::any();
    let tx = conway::Tx {
        transaction_body: KeepRaw::verif_from_parts(&raw[..n], conway_body(0)),
        transaction_witness_set: KeepRaw::verif_from_parts(&wraw[..], conway_wits()),
        success: true,
        auxiliary_data: Nullable::Null,
    };
    let mtx = MultiEraTx::from_conway(&tx);
    let h = mtx.hash();
    let exp = expect256(&[], &wraw[..]);
    let ok = eq(&h, &exp);
    core::mem::forget(mtx);
    core::mem::forget(tx);
    assert!(ok, "twin: must fail");
}
}
