use pallas_traverse::probe::{block_era, Outcome};
#[kani::proof]
#[kani::unwind(6)]
#[kani::stub(std::fmt::format, crate::stubs::fmt_format_stub)]
fn pa_82_uint() {
    let mut b: [u8; 4] = kani::any();
    b[0] = 0x82;
    kani::assume(b[1] <= 0x1f);
    let o = block_era(&b[..3]);
    kani::cover!(matches!(o, Outcome::EpochBoundary));
    core::mem::forget(o);
}
#[kani::proof]
#[kani::unwind(6)]
#[kani::stub(std::fmt::format, crate::stubs::fmt_format_stub)]
fn pb_first_uint_n1() {
    let mut b: [u8; 4] = kani::any();
    kani::assume(b[0] <= 0x1f);
    let o = block_era(&b[..1]);
    kani::cover!(matches!(o, Outcome::Inconclusive));
    core::mem::forget(o);
}
#[kani::proof]
#[kani::unwind(6)]
#[kani::stub(std::fmt::format, crate::stubs::fmt_format_stub)]
fn pc_empty() {
    let mut b: [u8; 4] = kani::any();
    let o = block_era(&b[..0]);
    kani::cover!(matches!(o, Outcome::Inconclusive));
    core::mem::forget(o);
}
#[kani::proof]
#[kani::unwind(6)]
#[kani::stub(std::fmt::format, crate::stubs::fmt_format_stub)]
fn pd_concrete() {
    let b: [u8; 4] = [0x82, 0x07, 0x80, 0];
    let o = block_era(&b[..3]);
    assert!(matches!(o, Outcome::Matched(pallas_traverse::Era::Conway)));
    core::mem::forget(o);
}
