use pallas_codec::minicbor::{self, data::Token, decode::Tokenizer};
#[kani::proof]
#[kani::unwind(6)]
#[kani::stub(std::fmt::format, crate::stubs::fmt_format_stub)]
fn pe_two_next_forget() {
    let b: [u8; 4] = [0x82, 0x07, 0x80, 0];
    let mut t = Tokenizer::new(&b[..3]);
    let r = t.next();
    assert!(matches!(r, Some(Ok(Token::Array(2)))));
    core::mem::forget(r);
    let r = t.next();
    assert!(matches!(r, Some(Ok(Token::U8(7)))));
    core::mem::forget(r);
}
#[kani::proof]
#[kani::unwind(6)]
#[kani::stub(std::fmt::format, crate::stubs::fmt_format_stub)]
fn pf_one_next_drop() {
    let b: [u8; 4] = [0x82, 0x07, 0x80, 0];
    let mut t = Tokenizer::new(&b[..3]);
    let ok = matches!(t.next(), Some(Ok(Token::Array(2))));
    assert!(ok);
}
#[kani::proof]
#[kani::unwind(6)]
#[kani::stub(std::fmt::format, crate::stubs::fmt_format_stub)]
fn pg_sym_first_forget() {
    let mut b: [u8; 4] = kani::any();
    kani::assume(b[0] >= 0x80 && b[0] <= 0x9f);
    let mut t = Tokenizer::new(&b[..3]);
    let r = t.next();
    kani::cover!(matches!(r, Some(Ok(Token::Array(2)))));
    core::mem::forget(r);
}
